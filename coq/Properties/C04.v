(* C04 — Version-1 tokens migrate to version 2 without losing meaning.
   Only statements; proofs in Proofs/Migrate.v.  The shadow schemas (what a v1
   payload is decoded into) and the v2 schemas are generated from the code. *)
From JWT Require Import Base.Codec Model.Claims Model.Migrate Proofs.Migrate.
Open Scope string_scope.
Open Scope Z_scope.

(* THE EXPECTED MAPPING, written from the property statement: which version-2
   field (JSON path) must carry which version-1 field (path in the v1 payload) *)
Definition std : list (list string * list string) :=
  [(["aud"], ["aud"]); (["exp"], ["exp"]); (["jti"], ["jti"]); (["iat"], ["iat"]);
   (["iss"], ["iss"]); (["name"], ["name"]); (["nbf"], ["nbf"]); (["sub"], ["sub"])].
Definition expected_copies (k : ckind) : list (list string * list string) :=
  match k with
  | KOperator =>
      std ++ [(["nats"; "type"], ["type"]); (["nats"; "tags"], ["tags"]);
              (["nats"; "signing_keys"], ["nats"; "signing_keys"]);
              (["nats"; "account_server_url"], ["nats"; "account_server_url"]);
              (["nats"; "operator_service_urls"], ["nats"; "operator_service_urls"]);
              (["nats"; "system_account"], ["nats"; "system_account"])]
  | KAccount =>
      std ++ [(["nats"; "type"], ["type"]); (["nats"; "tags"], ["tags"]);
              (["nats"; "imports"], ["nats"; "imports"]); (["nats"; "exports"], ["nats"; "exports"]);
              (["nats"; "revocations"], ["nats"; "revocations"]);
              (["nats"; "limits"; "subs"], ["nats"; "limits"; "subs"]);
              (["nats"; "limits"; "data"], ["nats"; "limits"; "data"]);
              (["nats"; "limits"; "payload"], ["nats"; "limits"; "payload"]);
              (["nats"; "limits"; "imports"], ["nats"; "limits"; "imports"]);
              (["nats"; "limits"; "exports"], ["nats"; "limits"; "exports"]);
              (["nats"; "limits"; "wildcards"], ["nats"; "limits"; "wildcards"]);
              (["nats"; "limits"; "conn"], ["nats"; "limits"; "conn"]);
              (["nats"; "limits"; "leaf"], ["nats"; "limits"; "leaf"])]
  | KUser =>
      std ++ [(["nats"; "type"], ["type"]); (["nats"; "tags"], ["tags"]);
              (["nats"; "issuer_account"], ["issuer_account"]);
              (["nats"; "pub"], ["nats"; "pub"]); (["nats"; "sub"], ["nats"; "sub"]);
              (["nats"; "resp"], ["nats"; "resp"]); (["nats"; "src"], ["nats"; "src"]);
              (["nats"; "times"], ["nats"; "times"]);
              (["nats"; "subs"], ["nats"; "subs"]); (["nats"; "data"], ["nats"; "data"]);
              (["nats"; "payload"], ["nats"; "payload"]);
              (["nats"; "bearer_token"], ["nats"; "bearer_token"])]
  | KActivation =>
      std ++ [(["nats"; "type"], ["type"]); (["nats"; "tags"], ["tags"]);
              (["nats"; "issuer_account"], ["issuer_account"]);
              (["nats"; "subject"], ["nats"; "subject"]);
              (["nats"; "kind"], ["nats"; "type"])]
  | _ => []
  end.

Definition migratable (k : ckind) : Prop := k = KOperator \/ k = KAccount \/ k = KUser \/ k = KActivation.

(* every listed field is carried over, for every v1 payload value *)
Theorem C04_migrate_copies : forall k st s p2 p1,
  shadow_of k = Some st -> has_type st s = true ->
  In (p2, p1) (expected_copies k) ->
  getp (schema_of k) p2 (migrate k s) = getp st p1 s /\ getp st p1 s <> None.
Proof. exact migrate_copies. Qed.
Print Assumptions C04_migrate_copies.

(* migrated claims report version 1 *)
Theorem C04_migrate_version : forall k st s,
  shadow_of k = Some st -> has_type st s = true ->
  getp (schema_of k) ["nats"; "version"] (migrate k s) = Some (VInt 1).
Proof. exact migrate_version. Qed.
Print Assumptions C04_migrate_version.

(* account signing keys: the v1 list becomes the key set with exactly those keys, all plain *)
Theorem C04_migrate_signing_keys : forall s l,
  has_type sch_shadow_account s = true ->
  getp sch_shadow_account ["nats"; "signing_keys"] s = Some (VList l) ->
  exists m, getp sch_account ["nats"; "signing_keys"] (migrate KAccount s) = Some (VMap (Some m)) /\
            forall k, (vlookup k m = Some (VPtr None) <-> exists l', l = Some l' /\ In (VStr k) l') /\
                      (forall x, vlookup k m = Some x -> x = VPtr None).
Proof. exact migrate_signing_keys. Qed.
Print Assumptions C04_migrate_signing_keys.

(* migrated claims are well-typed version-2 values (so C03's round trip applies to them) *)
Theorem C04_migrate_typed : forall k st s,
  shadow_of k = Some st -> has_type st s = true -> has_type (schema_of k) (migrate k s) = true.
Proof. exact migrate_typed. Qed.
Print Assumptions C04_migrate_typed.

(* absent legacy limits read as unlimited: a struct member that the payload does not
   mention keeps the preset, and the presets of the legacy limits are -1 *)
Theorem C04_absent_keeps_preset : forall fs m v0s vs i,
  dec (TStruct fs) (JObj m) (VStruct v0s) = Some (VStruct vs) ->
  List.length v0s = List.length fs ->
  (forall kv, In kv m -> field_index (fst kv) fs <> Some i) ->
  nth_error vs i = nth_error v0s i.
Proof. exact absent_keeps_preset. Qed.
Print Assumptions C04_absent_keeps_preset.

Theorem C04_legacy_presets :
  map (fun n => getp sch_shadow_user ["nats"; n] (preset_v1 KUser)) ["subs"; "data"; "payload"; "max"]
    = [Some (VInt (-1)); Some (VInt (-1)); Some (VInt (-1)); Some (VInt (-1))] /\
  map (fun n => getp sch_shadow_activation ["nats"; n] (preset_v1 KActivation)) ["max"; "payload"]
    = [Some (VInt (-1)); Some (VInt (-1))].
Proof. exact legacy_presets. Qed.

(* deprecated members are ignored rather than rejected: unknown members never make a struct decode fail *)
Theorem C04_unknown_member_ignored : forall fs m v0s name j,
  field_index name fs = None ->
  dec (TStruct fs) (JObj (m ++ [(name, j)])) (VStruct v0s) = dec (TStruct fs) (JObj m) (VStruct v0s).
Proof. exact unknown_member_ignored. Qed.
Print Assumptions C04_unknown_member_ignored.

(* a worked instance: a version-1 user payload without limits *)
Example C04_ex_user_unlimited :
  option_map (fun v => (get_int sch_user ["nats"; "subs"] v, get_int sch_user ["nats"; "payload"] v,
                        get_int sch_user ["nats"; "version"] v, get_str sch_user ["nats"; "type"] v))
    (load_v1 KUser (JObj [("iss", JStr "A"); ("sub", JStr "U"); ("type", JStr "user");
                          ("nats", JObj [("max", JInt 5); ("src", JStr "10.0.0.0/8, 192.168.0.0/16")])]))
  = Some (-1, -1, 1, "user").
Proof. vm_compute. reflexivity. Qed.
