(* C05 — Header, version and kind gate on decoding.  Only statements; proofs in
   Proofs/Decode.v.  (The Encode half — three unpadded base64url segments, v2
   header — is in Properties/C05_encode.v once Base/B64.v is in place.) *)
From JWT Require Import Model.Decode Proofs.Decode.
Open Scope string_scope.
Open Scope Z_scope.

(* type JWT and one of the two algorithm names, case-insensitively — nothing else *)
Theorem C05_header_valid_iff : forall typ alg,
  header_valid typ alg = true <->
  (to_upper typ = "JWT"%string /\ (to_lower alg = "ed25519"%string \/ to_lower alg = "ed25519-nkey"%string)).
Proof. exact header_valid_iff. Qed.
Print Assumptions C05_header_valid_iff.

Theorem C05_header_rejects : 
  header_valid "JWT" "none" = false /\ header_valid "JWT" "" = false /\
  header_valid "JWT" "ed25519-nkey2" = false /\ header_valid "JWT" "ed25519-" = false /\
  header_valid "JWT" "ed2551" = false /\ header_valid "JWS" "ed25519" = false /\
  header_valid "jwt" "ED25519-NKEY" = true /\ header_valid "JwT" "Ed25519" = true.
Proof. exact header_rejects. Qed.

Theorem C05_lib_version : lib_version = 2.
Proof. exact lib_version_is_2. Qed.

Section C05.
  Variable b64dec : string -> option string.
  Variable parse_header : string -> option (string * string).
  Variable parse_ident : string -> option ident.
  Variable unmarshal_ok : string -> ckind -> Z -> bool.
  Variable issuer_of : string -> string.
  Variable gunmarshal_ok : string -> bool.
  Variable verify : string -> string -> string -> bool.
  Variable role_of : string -> role.
  Notation decode := (decode b64dec parse_header parse_ident unmarshal_ok issuer_of verify role_of).
  Notation decode_generic := (decode_generic b64dec parse_header issuer_of gunmarshal_ok verify).

  Theorem C05_decode_gate : forall tok a,
    decode tok = Some a ->
    (exists c0 c1 c2 x0 x1 x2,
        split dot tok = [c0; c1; c2] /\
        b64dec c0 = Some x0 /\ b64dec c1 = Some x1 /\ b64dec c2 = Some x2 /\
        parse_header x0 = Some (a_typ a, a_alg a)) /\
    header_valid (a_typ a) (a_alg a) = true /\
    a_version a <= 2 /\
    (In (a_kind a) [KOperator; KAccount; KUser; KActivation] -> a_version a = 1 \/ a_version a = 2) /\
    a_declared a <> "cluster"%string /\ a_declared a <> "server"%string.
  Proof. exact (decode_gate b64dec parse_header parse_ident unmarshal_ok issuer_of verify role_of). Qed.

  Theorem C05_generic_gate : forall tok a,
    decode_generic tok = Some a ->
    (exists c0 c1 c2 x0 x1 x2,
        split dot tok = [c0; c1; c2] /\
        b64dec c0 = Some x0 /\ b64dec c1 = Some x1 /\ b64dec c2 = Some x2 /\
        parse_header x0 = Some (a_typ a, a_alg a)) /\
    header_valid (a_typ a) (a_alg a) = true.
  Proof. exact (generic_gate b64dec parse_header issuer_of gunmarshal_ok verify). Qed.

  (* any token whose split is not exactly three segments is refused by both decoders *)
  Theorem C05_three_segments : forall tok,
    List.length (split dot tok) <> 3%nat -> decode tok = None /\ decode_generic tok = None.
  Proof. exact (three_segments b64dec parse_header parse_ident unmarshal_ok issuer_of gunmarshal_ok verify role_of). Qed.
End C05.
Print Assumptions C05_decode_gate.
Print Assumptions C05_generic_gate.
Print Assumptions C05_three_segments.
Print Assumptions C05_header_rejects.
Print Assumptions C05_lib_version.
