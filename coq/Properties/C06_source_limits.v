(* C06 — the tie to the source: OperatorLimits.Validate (v2/account_claims.go) as translated on this run
   (Gen/SrcValidateClaims.v).  The limits are an abstract value; the code asks three things of it - are the flat
   JetStream limits the zero struct, how many tiers are there, is a tier named "" - and appends exactly the model's
   [v_op_limits]: with tiers present, ANY flat limit that is not zero (a "no limit" -1 as much as a positive one) is a
   blocking issue, and so is a blank tier name.  Only statements; proofs in Proofs/SrcValidateClaims.v. *)
From JWT Require Import Base.GoSem Gen.SrcValidateClaims Model.Subject Model.Validate Proofs.SrcValidateClaims.
Open Scope string_scope.
Open Scope list_scope.

Theorem C06_source_operator_limits : forall (o : op_limits) (vr : list go_issue),
  V2.OperatorLimits_Validate (js_zero (ol_js o)) (fun k => existsb (fun t => (fst t =? k)%string) (ol_tiers o))
    (Z.of_nat (List.length (ol_tiers o))) vr
  = vr ++ map goi (v_op_limits o).
Proof. exact vc_op_limits. Qed.
Print Assumptions C06_source_operator_limits.

(* Mapping.Validate (and WeightedMapping.GetWeight) as translated on this run: every source subject and every target
   subject validated, the weights of one source - a weight of 0 counting as 100 - summed in the integer type the code
   sums them in (arithmetic in a type of fewer than 64 bits is translated WITH its wrap-around, so the 8-bit sum of
   fixed defect F2 would not be equal to the model's sum), one blocking issue when the sum exceeds 100: exactly the
   model's [v_mappings], for every mapping.  A Go map is read as its list of entries in iteration order. *)
Theorem C06_source_mappings : forall (m : list (string * list (string * Z * string))) (vr : list go_issue),
  V2.Mapping_Validate m vr = vr ++ map goi (v_mappings (mapping_of m)).
Proof. exact vc_mappings. Qed.
Print Assumptions C06_source_mappings.

(* Limits.Validate (a user's source networks, connection times, time zone) as translated on this run: every network
   through net.ParseCIDR (an error or a nil network is a blocking issue), every time range through the translated
   TimeRange.Validate, the zone through time.LoadLocation - exactly the model's [v_user_limits] *)
Theorem C06_source_user_limits : forall cidr_ok hhmmss_ok tz_ok (l : user_limits) (vr : list go_issue),
  src_limits_validate cidr_ok hhmmss_ok tz_ok l vr = vr ++ map goi (v_user_limits cidr_ok hhmmss_ok tz_ok l).
Proof. exact vc_limits. Qed.
Print Assumptions C06_source_user_limits.
