(* C06 — the tie to the source: OperatorLimits.Validate (v2/account_claims.go) as translated on this run
   (Gen/SrcValidateClaims.v).  The limits are an abstract value; the code asks three things of it - are the flat
   JetStream limits the zero struct, how many tiers are there, is a tier named "" - and appends exactly the model's
   [v_op_limits]: with tiers present, ANY flat limit that is not zero (a "no limit" -1 as much as a positive one) is a
   blocking issue, and so is a blank tier name.  Only statements; proofs in Proofs/SrcValidateClaims.v. *)
From JWT Require Import Base.GoSem Gen.SrcValidateClaims Model.Subject Model.Validate Proofs.SrcValidateClaims.
Open Scope string_scope.
Open Scope list_scope.

Theorem C06_source_operator_limits : forall (o : op_limits) (vr : list go_issue),
  V2.OperatorLimits_Validate (js_zero (ol_js o)) (fun k => existsb (fun t => (fst t =? k)%string) (ol_tiers o))
    (Z.of_nat (List.length (ol_tiers o))) vr
  = vr ++ map goi (v_op_limits o).
Proof. exact vc_op_limits. Qed.
Print Assumptions C06_source_operator_limits.
