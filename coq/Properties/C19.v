(* C19 — The bundled version-1 library is self-consistent.  Only statements;
   proofs in Proofs/V1.v (decoder) and Proofs/V1Codec.v (the codec meta-theorem of
   Proofs/Codec.v, instantiated on the v1compat schemas generated from the code). *)
From JWT Require Import Base.Codec Base.B64 Model.Claims Model.V1 Model.Pipeline Gen.Schema Proofs.V1 Proofs.Codec Proofs.V1Codec Proofs.PipelineV1 Proofs.PipelineV1Self.
Open Scope string_scope.

(* the v1 role matrix (incl. the retired cluster and server kinds) *)
Definition v1_allowed (k : v1kind) (r : role) : bool :=
  match k, r with
  | V1Operator, ROperator => true
  | V1Account, RAccount | V1Account, ROperator => true
  | V1Activation, RAccount | V1Activation, ROperator => true
  | V1User, RAccount => true
  | V1Cluster, ROperator | V1Cluster, RCluster => true
  | V1Server, ROperator | V1Server, RCluster => true
  | V1Generic, _ => true
  | _, _ => false
  end.

Theorem C19_tables_match : forall k r,
  (match v1_expected_prefixes k with None => true | Some ps => existsb (role_eqb r) ps end) = v1_allowed k r.
Proof. exact v1_tables_match. Qed.
Print Assumptions C19_tables_match.

(* type "jwt" and exactly the old algorithm name; the version-2 name is refused *)
Theorem C19_header : forall typ alg,
  v1_header_valid typ alg = true <-> (to_lower typ = "jwt" /\ to_lower alg = "ed25519").
Proof. exact v1_header_iff. Qed.
Print Assumptions C19_header.
Theorem C19_v2_alg_refused : forall typ, v1_header_valid typ "ed25519-nkey" = false.
Proof. exact v1_v2_alg_refused. Qed.

Section C19.
  Variable b64dec : string -> option string.
  Variable parse_header : string -> option (string * string).
  Variable unmarshal_ok : v1kind -> string -> bool.
  Variable issuer_of : string -> string.
  Variable verify : string -> string -> string -> bool.
  Variable role_of : string -> role.
  Notation v1_decode := (v1_decode b64dec parse_header unmarshal_ok issuer_of verify role_of).

  (* accepted only if the third segment verifies, under the payload's issuer, over the
     payload segment; the issuer has a role permitted for the kind; header valid *)
  Theorem C19_authentic : forall k tok a,
    v1_decode k tok = Some a ->
    exists c0 c1 c2 sig data,
      split dot tok = [c0; c1; c2] /\ b64dec c1 = Some data /\ b64dec c2 = Some sig /\
      v1a_iss a = issuer_of data /\ verify (v1a_iss a) c1 sig = true /\
      v1_allowed k (role_of (v1a_iss a)) = true /\
      v1_header_valid (v1a_typ a) (v1a_alg a) = true.
  Proof. exact (v1_authentic b64dec parse_header unmarshal_ok issuer_of verify role_of). Qed.

  (* an altered payload or signature is refused unless it carries a valid signature of its own *)
  Theorem C19_bad_signature_refused : forall k tok c0 c1 c2 sig data,
    split dot tok = [c0; c1; c2] -> b64dec c1 = Some data -> b64dec c2 = Some sig ->
    verify (issuer_of data) c1 sig = false -> v1_decode k tok = None.
  Proof. exact (v1_bad_signature_refused b64dec parse_header unmarshal_ok issuer_of verify role_of). Qed.
End C19.
Print Assumptions C19_authentic.
Print Assumptions C19_bad_signature_refused.

Theorem C19_encode_roles : forall k subject sr kr extra,
  v1_encode_gate k subject sr kr extra = true ->
  v1_allowed k kr = true /\ v1_subject_ok k sr = true /\ subject <> "".
Proof. exact v1_encode_roles. Qed.
Print Assumptions C19_encode_roles.

(* all fields preserved: the codec meta-theorem on the v1compat schemas read from the code *)
Definition v1_schemas : list ty :=
  [sch1_operator; sch1_account; sch1_user; sch1_activation; sch1_cluster; sch1_server; sch1_generic].
(* wf_ty' (Proofs/Codec.v) = wf_ty plus the two side conditions the meta-theorem needs:
   enum names distinct, key-set scopes carry a "kind" field *)
Theorem C19_schemas_wf : forallb wf_ty' v1_schemas = true.
Proof. exact v1_schemas_wf. Qed.
Print Assumptions C19_schemas_wf.
Theorem C19_roundtrip : forall t v j,
  In t v1_schemas -> has_type t v = true -> enc t v = Some j ->
  exists v', dec t j (zero_val t) = Some v' /\ canon v' = canon v.
Proof. exact v1_roundtrip. Qed.
Print Assumptions C19_roundtrip.

(* AT TOKEN LEVEL: the text the version-1 encoder writes for claims of any of the seven v1 kinds (v1 header,
   the payload its claims type marshals, signature over the payload segment, concrete base64url) is accepted by the
   version-1 decoder whose JSON-level steps are the codec on the v1compat schemas generated from the code; the
   issuer reported is the payload's, and the claims read back are the encoded ones (up to nil = empty).
   [sch1v k] is the schema of the kind's claims type.  Abstract: the JSON text layer, Ed25519, the key-role test. *)
Theorem C19_encoder_output_accepted : forall (jparse : string -> option json) (jprint : json -> string)
    (sign : string -> string) (verify : string -> string -> string -> bool) (role_of : string -> role)
    (k : v1kind) (c1 : val) (j : json) (issuer : string),
  (forall x, jparse (jprint x) = Some x) ->
  has_type (sch1v k) c1 = true ->
  getp (sch1v k) ["iss"] c1 = Some (VStr issuer) -> issuer <> "" ->
  enc (sch1v k) c1 = Some j ->
  (forall text, verify issuer text (sign text) = true) ->
  v1_role_ok (v1_expected_prefixes k) (role_of issuer) = true ->
  exists a d,
    v1_decode b64dec (p_parse_header jparse) (v1p_unmarshal_ok jparse) (v1p_issuer_of jparse) verify role_of
              k (v1_token_of jprint sign j) = Some a /\
    v1a_iss a = issuer /\
    dec (sch1v k) j (zero_val (sch1v k)) = Some d /\ canon d = canon c1.
Proof.
  intros jparse jprint sign verify role_of k c1 j issuer Hjp.
  exact (v1_self_accepts jparse jprint Hjp sign verify role_of k c1 j issuer).
Qed.
Print Assumptions C19_encoder_output_accepted.
Print Assumptions C19_v2_alg_refused.
