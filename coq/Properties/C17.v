(* C17 — No hidden shared state: concurrent use on separate claims is race-free
   (PARTIAL: the model carries the library's own state; data races inside the Go
   runtime, the standard library and nkeys, and writes the SSA summary cannot see,
   are outside it).  Only statements; proofs in Proofs/Concurrency.v. *)
From JWT Require Import Model.Concurrency Gen.Globals Proofs.Concurrency.
Open Scope string_scope.

(* THE TIE: the inventory of package-level state generated from the code (go/ssa) on this
   run: no package variable is stored to, or through, outside package initialisation; its
   value only reaches functions documented safe for concurrent use; the public read-only
   queries do not store through their receiver or arguments *)
Definition allowed_escapes : list string :=
  ["(*regexp.Regexp).FindAllSubmatch"; "(*regexp.Regexp).FindAllStringSubmatch"; "(*regexp.Regexp).String"].
(* ... or methods of standard-library values documented as immutable / safe for concurrent use: a compiled regular
   expression (except its one configuration method) and the base32 / base64 encodings *)
Definition safe_receiver_prefixes : list string :=
  ["(*regexp.Regexp)."; "(*encoding/base32.Encoding)."; "(*encoding/base64.Encoding)."; "(encoding/base32.Encoding)."; "(encoding/base64.Encoding)."].
Definition escape_allowed (e : string) : bool :=
  existsb (fun a => a =? e) allowed_escapes ||
  (existsb (fun p => JWT.Base.Strings.has_prefix p e) safe_receiver_prefixes && negb (e =? "(*regexp.Regexp).Longest")).
Theorem C17_jwt_no_shared_writes :
  forallb (fun g => match g_writes g with [] => true | _ => false end) globals = true /\
  forallb (fun g => forallb escape_allowed (g_escapes g)) globals = true /\
  foreign_global_writes = [].     (* nor is a package variable of ANOTHER package (net/http, os, ...) stored to or through *)
Proof. exact jwt_no_shared_writes. Qed.
Theorem C17_readonly_queries_pure : forallb (fun q => negb (snd q)) query_stores = true.
Proof. exact readonly_queries_pure. Qed.

(* THE THEOREM: if no operation writes the shared store, then for EVERY schedule (any
   interleaving of any number of threads, any programs) each thread obtains exactly the
   results, and ends with exactly the object, of running its program alone; the shared
   store is unchanged *)
Theorem C17_interleaving_equiv :
  forall (Sh L Op R : Type) (step : Sh -> L -> Op -> Sh * L * R),
  (forall s l o, fst (fst (step s l o)) = s) ->
  forall (sched : list nat) (s0 : Sh) (objs : list L) (progs : list (list Op)),
  List.length objs = List.length progs ->
  complete Sh L Op R step sched s0 (start L Op R objs progs) ->
  fst (run_sched Sh L Op R step sched (s0, start L Op R objs progs)) = s0 /\
  forall i l p, nth_error objs i = Some l -> nth_error progs i = Some p ->
    exists t, nth_error (snd (run_sched Sh L Op R step sched (s0, start L Op R objs progs))) i = Some t /\
              t_res L Op R t = snd (run_seq Sh L Op R step s0 l p) /\
              t_obj L Op R t = snd (fst (run_seq Sh L Op R step s0 l p)).
Proof. exact interleaving_equiv. Qed.
Print Assumptions C17_interleaving_equiv.

(* no two steps of different threads conflict: a step writes only its own thread's object *)
Theorem C17_no_conflict : forall i j : nat, i <> j -> conflict i j = false.
Proof. exact no_conflict. Qed.
Print Assumptions C17_no_conflict.
Print Assumptions C17_jwt_no_shared_writes.
Print Assumptions C17_readonly_queries_pure.
