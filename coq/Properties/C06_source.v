(* C06 — the tie to the source: Subject.countTokenWildcards (v2/types.go, translated on this run into
   Gen/SrcSubject.v), which the mapping and import validation rules count with, is the model's [count_wild_tokens]. *)
From JWT Require Import Base.GoSem Gen.SrcSubject Model.Validate Proofs.SrcSubject.
Open Scope string_scope.

Theorem C06_source_count_wild_tokens : forall s : string,
  V2.Subject_countTokenWildcards s = count_wild_tokens s.
Proof. exact src_count_wild_tokens. Qed.
Print Assumptions C06_source_count_wild_tokens.
