(* C06 — the tie to the source: Subject.countTokenWildcards (v2/types.go, translated on this run into
   Gen/SrcSubject.v), which the mapping and import validation rules count with, is the model's [count_wild_tokens]. *)
From JWT Require Import Base.GoSem Gen.SrcSubject Gen.SrcValidate Model.Validate Proofs.SrcSubject Proofs.SrcValidate Gen.SrcValidateClaims Proofs.SrcValidateClaims.
Open Scope string_scope.

Theorem C06_source_count_wild_tokens : forall s : string,
  V2.Subject_countTokenWildcards s = count_wild_tokens s.
Proof. exact src_count_wild_tokens. Qed.
Print Assumptions C06_source_count_wild_tokens.

(* Validate methods: what the translated method appends to the validation results (AddError / AddWarning /
   AddTimeCheck, in order; [goi] maps the model's issue kinds to them) is the model's list of issues *)
Theorem C06_source_subject_validate : forall (s : string) (vr : list go_issue),
  V2.Subject_Validate s vr = (vr ++ map goi (v_subject s))%list.
Proof. exact src_subject_validate. Qed.
Print Assumptions C06_source_subject_validate.
Theorem C06_source_latency_validate : forall (l : latency) (vr : list go_issue),
  V2.ServiceLatency_Validate (lat_results l) (lat_sampling l) vr = (vr ++ map goi (v_latency l))%list.
Proof. exact src_latency_validate. Qed.
Print Assumptions C06_source_latency_validate.
(* Export.Validate: the export is an abstract value; what Info.Validate (url.Parse inside) reports is an observation *)
Theorem C06_source_export_validate : forall url_of (e : export) (vr : list go_issue),
  V2.Export_Validate (ex_atp e) (ex_allow_trace e) (map goi (v_info url_of (ex_desc e) (ex_url e)))
    (lat_results (lat_or_zero (ex_latency e))) (lat_sampling (lat_or_zero (ex_latency e))) (is_none (ex_latency e))
    (ex_threshold e) (ex_response_type e) (ex_subject e) (ex_type e) false vr
  = (vr ++ map goi (v_export url_of (Some e)))%list.
Proof. exact src_export_validate. Qed.
Print Assumptions C06_source_export_validate.

(* permissions and clock-time ranges (Gen/SrcValidateClaims.v) *)
Theorem C06_source_permissions_validate : forall (p : permissions) (resp_nil : bool) (vr : list go_issue),
  SrcValidateClaims.V2.Permissions_Validate (p_allow (perm_pub p)) (p_deny (perm_pub p)) resp_nil (p_allow (perm_sub p)) (p_deny (perm_sub p)) vr
  = (vr ++ map SrcValidateClaims.goi (v_permissions p))%list.
Proof. exact vc_permissions. Qed.
Print Assumptions C06_source_permissions_validate.
Theorem C06_source_time_range_validate : forall hhmmss_ok (t : time_range) (vr : list go_issue),
  SrcValidateClaims.V2.TimeRange_Validate (parse_err hhmmss_ok) (tr_end t) (tr_start t) vr
  = (vr ++ map SrcValidateClaims.goi (v_time_range hhmmss_ok t))%list.
Proof. exact vc_time_range. Qed.
Print Assumptions C06_source_time_range_validate.

(* external authorization settings of an account *)
Theorem C06_source_ext_auth_validate : forall role_of (a : ext_auth) (vr : list go_issue),
  SrcValidateClaims.V2.ExternalAuthorization_Validate (ea_accounts a) (ea_users a) (ea_xkey a) (is_acct role_of) (is_curve role_of) (is_user role_of) vr
  = (vr ++ map SrcValidateClaims.goi (v_ext_auth role_of a))%list.
Proof. exact vc_ext_auth. Qed.
Print Assumptions C06_source_ext_auth_validate.
