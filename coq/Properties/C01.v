(* C01 — Accepted tokens are authentic.  Only statements; proofs in Proofs/Decode.v.
   Every theorem is universally quantified over the external functions
   (base64, JSON parsing, Ed25519 verification, key roles). *)
From JWT Require Import Model.Decode Proofs.Decode.
Open Scope string_scope.

Section C01.
  Variable b64dec : string -> option string.
  Variable parse_header : string -> option (string * string).
  Variable parse_ident : string -> option ident.
  Variable unmarshal_ok : string -> ckind -> Z -> bool.
  Variable issuer_of : string -> string.
  Variable gunmarshal_ok : string -> bool.
  Variable verify : string -> string -> string -> bool.
  Variable role_of : string -> role.
  Notation decode := (decode b64dec parse_header parse_ident unmarshal_ok issuer_of verify role_of).
  Notation decode_typed := (decode_typed b64dec parse_header parse_ident unmarshal_ok issuer_of verify role_of).
  Notation decode_generic := (decode_generic b64dec parse_header issuer_of gunmarshal_ok verify).
  Notation declared_layout := (declared_layout b64dec parse_header parse_ident).

  (* the Go slice expression token[:len(c0)+len(c1)+1] IS header-dot-payload, for every string *)
  Theorem C01_split_exact : forall tok c0 c1 c2,
    split dot tok = [c0; c1; c2] ->
    tok = c0 ++ "." ++ c1 ++ "." ++ c2 /\
    sep_free dot c0 = true /\ sep_free dot c1 = true /\ sep_free dot c2 = true /\
    substring 0 (String.length c0 + String.length c1 + 1) tok = c0 ++ "." ++ c1.
  Proof. exact split_exact. Qed.

  (* whenever Decode returns claims: the third segment is a valid signature, under the
     issuer the returned claims report, over exactly the text of the layout used; the
     reported issuer is the payload's; the layout is the one the token itself declares *)
  Theorem C01_decode_authentic : forall tok a,
    decode tok = Some a ->
    exists c0 c1 c2 sig data,
      split dot tok = [c0; c1; c2] /\ tok = c0 ++ "." ++ c1 ++ "." ++ c2 /\
      b64dec c2 = Some sig /\ b64dec c1 = Some data /\ a_iss a = issuer_of data /\
      verify (a_iss a) (text_of (a_layout a) c0 c1) sig = true /\
      declared_layout tok = Some (a_layout a).
  Proof. exact (decode_authentic b64dec parse_header parse_ident unmarshal_ok issuer_of verify role_of). Qed.

  (* "header-dot-payload for version-2 claims, the payload segment for version-1 claims", by the version the
     returned claims REPORT.  Operator / account / user / activation claims report the version that selected
     their loader (version 1: set by the migration, C04_migrate_version; version 2: their nats section, which is
     where the identifier read it).  Authorization claims have no version-1 form and report what their nats
     section says whatever selected the loader: the loaders refuse them unless that IS the selecting version. *)
  Theorem C01_auth_reported_version : forall tok a,
    decode tok = Some a -> (a_kind a = KAuthRequest \/ a_kind a = KAuthResponse) ->
    exists c0 c1 c2 data i,
      split dot tok = [c0; c1; c2] /\ b64dec c1 = Some data /\ parse_ident data = Some i /\
      a_layout a = (if (id_nats_version i <=? 1)%Z then LV1 else LV2).
  Proof. exact (auth_reported_version b64dec parse_header parse_ident unmarshal_ok issuer_of verify role_of). Qed.

  Theorem C01_decode_typed_authentic : forall k tok a,
    decode_typed k tok = Some a ->
    a_kind a = k /\
    exists c0 c1 c2 sig data,
      split dot tok = [c0; c1; c2] /\ tok = c0 ++ "." ++ c1 ++ "." ++ c2 /\
      b64dec c2 = Some sig /\ b64dec c1 = Some data /\ a_iss a = issuer_of data /\
      verify (a_iss a) (text_of (a_layout a) c0 c1) sig = true /\
      declared_layout tok = Some (a_layout a).
  Proof. exact (decode_typed_authentic b64dec parse_header parse_ident unmarshal_ok issuer_of verify role_of). Qed.

  Theorem C01_decode_generic_authentic : forall tok a,
    decode_generic tok = Some a ->
    exists c0 c1 c2 sig data typ alg hj,
      split dot tok = [c0; c1; c2] /\ tok = c0 ++ "." ++ c1 ++ "." ++ c2 /\
      b64dec c2 = Some sig /\ b64dec c1 = Some data /\ a_iss a = issuer_of data /\
      b64dec c0 = Some hj /\ parse_header hj = Some (typ, alg) /\
      a_layout a = (if alg =? alg_old then LV1 else LV2) /\
      verify (a_iss a) (text_of (a_layout a) c0 c1) sig = true.
  Proof. exact (decode_generic_authentic b64dec parse_header issuer_of gunmarshal_ok verify). Qed.

  (* a signature that does not verify over the declared layout's text is refused,
     whatever it verifies over (in particular when it is valid for the other layout) *)
  Theorem C01_other_layout_rejected : forall tok c0 c1 c2 sig data l,
    split dot tok = [c0; c1; c2] -> b64dec c2 = Some sig -> b64dec c1 = Some data ->
    declared_layout tok = Some l ->
    verify (issuer_of data) (text_of l c0 c1) sig = false ->
    decode tok = None.
  Proof. exact (other_layout_rejected b64dec parse_header parse_ident unmarshal_ok issuer_of verify role_of). Qed.

  (* the decoded content is a function of the payload segment alone: two accepted
     tokens with the same payload segment report the same kind, issuer, version *)
  Theorem C01_content_from_payload : forall tok tok' c0 c1 c2 c0' c2' a a',
    split dot tok = [c0; c1; c2] -> split dot tok' = [c0'; c1; c2'] ->
    decode tok = Some a -> decode tok' = Some a' ->
    a_kind a = a_kind a' /\ a_iss a = a_iss a' /\ a_version a = a_version a' /\ a_declared a = a_declared a'.
  Proof. exact (content_from_payload b64dec parse_header parse_ident unmarshal_ok issuer_of verify role_of). Qed.
End C01.

Print Assumptions C01_split_exact.
Print Assumptions C01_decode_authentic.
Print Assumptions C01_auth_reported_version.
Print Assumptions C01_decode_typed_authentic.
Print Assumptions C01_decode_generic_authentic.
Print Assumptions C01_other_layout_rejected.
Print Assumptions C01_content_from_payload.

(* non-vacuity: an accepting run exists (facts of a well-formed v2 account token) *)
Example C01_ex_accepts :
  dcase_ok {| dc_tok := "h.p.s"; dc_hdr := Some (Some ("JWT", "ed25519-nkey"));
              dc_pay := Some (Some {| id_top_type := ""; id_nats_type := "account"; id_nats_version := 2 |});
              dc_unm := true; dc_gunm := true; dc_iss := "A"; dc_sig := true; dc_ver1 := false; dc_ver2 := true;
              dc_role := RAccount; dc_obs_decode := Some KAccount; dc_obs_iss_ok := true;
              dc_obs_typed := [(KAccount, true); (KUser, false)]; dc_obs_generic := true |} = true.
Proof. reflexivity. Qed.
