(* C06 — the tie to the source: Exports.Validate and its overlap scan isContainedIn (v2/exports.go) as translated on this
   run (Gen/SrcValidate.v).  The scan visits every ordered pair of different positions of the list of subjects of one
   kind and enters each subject that contains the subject of another position, once, into a Go map keyed by it; every
   key then yields one blocking issue.  The map is read as an association list in insertion order.  Proved: what the
   scan appends is exactly the model's [v_overlaps] (one issue per DISTINCT containing subject), and Exports.Validate
   - every entry through the translated Export.Validate, a null entry an error, then the two scans - appends exactly the
   model's [v_exports], for every list.  Only statements; proofs in Proofs/SrcValidate.v. *)
From JWT Require Import Base.GoSem Gen.SrcValidate Model.Subject Model.Validate Proofs.SrcValidate.
Open Scope string_scope.
Open Scope list_scope.

Theorem C06_source_overlap_scan : forall (kind : Z) (subjects : list string) (vr : list go_issue),
  V2.isContainedIn kind subjects vr = vr ++ map goi (v_overlaps subjects).
Proof. exact src_overlaps. Qed.
Print Assumptions C06_source_overlap_scan.

Theorem C06_source_exports_validate : forall url_of (l : list (option export)) (vr : list go_issue),
  src_exports_validate url_of l vr = vr ++ map goi (v_exports url_of l).
Proof. exact src_exports. Qed.
Print Assumptions C06_source_exports_validate.
