(* C15 — Credential files round-trip the token and the seed.  Only statements;
   proofs in Proofs/Creds.v.  The regular expression is Gen/CredsRe.v, generated
   from the code's expression on every run; the matcher is Base/Regex.v. *)
From JWT Require Import Base.Regex Model.Creds Proofs.Creds.
Open Scope string_scope.

(* the expression read from the code lies in the modelled fragment, and the bundled v1 copy is the same *)
Theorem C15_re_in_fragment : re_ok creds_re = true /\ creds_re_v1 = creds_re.
Proof. exact re_in_fragment. Qed.

(* LF -> CRLF rendering of a text *)
Fixpoint crlf (s : string) : string :=
  match s with
  | EmptyString => EmptyString
  | String c r => if Ascii.eqb c "010"%char then String "013" (String "010" (crlf r)) else String c (crlf r)
  end.
Definition render (use_crlf : bool) (s : string) : string := if use_crlf then crlf s else s.
Definition ws_cls : cls := [(9, 10); (12, 13); (32, 32)].

(* for EVERY non-empty token and user seed over [A-Za-z0-9_\-.=], LF or CRLF line endings,
   any white space in front: the formatted credentials parse back to exactly the token, and
   the second dashed block is exactly the (trimmed) seed *)
Theorem C15_user_config_roundtrip : forall (tok seed ws creds : string) (use_crlf : bool),
  tok <> "" -> all_in tok_cls tok = true ->
  all_in tok_cls (trim_space seed) = true ->
  all_in ws_cls ws = true ->
  format_user_config (Some "user") tok seed = Some creds ->
  parse_decorated_jwt (ws ++ render use_crlf creds) = tok /\
  parse_decorated_seed (ws ++ render use_crlf creds) = Some (trim_space seed) /\
  parse_decorated_user_seed (ws ++ render use_crlf creds) = Some (trim_space seed).
Proof. exact user_config_roundtrip. Qed.
Print Assumptions C15_user_config_roundtrip.

(* decorating any token (any kind whose name has no line feed) and parsing it back returns it unchanged *)
Theorem C15_decorate_roundtrip : forall (kind tok : string) (use_crlf : bool),
  tok <> "" -> all_in tok_cls tok = true -> contains_char "010"%char kind = false ->
  parse_decorated_jwt (render use_crlf (format_jwt kind tok)) = tok.
Proof. exact decorate_roundtrip. Qed.
Print Assumptions C15_decorate_roundtrip.

(* a bare token (no line feed in it) parses to itself *)
Theorem C15_bare_token : forall tok : string,
  contains_char "010"%char tok = false -> parse_decorated_jwt tok = tok.
Proof. exact bare_token. Qed.
Print Assumptions C15_bare_token.

(* refusals *)
Theorem C15_format_refusals : forall kind tok seed,
  (kind <> Some "user" -> format_user_config kind tok seed = None) /\
  (has_prefix "SU" (trim_space seed) = false -> format_user_config kind tok seed = None).
Proof. exact format_refusals. Qed.
Theorem C15_user_parser_refuses : forall (seed d : string),
  all_in tok_cls (trim_space seed) = true ->
  (has_prefix "SO" (trim_space seed) = true \/ has_prefix "SA" (trim_space seed) = true) ->
  decorate_seed seed = Some d ->
  parse_decorated_seed d = Some (trim_space seed) /\ parse_decorated_user_seed d = None.
Proof. exact user_parser_refuses. Qed.
Print Assumptions C15_format_refusals.
Print Assumptions C15_user_parser_refuses.

Example C15_ex : parse_decorated_jwt (format_jwt "user" "eyJ0.eyJq-_.c2ln") = "eyJ0.eyJq-_.c2ln"
              /\ option_map parse_decorated_seed (format_user_config (Some "user") "a.b.c" " SUAAA ") = Some (Some "SUAAA").
Proof. split; vm_compute; reflexivity. Qed.
Print Assumptions C15_re_in_fragment.
