(* C03 / C05 / C12 together — Encode followed by Decode, end to end inside the
   model.  Only statements; proofs in Proofs/Pipeline.v.  Concrete here: the
   base64url codec (Base/B64.v), the token text (Model/Encode.v), the decoder
   (Model/Decode.v), the JSON-level loaders (Base/Codec.v, schemas generated from
   the code).  Abstract: the JSON text layer (any printer/parser pair with
   parse (print j) = j), the hash, Ed25519 and the key-role test. *)
From JWT Require Import Base.Codec Base.B64 Model.Claims Model.Decode Model.Encode Model.Pipeline
                        Proofs.Claims Proofs.Pipeline.
Open Scope string_scope.
Open Scope Z_scope.

(* what Encode writes: three unpadded base64url segments, the version-2 header *)
Theorem C05_encode_envelope : forall (jprint : json -> string) (sign : string -> string) (payload : json),
  let h := b64enc (jprint header_json) in
  let p := b64enc (jprint payload) in
  split dot (token_of jprint sign payload) = [h; p; b64enc (sign (h ++ "." ++ p))] /\
  Forall (fun seg => forallb_string is_b64url_char seg = true) (split dot (token_of jprint sign payload)) /\
  b64dec h = Some (jprint header_json) /\ b64dec p = Some (jprint payload) /\
  header_json = JObj [("typ", JStr "JWT"); ("alg", JStr "ed25519-nkey")].
Proof. exact encode_envelope. Qed.
Print Assumptions C05_encode_envelope.

(* [now] is the Unix second Encode reads from the clock (an int64 that is not negative).
   for every typed kind: if Encode succeeds on claims v, the general decoder accepts the token,
   verifies it over header.payload, returns claims of the same kind and the same issuer, and
   the claims it loads are (canonically) the stamped claims *)
Theorem C03_encode_decode : forall (jparse : string -> option json) (jprint : json -> string)
    (H : string -> string) (sign : string -> string) (verify : string -> string -> string -> bool)
    (role_of : string -> role) (k : ckind) (issuer : string) (now : Z) (v v' : val) (tok : string),
  (forall j, jparse (jprint j) = Some j) ->
  (forall text, verify issuer text (sign text) = true) ->
  k <> KGeneric -> 0 <= now <= 9223372036854775807 ->
  has_type (schema_of k) v = true ->
  encode H jprint sign k true issuer now v = Some (v', tok) ->
  scopes_ok (schema_of k) v' = true -> k1_guard k v' = true ->
  decode_role_ok (expected_prefixes k) (role_of issuer) = true ->
  exists a d,
    p_decode jparse verify role_of tok = Some a /\
    a_kind a = k /\ a_iss a = issuer /\ a_layout a = LV2 /\ a_version a = 2 /\
    decode_typed b64dec (p_parse_header jparse) (p_parse_ident jparse) (p_unmarshal_ok jparse)
                 (p_issuer_of jparse) verify role_of k tok = Some a /\
    (exists c1, nth_error (split dot tok) 1 = Some c1 /\
                exists data, b64dec c1 = Some data /\ p_loaded jparse data k 2 = Some d) /\
    canon d = canon v'.
Proof.
  intros jparse jprint H sign verify role_of k issuer now v v' tok Hjp Hver.
  exact (encode_decode jparse jprint Hjp H sign verify role_of k issuer now v v' tok Hver).
Qed.
Print Assumptions C03_encode_decode.

(* generic claims are outside [C03_encode_decode], and the full statement is FALSE for them (recorded finding K4):
   a well-typed generic value whose free-form data has a member "tags" that is not a list - Encode writes it, the
   generic loader would read it back unchanged, but the general decoder's kind/version probe (the identifier read of
   the same payload) fails, so Decode refuses the token *)
Theorem C03_k4_refuted : exists (v : val) (j : json),
  has_type sch_generic v = true /\ enc sch_generic v = Some j /\
  (exists d, load_v2 KGeneric j = Some d /\ canon d = canon v) /\
  forall (jparse : string -> option json) (s : string), jparse s = Some j -> p_parse_ident jparse s = None.
Proof. exact k4_refuted. Qed.
Print Assumptions C03_k4_refuted.

(* ... and when the probe DOES read the payload and what it reads names no kind with a loader of its own, no
   retired kind and no newer version, generic claims go through Decode like the typed kinds: accepted as generic
   claims, verified over header.payload (the header Encode writes carries the new algorithm name) under the stamped
   issuer, loaded canon-equal.  The three probe conditions are hypotheses here - they are exactly what K4 is about. *)
Theorem C03_generic_encode_decode : forall (jparse : string -> option json) (jprint : json -> string)
    (H : string -> string) (sign : string -> string) (verify : string -> string -> string -> bool)
    (role_of : string -> role) (issuer : string) (now : Z) (v v' : val) (tok : string) (j : json) (i : ident),
  (forall x, jparse (jprint x) = Some x) ->
  (forall text, verify issuer text (sign text) = true) ->
  has_type sch_generic v' = true ->
  encode H jprint sign KGeneric true issuer now v = Some (v', tok) ->
  enc sch_generic v' = Some j ->
  getp sch_generic ["iss"] v' = Some (VStr issuer) -> issuer <> "" ->
  p_parse_ident jparse (jprint j) = Some i ->
  (lib_version <? id_version i) = false ->
  (forall k, k <> KGeneric -> id_kind i <> kind_name k) -> id_kind i <> "cluster" -> id_kind i <> "server" ->
  exists a d,
    p_decode jparse verify role_of tok = Some a /\
    a_kind a = KGeneric /\ a_iss a = issuer /\ a_layout a = LV2 /\
    p_loaded jparse (jprint j) KGeneric 2 = Some d /\ canon d = canon v'.
Proof.
  intros jparse jprint H sign verify role_of issuer now v v' tok j i Hjp.
  exact (generic_encode_decode jparse jprint Hjp H sign verify role_of issuer now v v' tok j i).
Qed.
Print Assumptions C03_generic_encode_decode.
