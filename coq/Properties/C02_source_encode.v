(* C02, Encode side — the tie to the source: ClaimsData.doEncode (v2/claims.go) as translated on this run
   (Gen/SrcEncode.v) succeeds only if the kind has no list of issuer roles or the signing key's public key passes the
   test of one of the listed roles (account 0, operator 112, server 104, cluster 16, user 160: the nkeys prefix bytes
   as read from the source).  Only statements; proofs in Proofs/SrcEncode.v. *)
From JWT Require Import Base.GoSem Base.Codec Model.Kinds Model.Claims Model.Decode Model.Encode Gen.SrcEncode Proofs.SrcEncode.
Open Scope string_scope.
Open Scope list_scope.

Theorem C02_source_encode_role : forall subject hash prefixes b64 isA isC isO isS isU now same ser_claim ser_header alg hnil pubkey sign knil,
  snd (snd (run subject hash prefixes b64 isA isC isO isS isU now same ser_claim ser_header alg hnil pubkey sign knil)) = None ->
  exists pub, pubkey [] = (pub, None) /\
    (go_lnil (prefixes []) = true \/ existsb (erole isA isC isO isS isU pub) (prefixes []) = true).
Proof. exact src_do_encode_role. Qed.
Print Assumptions C02_source_encode_role.

(* every kind's Encode as translated on this run, with the model's oracles: when the model's gate [encode_gate] refuses
   (a subject that is empty or not a key of the kind's role, an operator's bad account server URL, a signing key whose
   role is not on the kind's list), it returns an error and no token *)
Theorem C02_source_kinds_refuse : forall H jprint msign role_of v issuer now subject,
  (forall extra_ok, encode_gate KOperator subject (role_of subject) (role_of issuer) extra_ok = false ->
     snd (snd (src_operator_encode H jprint msign role_of v issuer now subject extra_ok)) <> None /\
     fst (snd (src_operator_encode H jprint msign role_of v issuer now subject extra_ok)) = "") /\
  (encode_gate KAccount subject (role_of subject) (role_of issuer) true = false ->
     snd (snd (src_account_encode H jprint msign role_of v issuer now subject)) <> None /\
     fst (snd (src_account_encode H jprint msign role_of v issuer now subject)) = "") /\
  (encode_gate KUser subject (role_of subject) (role_of issuer) true = false ->
     snd (snd (src_user_encode H jprint msign role_of v issuer now subject)) <> None /\
     fst (snd (src_user_encode H jprint msign role_of v issuer now subject)) = "") /\
  (encode_gate KActivation subject (role_of subject) (role_of issuer) true = false ->
     snd (snd (src_activation_encode H jprint msign role_of v issuer now subject)) <> None /\
     fst (snd (src_activation_encode H jprint msign role_of v issuer now subject)) = "") /\
  (encode_gate KAuthRequest subject (role_of subject) (role_of issuer) true = false ->
     snd (snd (src_auth_request_encode H jprint msign role_of v issuer now subject)) <> None /\
     fst (snd (src_auth_request_encode H jprint msign role_of v issuer now subject)) = "") /\
  (encode_gate KAuthResponse subject (role_of subject) (role_of issuer) true = false ->
     snd (snd (src_auth_response_encode H jprint msign role_of v issuer now subject)) <> None /\
     fst (snd (src_auth_response_encode H jprint msign role_of v issuer now subject)) = "") /\
  (encode_gate KGeneric subject (role_of subject) (role_of issuer) true = false ->
     snd (snd (src_generic_encode H jprint msign role_of v issuer now subject)) <> None /\
     fst (snd (src_generic_encode H jprint msign role_of v issuer now subject)) = "").
Proof. exact src_kinds_refuse. Qed.
Print Assumptions C02_source_kinds_refuse.
