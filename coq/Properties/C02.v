(* C02 — Only permitted key roles can issue each claim kind; typed decoders are
   kind-safe.  Only statements; proofs in Proofs/Decode.v. *)
From JWT Require Import Model.Decode Proofs.Decode.
Open Scope string_scope.

(* the matrix of the property statement, written out *)
Definition allowed (k : ckind) (r : role) : bool :=
  match k, r with
  | KOperator, ROperator => true
  | KAccount, RAccount | KAccount, ROperator => true
  | KActivation, RAccount | KActivation, ROperator => true
  | KUser, RAccount => true
  | KAuthResponse, RAccount => true
  | KAuthRequest, RServer => true
  | KGeneric, _ => true
  | _, _ => false
  end.

(* the tables read from the code (Gen/Tables.v, regenerated every run) are that matrix *)
Theorem C02_tables_match : forall k r,
  (match expected_prefixes k with None => true | Some ps => existsb (role_eqb r) ps end) = allowed k r.
Proof. exact tables_match. Qed.
Print Assumptions C02_tables_match.

(* kind names the decoder dispatches on, as read from the code *)
Theorem C02_kind_names :
  map kind_name all_kinds =
  ["operator"; "account"; "user"; "activation"; "authorization_request"; "authorization_response"; "generic"].
Proof. exact kind_names. Qed.

Section C02.
  Variable b64dec : string -> option string.
  Variable parse_header : string -> option (string * string).
  Variable parse_ident : string -> option ident.
  Variable unmarshal_ok : string -> ckind -> Z -> bool.
  Variable issuer_of : string -> string.
  Variable verify : string -> string -> string -> bool.
  Variable role_of : string -> role.
  Notation decode := (decode b64dec parse_header parse_ident unmarshal_ok issuer_of verify role_of).
  Notation decode_typed := (decode_typed b64dec parse_header parse_ident unmarshal_ok issuer_of verify role_of).

  (* accepted => the reported issuer has a role allowed for the kind returned *)
  Theorem C02_decode_role : forall tok a,
    decode tok = Some a -> allowed (a_kind a) (role_of (a_iss a)) = true.
  Proof. exact (decode_role b64dec parse_header parse_ident unmarshal_ok issuer_of verify role_of). Qed.

  (* a typed decoder returns only claims of its own kind, and only what Decode accepts *)
  Theorem C02_typed_kind_safe : forall k tok a,
    decode_typed k tok = Some a -> a_kind a = k /\ decode tok = Some a.
  Proof. exact (typed_kind_safe b64dec parse_header parse_ident unmarshal_ok issuer_of verify role_of). Qed.

  (* the kind returned is the kind the payload declares (generic = any other name) *)
  Theorem C02_kind_is_declared : forall tok a,
    decode tok = Some a ->
    (a_kind a <> KGeneric -> a_declared a = kind_name (a_kind a)) /\
    (a_kind a = KGeneric -> forall k, k <> KGeneric -> a_declared a <> kind_name k).
  Proof. exact (kind_is_declared b64dec parse_header parse_ident unmarshal_ok issuer_of verify role_of). Qed.
End C02.
Print Assumptions C02_decode_role.
Print Assumptions C02_typed_kind_safe.
Print Assumptions C02_kind_is_declared.

(* Encode succeeds only for a signer of an allowed role and a subject of the fitting role *)
Theorem C02_encode_roles : forall k subject sr kr extra,
  encode_gate k subject sr kr extra = true ->
  allowed k kr = true /\ subject_ok k sr = true /\ subject <> "" /\
  (match k with KGeneric => True | _ => kr <> RNone end).
Proof. exact encode_roles. Qed.
Print Assumptions C02_encode_roles.

Theorem C02_encode_refuses : forall k subject sr kr extra,
  allowed k kr = false \/ subject_ok k sr = false \/ subject = "" ->
  encode_gate k subject sr kr extra = false.
Proof. exact encode_refuses. Qed.
Print Assumptions C02_encode_refuses.

(* subject roles as the statement lists them *)
Theorem C02_subject_roles : forall k r,
  subject_ok k r = true <->
  match k with
  | KOperator => r = ROperator
  | KAccount | KActivation => r = RAccount
  | KUser => r = RUser
  | _ => True
  end.
Proof. exact subject_roles. Qed.
Print Assumptions C02_subject_roles.
Print Assumptions C02_kind_names.
