(* C01 — the tie to the source: the version that selects the signed text is read from the payload exactly as
   identifier.Version (v2/decoder.go, translated on this run into Gen/SrcHeader.v) reads it.  Only statements. *)
From JWT Require Import Base.GoSem Gen.SrcHeader Gen.SrcDecode Model.Decode Proofs.SrcHeader Proofs.SrcDecode.
Open Scope string_scope.

Theorem C01_source_identifier_version : forall i : ident,
  V2.identifier_Version (id_nats_version i) (id_top_type i) = id_version i.
Proof. exact src_id_version. Qed.
Print Assumptions C01_source_identifier_version.

(* jwt.Decode itself, with loadClaims and parseHeaders, as translated on this run (Gen/SrcDecode.v): for every choice of
   base64 / JSON / loader / Ed25519 / key-role functions it accepts exactly the tokens the model's [decode] accepts, and
   returns claims of the kind, and carrying the issuer, that the model reports - so everything C01 proves of [decode]
   (the third segment verifies under the reported issuer over the text of the declared layout) is said of the code.
   [src_decode] is the translated function with the translation's unknown functions instantiated by the model's
   oracles (Proofs/SrcDecode.v: what json.Unmarshal, the kind loaders, verify, ExpectedPrefixes, Claims().Issuer and
   nkeys answer). *)
Theorem C01_source_decode : forall b64dec parse_header parse_ident unmarshal_ok issuer_of verify role_of (tok : string),
  match decode b64dec parse_header parse_ident unmarshal_ok issuer_of verify role_of tok with
  | Some a => exists d, src_decode b64dec parse_header parse_ident unmarshal_ok issuer_of verify role_of tok = (GClaims (a_kind a) d, None)
                        /\ issuer_of d = a_iss a
  | None => snd (src_decode b64dec parse_header parse_ident unmarshal_ok issuer_of verify role_of tok) <> None
  end.
Proof. exact src_decode_spec. Qed.
Print Assumptions C01_source_decode.

(* ClaimsData.verify: true exactly when the issuer text is a public key, that key has 32 bytes (the P10 repair), and it
   verifies the signature over exactly the text handed in *)
Theorem C01_source_verify : forall (V : Type) (vnil : V) (iss : string)
  (decode_key : Z -> string -> string * option string) (from_public : string -> V * option string) (prefix : string -> Z)
  (kp_verify : V -> string -> string -> option string) (payload sig : string),
  SrcDecode.V2.ClaimsData_verify V vnil iss decode_key from_public prefix kp_verify payload sig = true <->
  snd (from_public iss) = None /\ snd (decode_key (prefix iss) iss) = None /\
  go_slen (fst (decode_key (prefix iss) iss)) = 32%Z /\ kp_verify (fst (from_public iss)) payload sig = None.
Proof. exact src_verify_spec. Qed.
Print Assumptions C01_source_verify.

(* the unknown functions the decoder and the signature check consult, by name: the package's own decodeString and
   per-kind loaders, json.Unmarshal of header / identifier / generic claims, the nkeys role predicates; for verify the
   three nkeys functions.  A function put in their place keeps the shape of the translation and changes these lists. *)
Theorem C01_source_decode_consults :
  V2.Decode_consults = ["go_decodeString"; "go_json_Unmarshal_GenericClaims"; "go_json_Unmarshal_Header"; "go_json_Unmarshal_identifier";
    "go_loadAccount"; "go_loadActivation"; "go_loadAuthorizationRequest"; "go_loadAuthorizationResponse"; "go_loadOperator"; "go_loadUser";
    "go_nkeys_IsValidPublicAccountKey"; "go_nkeys_IsValidPublicOperatorKey"; "go_nkeys_IsValidPublicServerKey"; "go_nkeys_IsValidPublicUserKey"]%list /\
  V2.ClaimsData_verify_consults = ["go_nkeys_Decode"; "go_nkeys_FromPublicKey"; "go_nkeys_Prefix"]%list /\
  V2.parseHeaders_consults = ["go_decodeString"; "go_json_Unmarshal_Header"]%list.
Proof. repeat split; reflexivity. Qed.
Print Assumptions C01_source_decode_consults.

(* jwt.DecodeGeneric itself (v2/genericlaims.go): accepts exactly the tokens the model's [decode_generic] accepts - three
   segments, a valid header, a payload that unmarshals, a signature that the payload's issuer made over the text of the
   layout the HEADER'S ALGORITHM names (the translated ClaimsData.verify, the nkeys functions instantiated so that it
   answers the model's [verify]) - and hands back the payload as unmarshalled, with, in the version-1 layout only, a data
   map made if there was none and the top-level kind and tags re-homed into it when there are any (the stores into the
   function's own struct are recorded in the value: [generic_result]). *)
Theorem C01_source_decode_generic : forall b64dec parse_header issuer_of gunm_ok verify g_data_nil g_type g_tags (tok : string),
  match decode_generic b64dec parse_header issuer_of gunm_ok verify tok with
  | Some a => exists d, src_decode_generic b64dec parse_header issuer_of gunm_ok verify g_data_nil g_type g_tags tok
                          = (generic_result g_data_nil g_type g_tags (a_layout a) d, None)
                        /\ issuer_of d = a_iss a /\ a_kind a = KGeneric
  | None => snd (src_decode_generic b64dec parse_header issuer_of gunm_ok verify g_data_nil g_type g_tags tok) <> None
  end.
Proof. exact src_decode_generic_spec. Qed.
Print Assumptions C01_source_decode_generic.
Theorem C01_source_decode_generic_consults :
  V2.DecodeGeneric_consults = ["go_decodeString"; "go_json_Unmarshal_Header"; "go_json_Unmarshal_structGenericClaims_GenericFields";
    "go_nkeys_Decode"; "go_nkeys_FromPublicKey"; "go_nkeys_Prefix"]%list.
Proof. reflexivity. Qed.
Print Assumptions C01_source_decode_generic_consults.

(* the authorization loaders (v2/decoder_authorization.go): claims are accepted only when their OWN version equals the
   version loadClaims dispatched on - the version that also selects the text the signature is checked over (the F7
   repair) - and they are handed back exactly as unmarshalled (no version stamped, nothing normalised): so accepted
   authorization claims report the version whose layout was verified *)
Theorem C01_source_auth_response_version : forall (V : Type) (vnil : V) unm (ty : V -> string) (ver : V -> Z) (data : string) (version : Z) (v : V),
  V2.loadAuthorizationResponse V vnil unm ty ver data version = (v, None) -> v = fst (unm data) /\ ver v = version.
Proof. intros V vnil. exact (src_load_auth_response_version vnil). Qed.
Print Assumptions C01_source_auth_response_version.
Theorem C01_source_auth_request_version : forall (V : Type) (vnil : V) unm (ty : V -> string) (ver : V -> Z) (data : string) (version : Z) (v : V),
  V2.loadAuthorizationRequest V vnil unm ty ver data version = (v, None) -> v = fst (unm data) /\ ver v = version.
Proof. intros V vnil. exact (src_load_auth_request_version vnil). Qed.
Print Assumptions C01_source_auth_request_version.
