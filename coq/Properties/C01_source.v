(* C01 — the tie to the source: the version that selects the signed text is read from the payload exactly as
   identifier.Version (v2/decoder.go, translated on this run into Gen/SrcHeader.v) reads it.  Only statements. *)
From JWT Require Import Base.GoSem Gen.SrcHeader Model.Decode Proofs.SrcHeader.
Open Scope string_scope.

Theorem C01_source_identifier_version : forall i : ident,
  V2.identifier_Version (id_nats_version i) (id_top_type i) = id_version i.
Proof. exact src_id_version. Qed.
Print Assumptions C01_source_identifier_version.
