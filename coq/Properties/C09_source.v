(* C09 — the tie to the source: the RevocationList methods as translated on this run from v2/revocation_list.go
   and from the bundled version-1 library (Gen/SrcRevocation.v) are the model's functions.  A Go map is an
   association list whose order stands for the iteration order; MaybeCompact needs distinct keys (wf). *)
From JWT Require Import Base.GoSem Gen.SrcRevocation Model.Revocation Proofs.SrcRevocation.
Open Scope string_scope.

Theorem C09_source_revoke : forall r k t, V2.RevocationList_Revoke r k t = revoke k t r.
Proof. exact src_revoke. Qed.
Print Assumptions C09_source_revoke.
Theorem C09_source_clear : forall r k, V2.RevocationList_ClearRevocation r k = clear k r.
Proof. exact src_clear. Qed.
Print Assumptions C09_source_clear.
Theorem C09_source_is_revoked : forall r k t, V2.RevocationList_IsRevoked r k t = is_revoked r k t.
Proof. exact src_is_revoked. Qed.
Print Assumptions C09_source_is_revoked.
Theorem C09_source_compact : forall r, wf r -> V2.RevocationList_MaybeCompact r = (fst (compact r), snd (compact r)).
Proof. exact src_compact. Qed.
Print Assumptions C09_source_compact.
Theorem C09_source_v1_revoke : forall r k t, V1.RevocationList_Revoke r k t = revoke k t r.
Proof. exact src_v1_revoke. Qed.
Print Assumptions C09_source_v1_revoke.
Theorem C09_source_v1_is_revoked : forall r k t, V1.RevocationList_IsRevoked r k t = is_revoked r k t.
Proof. exact src_v1_is_revoked. Qed.
Print Assumptions C09_source_v1_is_revoked.

(* the wrappers that take a claim: the claim is an abstract value of which the code observes whether it is nil, its
   issue time and its subject - nothing else (claim = None for nil, Some (subject, issued-at) otherwise) *)
Theorem C09_source_account_is_claim_revoked : forall (h : holder) (c : option (string * Z)),
  V2.AccountClaims_IsClaimRevoked (h_map h) (claim_iat c) (claim_sub c) (claim_nil c) = is_claim_revoked h c.
Proof. exact src_acct_is_claim_revoked. Qed.
Print Assumptions C09_source_account_is_claim_revoked.
Theorem C09_source_export_is_claim_revoked : forall (h : holder) (c : option (string * Z)),
  V2.Export_IsClaimRevoked (claim_iat c) (claim_sub c) (claim_nil c) (h_map h) = is_claim_revoked h c.
Proof. exact src_export_is_claim_revoked. Qed.
Print Assumptions C09_source_export_is_claim_revoked.

(* the wrappers that store (AccountClaims / Export RevokeAt, Revoke, ClearRevocation): the revocation map is a data field
   of the abstract receiver, carried as a variable that starts as the field's value on entry and is handed back.  RevokeAt
   makes the map if it is nil and is the list's Revoke at exactly the time handed in (no default, no rounding, no other
   entry touched); Revoke is RevokeAt at what time.Now() reads; ClearRevocation is the list's own. *)
Theorem C09_source_account_revoke_at : forall (h : holder) (k : string) (t : Z),
  Some (V2.AccountClaims_RevokeAt (h_map h) (h_isnil h) k t) = h_revoke_at k t h.
Proof. exact src_acct_revoke_at. Qed.
Print Assumptions C09_source_account_revoke_at.
Theorem C09_source_export_revoke_at : forall (h : holder) (k : string) (t : Z),
  Some (V2.Export_RevokeAt (h_map h) (h_isnil h) k t) = h_revoke_at k t h.
Proof. exact src_export_revoke_at. Qed.
Print Assumptions C09_source_export_revoke_at.
Theorem C09_source_account_revoke : forall (h : holder) (now : Z) (k : string),
  Some (V2.AccountClaims_Revoke (h_map h) (h_isnil h) now k) = h_revoke_at k now h.
Proof. exact src_acct_revoke. Qed.
Print Assumptions C09_source_account_revoke.
Theorem C09_source_export_revoke : forall (h : holder) (now : Z) (k : string),
  Some (V2.Export_Revoke (h_map h) (h_isnil h) now k) = h_revoke_at k now h.
Proof. exact src_export_revoke. Qed.
Print Assumptions C09_source_export_revoke.
Theorem C09_source_account_clear : forall (h : holder) (k : string), V2.AccountClaims_ClearRevocation (h_map h) k = clear k (h_map h).
Proof. exact src_acct_clear. Qed.
Print Assumptions C09_source_account_clear.
Theorem C09_source_export_clear : forall (h : holder) (k : string), V2.Export_ClearRevocation (h_map h) k = clear k (h_map h).
Proof. exact src_export_clear. Qed.
Print Assumptions C09_source_export_clear.
Theorem C09_source_revoke_consults :
  V2.AccountClaims_Revoke_consults = ["go_time_Now"]%list /\ V2.Export_Revoke_consults = ["go_time_Now"]%list /\
  V2.AccountClaims_RevokeAt_consults = []%list /\ V2.Export_RevokeAt_consults = []%list.
Proof. repeat split; reflexivity. Qed.
Print Assumptions C09_source_revoke_consults.
