(* C09 — the tie to the source: the RevocationList methods as translated on this run from v2/revocation_list.go
   and from the bundled version-1 library (Gen/SrcRevocation.v) are the model's functions.  A Go map is an
   association list whose order stands for the iteration order; MaybeCompact needs distinct keys (wf). *)
From JWT Require Import Base.GoSem Gen.SrcRevocation Model.Revocation Proofs.SrcRevocation.
Open Scope string_scope.

Theorem C09_source_revoke : forall r k t, V2.RevocationList_Revoke r k t = revoke k t r.
Proof. exact src_revoke. Qed.
Print Assumptions C09_source_revoke.
Theorem C09_source_clear : forall r k, V2.RevocationList_ClearRevocation r k = clear k r.
Proof. exact src_clear. Qed.
Print Assumptions C09_source_clear.
Theorem C09_source_is_revoked : forall r k t, V2.RevocationList_IsRevoked r k t = is_revoked r k t.
Proof. exact src_is_revoked. Qed.
Print Assumptions C09_source_is_revoked.
Theorem C09_source_compact : forall r, wf r -> V2.RevocationList_MaybeCompact r = (fst (compact r), snd (compact r)).
Proof. exact src_compact. Qed.
Print Assumptions C09_source_compact.
Theorem C09_source_v1_revoke : forall r k t, V1.RevocationList_Revoke r k t = revoke k t r.
Proof. exact src_v1_revoke. Qed.
Print Assumptions C09_source_v1_revoke.
Theorem C09_source_v1_is_revoked : forall r k t, V1.RevocationList_IsRevoked r k t = is_revoked r k t.
Proof. exact src_v1_is_revoked. Qed.
Print Assumptions C09_source_v1_is_revoked.

(* the wrappers that take a claim: the claim is an abstract value of which the code observes whether it is nil, its
   issue time and its subject - nothing else (claim = None for nil, Some (subject, issued-at) otherwise) *)
Theorem C09_source_account_is_claim_revoked : forall (h : holder) (c : option (string * Z)),
  V2.AccountClaims_IsClaimRevoked (h_map h) (claim_iat c) (claim_sub c) (claim_nil c) = is_claim_revoked h c.
Proof. exact src_acct_is_claim_revoked. Qed.
Print Assumptions C09_source_account_is_claim_revoked.
Theorem C09_source_export_is_claim_revoked : forall (h : holder) (c : option (string * Z)),
  V2.Export_IsClaimRevoked (claim_iat c) (claim_sub c) (claim_nil c) (h_map h) = is_claim_revoked h c.
Proof. exact src_export_is_claim_revoked. Qed.
Print Assumptions C09_source_export_is_claim_revoked.
