(* Proofs/V1.v — proofs for C19 (the bundled version-1 library's decoder):
   finite role tables, the header test, and an inversion lemma for v1_decode. *)
From JWT Require Import Model.V1.
Open Scope string_scope.

(* THE EXPECTED ROLE MATRIX (same text as in Properties/C19.v; the statements
   there use their own copy, equal to this one by conversion) *)
Definition v1_allowed (k : v1kind) (r : role) : bool :=
  match k, r with
  | V1Operator, ROperator => true
  | V1Account, RAccount | V1Account, ROperator => true
  | V1Activation, RAccount | V1Activation, ROperator => true
  | V1User, RAccount => true
  | V1Cluster, ROperator | V1Cluster, RCluster => true
  | V1Server, ROperator | V1Server, RCluster => true
  | V1Generic, _ => true
  | _, _ => false
  end.

(* ====================================================================== *)
(* 1. finite tables                                                        *)
(* ====================================================================== *)
Lemma v1_tables_match : forall k r,
  (match v1_expected_prefixes k with None => true | Some ps => existsb (role_eqb r) ps end) = v1_allowed k r.
Proof. intros k r. destruct k, r; reflexivity. Qed.

(* the five-role switch of the version-1 decoder loses nothing on the generated tables *)
Lemma v1_role_ok_allowed : forall k r, v1_role_ok (v1_expected_prefixes k) r = v1_allowed k r.
Proof. intros k r. destruct k, r; reflexivity. Qed.

(* ====================================================================== *)
(* 2. the header test                                                      *)
(* ====================================================================== *)
Lemma v1_header_iff : forall typ alg,
  v1_header_valid typ alg = true <-> (to_lower typ = "jwt" /\ to_lower alg = "ed25519").
Proof.
  intros typ alg. unfold v1_header_valid.
  change v1_token_type_jwt with "jwt". change v1_alg with "ed25519".
  rewrite andb_true_iff, !String.eqb_eq.
  split; intros [H1 H2]; split; congruence.
Qed.

Lemma v1_v2_alg_refused : forall typ, v1_header_valid typ "ed25519-nkey" = false.
Proof.
  intros typ. unfold v1_header_valid.
  replace (to_lower "ed25519-nkey" =? v1_alg) with false by (vm_compute; reflexivity).
  apply andb_false_r.
Qed.

(* ====================================================================== *)
(* 3. the decoder                                                          *)
(* ====================================================================== *)
Section V1DecodeProofs.
  Variable b64dec : string -> option string.
  Variable parse_header : string -> option (string * string).
  Variable unmarshal_ok : v1kind -> string -> bool.
  Variable issuer_of : string -> string.
  Variable verify : string -> string -> string -> bool.
  Variable role_of : string -> role.
  Notation v1_decode := (v1_decode b64dec parse_header unmarshal_ok issuer_of verify role_of).

  (* everything an accepted token went through *)
  Lemma v1_decode_inv : forall k tok a,
    v1_decode k tok = Some a ->
    exists c0 c1 c2 hj typ alg data sig,
      split dot tok = [c0; c1; c2] /\
      b64dec c0 = Some hj /\ parse_header hj = Some (typ, alg) /\
      v1_header_valid typ alg = true /\
      b64dec c1 = Some data /\ unmarshal_ok k data = true /\
      b64dec c2 = Some sig /\
      verify (issuer_of data) c1 sig = true /\
      v1_role_ok (v1_expected_prefixes k) (role_of (issuer_of data)) = true /\
      a = {| v1a_iss := issuer_of data; v1a_typ := typ; v1a_alg := alg |}.
  Proof.
    intros k tok a H. unfold V1.v1_decode in H.
    destruct (split dot tok) as [|c0 [|c1 [|c2 [|c3 rest]]]] eqn:Es; try discriminate H.
    destruct (b64dec c0) as [hj|] eqn:E0; [|discriminate H].
    destruct (parse_header hj) as [[typ alg]|] eqn:Eh; [|discriminate H].
    destruct (v1_header_valid typ alg) eqn:Ev; simpl in H; [|discriminate H].
    destruct (b64dec c1) as [data|] eqn:E1; [|discriminate H].
    destruct (unmarshal_ok k data) eqn:Eu; simpl in H; [|discriminate H].
    destruct (b64dec c2) as [sig|] eqn:E2; [|discriminate H].
    destruct (verify (issuer_of data) c1 sig) eqn:Evf; simpl in H; [|discriminate H].
    destruct (v1_role_ok (v1_expected_prefixes k) (role_of (issuer_of data))) eqn:Er; [|discriminate H].
    injection H as <-.
    exists c0, c1, c2, hj, typ, alg, data, sig.
    repeat split; assumption.
  Qed.

  Lemma v1_authentic : forall k tok a,
    v1_decode k tok = Some a ->
    exists c0 c1 c2 sig data,
      split dot tok = [c0; c1; c2] /\ b64dec c1 = Some data /\ b64dec c2 = Some sig /\
      v1a_iss a = issuer_of data /\ verify (v1a_iss a) c1 sig = true /\
      v1_allowed k (role_of (v1a_iss a)) = true /\
      v1_header_valid (v1a_typ a) (v1a_alg a) = true.
  Proof.
    intros k tok a H.
    destruct (v1_decode_inv k tok a H)
      as (c0 & c1 & c2 & hj & typ & alg & data & sig & Es & E0 & Eh & Ev & E1 & Eu & E2 & Evf & Er & ->).
    exists c0, c1, c2, sig, data. simpl.
    rewrite <- v1_role_ok_allowed.
    repeat split; assumption.
  Qed.

  Lemma v1_bad_signature_refused : forall k tok c0 c1 c2 sig data,
    split dot tok = [c0; c1; c2] -> b64dec c1 = Some data -> b64dec c2 = Some sig ->
    verify (issuer_of data) c1 sig = false -> v1_decode k tok = None.
  Proof.
    intros k tok c0 c1 c2 sig data Es E1 E2 Evf.
    destruct (v1_decode k tok) as [a|] eqn:H; [|reflexivity].
    exfalso.
    destruct (v1_decode_inv k tok a H)
      as (c0' & c1' & c2' & hj & typ & alg & data' & sig' & Es' & E0 & Eh & Ev & E1' & Eu & E2' & Evf' & Er & ->).
    rewrite Es in Es'. injection Es' as <- <- <-.
    rewrite E1 in E1'. injection E1' as <-.
    rewrite E2 in E2'. injection E2' as <-.
    congruence.
  Qed.
End V1DecodeProofs.

(* ====================================================================== *)
(* 4. the encode-side gate                                                 *)
(* ====================================================================== *)
Lemma v1_encode_roles : forall k subject sr kr extra,
  v1_encode_gate k subject sr kr extra = true ->
  v1_allowed k kr = true /\ v1_subject_ok k sr = true /\ subject <> "".
Proof.
  intros k subject sr kr extra H. unfold v1_encode_gate in H.
  apply andb_true_iff in H as [H Hr].
  apply andb_true_iff in H as [H Hs].
  apply andb_true_iff in H as [Hsub _].
  rewrite v1_role_ok_allowed in Hr.
  repeat split; try assumption.
  intros ->. discriminate Hs.
Qed.

Print Assumptions v1_tables_match.
Print Assumptions v1_header_iff.
Print Assumptions v1_v2_alg_refused.
Print Assumptions v1_authentic.
Print Assumptions v1_bad_signature_refused.
Print Assumptions v1_encode_roles.
