(* Proofs/SrcCodec.v — the three helpers every token passes through (claims.go of both packages), translated on this
   run (Gen/SrcCodec.v): decodeString, encodeToString, serialize.  They are the standard library's unpadded base64url
   codec and json.Marshal, and nothing else: no size limit, no second alphabet, no padding accepted, no rewriting of the
   marshalled text.  (The library functions themselves are unknown functions here; Base/B64.v models the codec.) *)
From JWT Require Import Base.GoSem Gen.SrcCodec.
Open Scope string_scope.

Lemma src_decode_string (dec : string -> string * option string) (s : string) : V2.decodeString dec s = dec s.
Proof. reflexivity. Qed.
Lemma src_encode_to_string (enc : string -> string) (d : string) : V2.encodeToString enc d = enc d.
Proof. reflexivity. Qed.
Lemma src_serialize (enc : string -> string) (marshalled : string * option string) :
  V2.serialize enc marshalled = match snd marshalled with None => (enc (fst marshalled), None) | Some e => ("", Some e) end.
Proof. destruct marshalled as [j [e|]]; reflexivity. Qed.
Lemma src_v1_codec_same :
  V1.decodeString = V2.decodeString /\ V1.encodeToString = V2.encodeToString /\ V1.serialize = V2.serialize.
Proof. repeat split; reflexivity. Qed.

(* the updateVersion of the six typed kinds: one assignment - the version member of the kind's generic fields becomes
   the library's version - and nothing else (no condition on the version the object had, no other field) *)
From JWT Require Import Gen.Tables.
Lemma src_update_version :
  V2.OperatorClaims_updateVersion = [GoSetZ "oc_Operator_GenericFields_Version" lib_version] /\
  V2.AccountClaims_updateVersion = [GoSetZ "a_Account_GenericFields_Version" lib_version] /\
  V2.UserClaims_updateVersion = [GoSetZ "u_User_GenericFields_Version" lib_version] /\
  V2.ActivationClaims_updateVersion = [GoSetZ "a_Activation_GenericFields_Version" lib_version] /\
  V2.AuthorizationRequestClaims_updateVersion = [GoSetZ "ac_AuthorizationRequest_GenericFields_Version" lib_version] /\
  V2.AuthorizationResponseClaims_updateVersion = [GoSetZ "ar_AuthorizationResponse_GenericFields_Version" lib_version].
Proof. repeat split; reflexivity. Qed.

(* ExpectedPrefixes of the seven kinds: a fresh list of constants on every call (no shared slice, no dependence on any
   field of the claims), and exactly the roles the generated table [expected_prefixes] - which the theorems of C02 are
   about - lists for the kind, as nkeys prefix bytes *)
From JWT Require Import Model.Kinds Proofs.SrcEncode.
Lemma src_expected_prefixes :
  SrcCodec.V2.OperatorClaims_ExpectedPrefixes = m_prefixes KOperator /\
  SrcCodec.V2.AccountClaims_ExpectedPrefixes = m_prefixes KAccount /\
  SrcCodec.V2.UserClaims_ExpectedPrefixes = m_prefixes KUser /\
  SrcCodec.V2.ActivationClaims_ExpectedPrefixes = m_prefixes KActivation /\
  SrcCodec.V2.AuthorizationRequestClaims_ExpectedPrefixes = m_prefixes KAuthRequest /\
  SrcCodec.V2.AuthorizationResponseClaims_ExpectedPrefixes = m_prefixes KAuthResponse /\
  SrcCodec.V2.GenericClaims_ExpectedPrefixes = m_prefixes KGeneric.
Proof. repeat split; reflexivity. Qed.
Print Assumptions src_serialize.

(* ClaimsData.hash of both libraries: the id is the digest of the marshalled claims data and of nothing else - fails
   exactly when json.Marshal of the claims data fails, with that error; otherwise the unpadded base32 text of what a
   freshly made hash object, written that text once, sums to.  The hash object is an opaque value: for every reading of
   sha512.New512_256, Write and Sum.  No buffer, pool or earlier call enters. *)
Section Hash.
  Context {V : Type} (vnil : V) (b32 : string -> string) (hnew : V) (hsum : V -> string -> string) (hwrite : V -> string -> V).
  Definition id_of (text : string) : string := b32 (hsum (hwrite hnew text) "").
  Lemma src_hash (marshalled : string * option string) :
    SrcCodec.V2.ClaimsData_hash V vnil b32 marshalled hnew hsum hwrite
    = match snd marshalled with Some e => (""%string, Some e) | None => (id_of (fst marshalled), None) end.
  Proof. destruct marshalled as [j [e|]]; reflexivity. Qed.
  Lemma src_v1_hash (marshalled : string * option string) :
    SrcCodec.V1.ClaimsData_hash V vnil b32 marshalled hnew hsum hwrite
    = match snd marshalled with Some e => (""%string, Some e) | None => (id_of (fst marshalled), None) end.
  Proof. destruct marshalled as [j [e|]]; reflexivity. Qed.
End Hash.
