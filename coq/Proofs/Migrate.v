(* Proofs/Migrate.v — proofs for C04 (version-1 claims migrate to version 2).
   The shadow and version-2 schemas are concrete generated terms: a well-typed
   shadow value has a known SHAPE (a VStruct with one leaf per field), and on
   that shape getp / setp / migrate compute. *)
From JWT Require Import Base.Codec Model.Claims Model.Migrate.
Open Scope string_scope.
Open Scope Z_scope.

(* THE EXPECTED MAPPING (same text as in Properties/C04.v; the statement there
   uses its own copy, equal to this one by conversion) *)
Definition std : list (list string * list string) :=
  [(["aud"], ["aud"]); (["exp"], ["exp"]); (["jti"], ["jti"]); (["iat"], ["iat"]);
   (["iss"], ["iss"]); (["name"], ["name"]); (["nbf"], ["nbf"]); (["sub"], ["sub"])].
Definition expected_copies (k : ckind) : list (list string * list string) :=
  match k with
  | KOperator =>
      std ++ [(["nats"; "type"], ["type"]); (["nats"; "tags"], ["tags"]);
              (["nats"; "signing_keys"], ["nats"; "signing_keys"]);
              (["nats"; "account_server_url"], ["nats"; "account_server_url"]);
              (["nats"; "operator_service_urls"], ["nats"; "operator_service_urls"]);
              (["nats"; "system_account"], ["nats"; "system_account"])]
  | KAccount =>
      std ++ [(["nats"; "type"], ["type"]); (["nats"; "tags"], ["tags"]);
              (["nats"; "imports"], ["nats"; "imports"]); (["nats"; "exports"], ["nats"; "exports"]);
              (["nats"; "revocations"], ["nats"; "revocations"]);
              (["nats"; "limits"; "subs"], ["nats"; "limits"; "subs"]);
              (["nats"; "limits"; "data"], ["nats"; "limits"; "data"]);
              (["nats"; "limits"; "payload"], ["nats"; "limits"; "payload"]);
              (["nats"; "limits"; "imports"], ["nats"; "limits"; "imports"]);
              (["nats"; "limits"; "exports"], ["nats"; "limits"; "exports"]);
              (["nats"; "limits"; "wildcards"], ["nats"; "limits"; "wildcards"]);
              (["nats"; "limits"; "conn"], ["nats"; "limits"; "conn"]);
              (["nats"; "limits"; "leaf"], ["nats"; "limits"; "leaf"])]
  | KUser =>
      std ++ [(["nats"; "type"], ["type"]); (["nats"; "tags"], ["tags"]);
              (["nats"; "issuer_account"], ["issuer_account"]);
              (["nats"; "pub"], ["nats"; "pub"]); (["nats"; "sub"], ["nats"; "sub"]);
              (["nats"; "resp"], ["nats"; "resp"]); (["nats"; "src"], ["nats"; "src"]);
              (["nats"; "times"], ["nats"; "times"]);
              (["nats"; "subs"], ["nats"; "subs"]); (["nats"; "data"], ["nats"; "data"]);
              (["nats"; "payload"], ["nats"; "payload"]);
              (["nats"; "bearer_token"], ["nats"; "bearer_token"])]
  | KActivation =>
      std ++ [(["nats"; "type"], ["type"]); (["nats"; "tags"], ["tags"]);
              (["nats"; "issuer_account"], ["issuer_account"]);
              (["nats"; "subject"], ["nats"; "subject"]);
              (["nats"; "kind"], ["nats"; "type"])]
  | _ => []
  end.

(* ====================================================================== *)
(* 1. the shape of a well-typed struct value                               *)
(* ====================================================================== *)
Definition ht_list : list (string * bool * ty) -> list val -> bool :=
  fix go (fs : list (string * bool * ty)) (vs : list val) : bool :=
    match fs, vs with
    | [], [] => true
    | (_, _, ft) :: fr, fv :: vr => has_type ft fv && go fr vr
    | _, _ => false
    end.

Lemma has_type_struct_inv fs v :
  has_type (TStruct fs) v = true -> exists vs, v = VStruct vs /\ ht_list fs vs = true.
Proof. destruct v; simpl; try discriminate. intros H. exists l. split; [reflexivity | exact H]. Qed.

Lemma has_type_struct_intro fs vs :
  ht_list fs vs = true -> has_type (TStruct fs) (VStruct vs) = true.
Proof. intros H; exact H. Qed.

Lemma ht_list_cons_inv n o ft fr vs :
  ht_list ((n, o, ft) :: fr) vs = true ->
  exists x vr, vs = x :: vr /\ has_type ft x = true /\ ht_list fr vr = true.
Proof.
  destruct vs as [|x vr]; simpl; try discriminate.
  intros H. apply andb_true_iff in H. destruct H as [H1 H2].
  exists x, vr. repeat split; assumption.
Qed.

Lemma ht_list_nil_inv vs : ht_list [] vs = true -> vs = [].
Proof. destruct vs; simpl; [reflexivity | discriminate]. Qed.

Lemma ht_list_cons_intro n o ft fr x vr :
  has_type ft x = true -> ht_list fr vr = true -> ht_list ((n, o, ft) :: fr) (x :: vr) = true.
Proof. intros H1 H2. simpl. rewrite H1. exact H2. Qed.

Lemma ht_list_nil_intro : ht_list [] [] = true.
Proof. reflexivity. Qed.

Ltac open_list H :=
  lazymatch type of H with
  | ht_list [] ?vs = true => apply ht_list_nil_inv in H; subst vs
  | ht_list (_ :: _) ?vs = true =>
      let x := fresh "x" in let r := fresh "r" in
      let Hx := fresh "Hx" in let E := fresh "E" in
      apply ht_list_cons_inv in H; destruct H as (x & r & E & Hx & H); subst vs; open_list H
  end.

(* H : has_type (TStruct [f1; ...; fn]) v = true with v a variable:
   replace v by VStruct [x1; ...; xn] and H by has_type facts on the leaves *)
Ltac open_struct H :=
  lazymatch type of H with
  | has_type (TStruct _) ?v = true =>
      let vs := fresh "vs" in let E := fresh "E" in
      apply has_type_struct_inv in H; destruct H as (vs & E & H); subst v; open_list H
  end.

(* open every struct-typed variable, recursively *)
Ltac open_all :=
  repeat match goal with
         | H : has_type ?t ?v = true |- _ =>
             is_var v;
             let t' := eval hnf in t in
             lazymatch t' with
             | TStruct _ => change (has_type t' v = true) in H; open_struct H
             end
         end.

(* ====================================================================== *)
(* 2. key sets built from a list                                           *)
(* ====================================================================== *)
Lemma vlookup_vstore_eq {A} k (v : A) m : vlookup k (vstore k v m) = Some v.
Proof.
  induction m as [|[k' v'] r IH]; simpl.
  - rewrite String.eqb_refl. reflexivity.
  - destruct (String.eqb k' k) eqn:E; simpl.
    + rewrite String.eqb_refl. reflexivity.
    + rewrite E. exact IH.
Qed.

Lemma vlookup_vstore_neq {A} k k' (v : A) m : k <> k' -> vlookup k (vstore k' v m) = vlookup k m.
Proof.
  intros Hne. induction m as [|[k0 v0] r IH]; simpl.
  - destruct (String.eqb k' k) eqn:E; [apply String.eqb_eq in E; congruence | reflexivity].
  - destruct (String.eqb k0 k') eqn:E; simpl.
    + apply String.eqb_eq in E. subst k0.
      destruct (String.eqb k' k) eqn:E2; [apply String.eqb_eq in E2; congruence | reflexivity].
    + destruct (String.eqb k0 k); [reflexivity | exact IH].
Qed.

Lemma existsb_vstore {A} k0 k (v : A) m :
  existsb (fun e => String.eqb (fst e) k0) (vstore k v m) =
  String.eqb k k0 || existsb (fun e => String.eqb (fst e) k0) m.
Proof.
  induction m as [|[k' v'] r IH]; simpl.
  - reflexivity.
  - destruct (String.eqb k' k) eqn:E; simpl.
    + apply String.eqb_eq in E. subst k'.
      destruct (String.eqb k k0); reflexivity.
    + rewrite IH. destruct (String.eqb k' k0), (String.eqb k k0); reflexivity.
Qed.

Lemma keys_nodup_vstore {A} k (v : A) m : keys_nodup m = true -> keys_nodup (vstore k v m) = true.
Proof.
  induction m as [|[k' v'] r IH]; simpl; intros H.
  - reflexivity.
  - apply andb_true_iff in H. destruct H as [H1 H2].
    destruct (String.eqb k' k) eqn:E; simpl.
    + apply String.eqb_eq in E. subst k'. rewrite H1, H2. reflexivity.
    + rewrite existsb_vstore. rewrite (IH H2).
      rewrite String.eqb_sym in E. rewrite E. simpl. rewrite H1. reflexivity.
Qed.

Definition plain_entries (m : list (string * val)) : Prop :=
  forall k x, vlookup k m = Some x -> x = VPtr None.

Lemma plain_vstore k m : plain_entries m -> plain_entries (vstore k (VPtr None) m).
Proof.
  intros P k0 x H. destruct (string_dec k0 k) as [->|Hne].
  - rewrite vlookup_vstore_eq in H. congruence.
  - rewrite vlookup_vstore_neq in H by assumption. eapply P; eassumption.
Qed.

Definition key_step (acc : list (string * val)) (x : val) : list (string * val) :=
  match x with VStr k => vstore k (VPtr None) acc | _ => acc end.

Lemma keys_of_list_some l : keys_of_list (VList (Some l)) = VMap (Some (fold_left key_step l [])).
Proof. reflexivity. Qed.

Lemma key_fold_plain l : forall acc, plain_entries acc -> plain_entries (fold_left key_step l acc).
Proof.
  induction l as [|x r IH]; simpl; intros acc P; [exact P|].
  apply IH. destruct x; simpl; try exact P. apply plain_vstore; exact P.
Qed.

Lemma key_fold_nodup l : forall acc, keys_nodup acc = true -> keys_nodup (fold_left key_step l acc) = true.
Proof.
  induction l as [|x r IH]; simpl; intros acc P; [exact P|].
  apply IH. destruct x; simpl; try exact P. apply keys_nodup_vstore; exact P.
Qed.

Lemma key_fold_lookup l : forall acc k, plain_entries acc ->
  (vlookup k (fold_left key_step l acc) = Some (VPtr None) <->
   vlookup k acc = Some (VPtr None) \/ In (VStr k) l).
Proof.
  induction l as [|x r IH]; simpl; intros acc k P.
  - split; [intros H; left; exact H | intros [H|[]]; exact H].
  - assert (P' : plain_entries (key_step acc x)).
    { destruct x; simpl; try exact P. apply plain_vstore; exact P. }
    rewrite (IH _ k P'). split.
    + intros [H|H]; [|right; right; exact H].
      destruct x; simpl in H; try (left; exact H).
      destruct (string_dec k s) as [->|Hne].
      * right; left; reflexivity.
      * rewrite vlookup_vstore_neq in H by assumption. left; exact H.
    + intros [H|[H|H]].
      * left. destruct x; simpl; try exact H.
        destruct (string_dec k s) as [->|Hne].
        -- apply vlookup_vstore_eq.
        -- rewrite vlookup_vstore_neq by assumption. exact H.
      * subst x. left. simpl. apply vlookup_vstore_eq.
      * right; exact H.
Qed.

(* plain entries as the boolean has_type wants them *)
Lemma plain_forallb st ki (m : list (string * val)) :
  keys_nodup m = true -> plain_entries m ->
  forallb (fun kv : string * val =>
             match snd kv with
             | VPtr None => true
             | VPtr (Some (VStruct fields)) =>
                 has_type st (VStruct fields) &&
                 match nth ki fields (VStr "") with VStr k => String.eqb k (fst kv) | _ => false end
             | _ => false
             end) m = true.
Proof.
  induction m as [|[k v] r IH]; simpl; intros Hn P; [reflexivity|].
  apply andb_true_iff in Hn. destruct Hn as [Hn1 Hn2].
  assert (Hv : v = VPtr None).
  { apply (P k). simpl. rewrite String.eqb_refl. reflexivity. }
  subst v. simpl. apply IH; [exact Hn2|].
  intros k0 x H. apply (P k0). simpl.
  destruct (String.eqb k k0) eqn:E; [|exact H].
  (* k = k0 occurs in r: impossible since the keys are distinct *)
  exfalso. apply String.eqb_eq in E. subst k0.
  apply negb_true_iff in Hn1.
  assert (Hex : existsb (fun e : string * val => String.eqb (fst e) k) r = true).
  { clear -H. induction r as [|[k1 v1] r IH]; simpl in *; [discriminate|].
    destruct (String.eqb k1 k); [reflexivity | simpl; apply IH; exact H]. }
  congruence.
Qed.

Lemma keys_of_list_typed st p ki v : has_type (TKeySet st p ki) (keys_of_list v) = true.
Proof.
  destruct v; try reflexivity. destruct l as [l|]; [|reflexivity].
  rewrite keys_of_list_some. simpl.
  assert (Hn : keys_nodup (fold_left key_step l []) = true) by (apply key_fold_nodup; reflexivity).
  assert (Hp : plain_entries (fold_left key_step l [])).
  { apply key_fold_plain. intros k x H. discriminate. }
  rewrite Hn. simpl. apply plain_forallb; assumption.
Qed.

(* ====================================================================== *)
(* 3. the migration on well-typed shadow values                            *)
(* ====================================================================== *)
Ltac kind_cases k st Hs Ht :=
  destruct k; simpl in Hs; try discriminate Hs;
  injection Hs as Hs; subst st; open_all.

Theorem migrate_copies : forall k st s p2 p1,
  shadow_of k = Some st -> has_type st s = true ->
  In (p2, p1) (expected_copies k) ->
  getp (schema_of k) p2 (migrate k s) = getp st p1 s /\ getp st p1 s <> None.
Proof.
  intros k st s p2 p1 Hs Ht Hin.
  kind_cases k st Hs Ht;
    simpl in Hin;
    repeat (destruct Hin as [Hin|Hin];
            [injection Hin as Hp2 Hp1; subst p2 p1;
             split; [vm_compute; reflexivity | vm_compute; discriminate] | ]);
    contradiction.
Qed.

Theorem migrate_version : forall k st s,
  shadow_of k = Some st -> has_type st s = true ->
  getp (schema_of k) ["nats"; "version"] (migrate k s) = Some (VInt 1).
Proof.
  intros k st s Hs Ht.
  kind_cases k st Hs Ht; vm_compute; reflexivity.
Qed.

Theorem migrate_signing_keys : forall s l,
  has_type sch_shadow_account s = true ->
  getp sch_shadow_account ["nats"; "signing_keys"] s = Some (VList l) ->
  exists m, getp sch_account ["nats"; "signing_keys"] (migrate KAccount s) = Some (VMap (Some m)) /\
            forall k, (vlookup k m = Some (VPtr None) <-> exists l', l = Some l' /\ In (VStr k) l') /\
                      (forall x, vlookup k m = Some x -> x = VPtr None).
Proof.
  intros s l Ht Hg. open_all.
  vm_compute in Hg. injection Hg as Hg. subst.
  match goal with
  | |- exists m, ?g = _ /\ _ =>
      let g' := eval cbv -[keys_of_list] in g in
      replace g with g' by (cbv -[keys_of_list]; reflexivity)
  end.
  destruct l as [l'|].
  - rewrite keys_of_list_some. eexists. split; [reflexivity|].
    intros key. split.
    + rewrite key_fold_lookup by (intros key0 val0 H; discriminate). simpl. split.
      * intros [H|H]; [discriminate|]. exists l'. split; [reflexivity | exact H].
      * intros (l0 & E & H). injection E as <-. right; exact H.
    + intros val0 H. revert key val0 H. apply key_fold_plain. intros key0 val0 H; discriminate.
  - simpl. eexists. split; [reflexivity|]. intros key. split.
    + simpl. split; [discriminate|]. intros (l0 & E & _). discriminate.
    + simpl. discriminate.
Qed.

(* closing has_type goals on the computed value *)
Ltac close_typed :=
  first
    [ match goal with H : has_type _ ?x = true |- has_type _ ?x = true => exact H end
    | apply keys_of_list_typed
    | match goal with
      | |- has_type ?t (VStruct ?l) = true =>
          let t' := eval hnf in t in
          lazymatch t' with
          | TStruct _ =>
              change (has_type t' (VStruct l) = true); apply has_type_struct_intro;
              repeat (apply ht_list_cons_intro; [close_typed|]); apply ht_list_nil_intro
          end
      end
    | reflexivity ].

Theorem migrate_typed : forall k st s,
  shadow_of k = Some st -> has_type st s = true -> has_type (schema_of k) (migrate k s) = true.
Proof.
  intros k st s Hs Ht.
  kind_cases k st Hs Ht;
    match goal with
    | |- has_type ?t ?m = true =>
        let m' := eval cbv -[keys_of_list] in m in
        replace m with m' by (cbv -[keys_of_list]; reflexivity)
    end;
    close_typed.
Qed.

Theorem legacy_presets :
  map (fun n => getp sch_shadow_user ["nats"; n] (preset_v1 KUser)) ["subs"; "data"; "payload"; "max"]
    = [Some (VInt (-1)); Some (VInt (-1)); Some (VInt (-1)); Some (VInt (-1))] /\
  map (fun n => getp sch_shadow_activation ["nats"; n] (preset_v1 KActivation)) ["max"; "payload"]
    = [Some (VInt (-1)); Some (VInt (-1))].
Proof. vm_compute; split; reflexivity. Qed.

(* ====================================================================== *)
(* 4. struct decoding member by member                                     *)
(* ====================================================================== *)
Definition sfind (n : nat) (j : json) (vs : list val) : list (string * bool * ty) -> nat -> option (list val) :=
  fix find (fs' : list (string * bool * ty)) (i : nat) : option (list val) :=
    match fs' with
    | [] => Some vs
    | (_, _, ft) :: r =>
        if Nat.eqb i n
        then match dec ft j (nth i vs (zero_val ft)) with
             | None => None
             | Some x => Some (set_nth_val i x vs)
             end
        else find r (S i)
    end.

Definition sstep (fs : list (string * bool * ty)) (acc : option (list val)) (kv : string * json) : option (list val) :=
  match acc with
  | None => None
  | Some vs =>
      sfind (match field_index (fst kv) fs with Some n => n | None => List.length fs end) (snd kv) vs fs 0%nat
  end.

Lemma dec_struct_fold fs m v0s :
  dec (TStruct fs) (JObj m) (VStruct v0s) = option_map VStruct (fold_left (sstep fs) m (Some v0s)).
Proof. reflexivity. Qed.

Lemma sfind_miss n j vs : forall fs' i, (i + List.length fs' <= n)%nat -> sfind n j vs fs' i = Some vs.
Proof.
  induction fs' as [|[[nm o] ft] r IH]; simpl; intros i H; [reflexivity|].
  destruct (Nat.eqb i n) eqn:E.
  - apply Nat.eqb_eq in E. lia.
  - apply IH. lia.
Qed.

Lemma sfind_cases n j vs : forall fs' i,
  sfind n j vs fs' i = None \/ sfind n j vs fs' i = Some vs \/
  exists x, sfind n j vs fs' i = Some (set_nth_val n x vs).
Proof.
  induction fs' as [|[[nm o] ft] r IH]; simpl; intros i.
  - right; left; reflexivity.
  - destruct (Nat.eqb i n) eqn:E.
    + apply Nat.eqb_eq in E. subst i.
      destruct (dec ft j (nth n vs (zero_val ft))) as [x|].
      * right; right. exists x. reflexivity.
      * left; reflexivity.
    + apply IH.
Qed.

Lemma set_nth_val_other n i x : forall l, n <> i -> nth_error (set_nth_val n x l) i = nth_error l i.
Proof.
  revert i. induction n as [|n IH]; intros i l Hne; destruct l as [|y l]; simpl; try reflexivity.
  - destruct i; [congruence | reflexivity].
  - destruct i; [reflexivity | simpl; apply IH; congruence].
Qed.

Lemma fold_sstep_none fs m : fold_left (sstep fs) m None = None.
Proof. induction m; simpl; [reflexivity | exact IHm]. Qed.

Lemma fold_sstep_keeps fs i : forall m acc vs,
  fold_left (sstep fs) m (Some acc) = Some vs ->
  (forall kv, In kv m -> field_index (fst kv) fs <> Some i) ->
  nth_error vs i = nth_error acc i.
Proof.
  induction m as [|kv m IH]; simpl; intros acc vs H Hm.
  - injection H as <-. reflexivity.
  - assert (Hkv : field_index (fst kv) fs <> Some i) by (apply Hm; left; reflexivity).
    assert (Hm' : forall kv', In kv' m -> field_index (fst kv') fs <> Some i)
      by (intros kv' Hin; apply Hm; right; exact Hin).
    destruct (field_index (fst kv) fs) as [n|] eqn:Efi.
    + destruct (sfind_cases n (snd kv) acc fs 0%nat) as [E|[E|[x E]]]; rewrite E in H.
      * rewrite fold_sstep_none in H. discriminate.
      * apply IH; assumption.
      * rewrite (IH _ _ H Hm'). apply set_nth_val_other. congruence.
    + rewrite sfind_miss in H by (simpl; lia). apply IH; assumption.
Qed.

Theorem absent_keeps_preset : forall fs m v0s vs i,
  dec (TStruct fs) (JObj m) (VStruct v0s) = Some (VStruct vs) ->
  List.length v0s = List.length fs ->
  (forall kv, In kv m -> field_index (fst kv) fs <> Some i) ->
  nth_error vs i = nth_error v0s i.
Proof.
  intros fs m v0s vs i H _ Hm. rewrite dec_struct_fold in H.
  destruct (fold_left (sstep fs) m (Some v0s)) as [vs'|] eqn:E; simpl in H; [|discriminate].
  injection H as ->. eapply fold_sstep_keeps; eassumption.
Qed.

Theorem unknown_member_ignored : forall fs m v0s name j,
  field_index name fs = None ->
  dec (TStruct fs) (JObj (m ++ [(name, j)])) (VStruct v0s) = dec (TStruct fs) (JObj m) (VStruct v0s).
Proof.
  intros fs m v0s name j H. rewrite !dec_struct_fold. f_equal.
  rewrite fold_left_app. simpl.
  destruct (fold_left (sstep fs) m (Some v0s)) as [vs|]; simpl; [|reflexivity].
  rewrite H. apply sfind_miss. simpl. lia.
Qed.
