(* Proofs/SrcValidate.v — Validate methods translated from the Go source on this run (Gen/SrcValidate.v): what
   they append to the validation results is what the model's functions list. *)
From JWT Require Import Base.GoSem Proofs.SrcBase Gen.SrcValidate Model.Subject Model.Validate.
Open Scope string_scope.
Open Scope list_scope.

Definition goi (i : issue) : go_issue :=
  match i with Blocking => GoError | Warning => GoWarning | TimeCheck => GoTimeCheck end.

Lemma map_when (b : bool) (i : issue) : map goi (when b i) = if b then [goi i] else [].
Proof. destruct b; reflexivity. Qed.

(* ---------- ClaimsData.Validate ---------- *)
Lemma src_claims_data_validate now (c : claims_data) (vr : list go_issue) :
  V2.ClaimsData_Validate (cd_exp c) (cd_nbf c) now vr = vr ++ map goi (v_claims_data now c).
Proof.
  unfold V2.ClaimsData_Validate, v_claims_data. cbv zeta. rewrite map_app, !map_when, !Z.gtb_ltb.
  destruct ((0 <? cd_exp c)%Z && (cd_exp c <? now)%Z); destruct ((0 <? cd_nbf c)%Z && (now <? cd_nbf c)%Z);
    cbn [goi app]; rewrite <- ?app_assoc, ?app_nil_r; reflexivity.
Qed.
Lemma src_v1_claims_data_validate now (c : claims_data) (vr : list go_issue) :
  V1.ClaimsData_Validate (cd_exp c) (cd_nbf c) now vr = vr ++ map goi (v_claims_data now c).
Proof. exact (src_claims_data_validate now c vr). Qed.

(* ---------- Subject.Validate ---------- *)
Lemma go_sbyte_first (s : string) : (go_sbyte s 0 =? 46)%Z = is_dot (str_first s).
Proof.
  destruct s as [|c r]; [reflexivity|]. unfold go_sbyte. cbn [Z.to_nat go_sbyte_nat str_first is_dot].
  unfold dot. destruct (Ascii.eqb_spec c "."%char) as [->|Hne]; [reflexivity|].
  apply Z.eqb_neq. intros H. apply Hne. apply (f_equal Z.to_nat) in H. rewrite Nat2Z.id in H.
  change (Z.to_nat 46) with (nat_of_ascii "."%char) in H.
  rewrite <- (ascii_nat_embedding c), <- (ascii_nat_embedding "."%char). now f_equal.
Qed.

Lemma go_sbyte_nat_last : forall (s : string), s <> "" ->
  go_sbyte_nat s (String.length s - 1) = match str_last s with Some c => Z.of_nat (nat_of_ascii c) | None => 0%Z end.
Proof.
  assert (Hrev : forall s c, srev (String c s) = (srev s ++ String c "")%string) .
  { intros s c. unfold srev. cbn [srev_acc]. rewrite (srev_acc_app s (String c "")). reflexivity. }
  assert (Hfirst : forall a b, a <> "" -> str_first (a ++ b)%string = str_first a).
  { intros a b Ha. destruct a; [congruence|reflexivity]. }
  assert (Hne : forall s, s <> "" -> srev s <> "").
  { intros s Hs Hr. apply Hs. rewrite <- (srev_involutive s), Hr. reflexivity. }
  assert (Hgen : forall r c, go_sbyte_nat (String c r) (String.length r) =
            match str_last (String c r) with Some c => Z.of_nat (nat_of_ascii c) | None => 0%Z end).
  { induction r as [|c' r' IH]; intros c; [reflexivity|].
    change (go_sbyte_nat (String c (String c' r')) (String.length (String c' r'))) with (go_sbyte_nat (String c' r') (String.length r')).
    rewrite IH.
    unfold str_last. rewrite (Hrev (String c' r') c). rewrite Hfirst by (apply Hne; discriminate). reflexivity. }
  intros s Hs. destruct s as [|c r]; [congruence|].
  replace (String.length (String c r) - 1)%nat with (String.length r) by (cbn [String.length]; lia).
  apply Hgen.
Qed.

Lemma go_sbyte_last (s : string) : s <> "" -> (go_sbyte s (go_slen s - 1) =? 46)%Z = is_dot (str_last s).
Proof.
  intros Hs. unfold go_sbyte, go_slen.
  replace (Z.to_nat (Z.of_nat (String.length s) - 1)) with (String.length s - 1)%nat by lia.
  rewrite go_sbyte_nat_last by exact Hs.
  destruct (str_last s) as [c|] eqn:E; cbn [is_dot]; [|reflexivity].
  unfold dot. destruct (Ascii.eqb_spec c "."%char) as [->|Hne]; [reflexivity|].
  apply Z.eqb_neq. intros H. apply Hne. apply (f_equal Z.to_nat) in H. rewrite Nat2Z.id in H.
  change (Z.to_nat 46) with (nat_of_ascii "."%char) in H.
  rewrite <- (ascii_nat_embedding c), <- (ascii_nat_embedding "."%char). now f_equal.
Qed.

Lemma src_subject_validate (s : string) (vr : list go_issue) :
  V2.Subject_Validate s vr = vr ++ map goi (v_subject s).
Proof.
  unfold V2.Subject_Validate, v_subject. cbv zeta.
  destruct (s =? "") eqn:Es; [reflexivity|].
  assert (Hs : s <> "") by (intros ->; discriminate).
  rewrite go_sbyte_first, go_sbyte_last by exact Hs.
  rewrite !map_app, !map_when.
  destruct (contains " " s); destruct (is_dot (str_first s) || is_dot (str_last s)); destruct (contains ".." s);
    cbn [goi app]; rewrite <- ?app_assoc, ?app_nil_r; reflexivity.
Qed.

(* ---------- ServiceLatency.Validate ---------- *)
Lemma src_latency_validate (l : latency) (vr : list go_issue) :
  V2.ServiceLatency_Validate (lat_results l) (lat_sampling l) vr = vr ++ map goi (v_latency l).
Proof.
  unfold V2.ServiceLatency_Validate, v_latency. cbv zeta.
  rewrite !map_app, !map_when. change (V2.Subject_HasWildCards (lat_results l)) with (has_wildcards (lat_results l)).
  rewrite Z.gtb_ltb.
  destruct (negb (lat_sampling l =? 0)%Z); cbn [andb];
    [destruct ((lat_sampling l <? 1)%Z || (100 <? lat_sampling l)%Z)|];
    rewrite !src_subject_validate; destruct (has_wildcards (lat_results l));
    cbn [goi app]; rewrite <- ?app_assoc, ?app_nil_r; reflexivity.
Qed.

(* ---------- Export.Validate ---------- *)
(* conditional reports factor out of the results so far *)
Lemma if_app2 {A} (b : bool) (X l1 l2 : list A) : (if b then X ++ l1 else X ++ l2) = X ++ (if b then l1 else l2).
Proof. destruct b; reflexivity. Qed.
Lemma if_app_l {A} (b : bool) (X l : list A) : (if b then X ++ l else X) = X ++ (if b then l else []).
Proof. destruct b; [reflexivity|now rewrite app_nil_r]. Qed.
Lemma if_app_r {A} (b : bool) (X l : list A) : (if b then X else X ++ l) = X ++ (if b then [] else l).
Proof. destruct b; [now rewrite app_nil_r|reflexivity]. Qed.
Ltac factor_reports := repeat first [rewrite <- app_assoc | rewrite if_app2 | rewrite if_app_l | rewrite if_app_r].

Definition lat_or_zero (o : option latency) : latency :=
  match o with Some l => l | None => {| lat_sampling := 0; lat_results := "" |} end.
Definition is_none {A} (o : option A) : bool := match o with None => true | Some _ => false end.

Lemma src_export_predicates (e : export) :
  V2.Export_IsService (ex_type e) = is_service (ex_type e) /\
  V2.Export_IsStream (ex_type e) = is_stream (ex_type e).
Proof. split; reflexivity. Qed.

Lemma src_export_validate url_of (e : export) (vr : list go_issue) :
  V2.Export_Validate (ex_atp e) (ex_allow_trace e) (map goi (v_info url_of (ex_desc e) (ex_url e)))
    (lat_results (lat_or_zero (ex_latency e))) (lat_sampling (lat_or_zero (ex_latency e))) (is_none (ex_latency e))
    (ex_threshold e) (ex_response_type e) (ex_subject e) (ex_type e) false vr
  = vr ++ map goi (v_export url_of (Some e)).
Proof.
  unfold V2.Export_Validate, v_export.
  unfold V2.Export_IsSingleResponse, V2.Export_IsChunkedResponse, V2.Export_IsStreamResponse, V2.Export_IsService, V2.Export_IsStream.
  change (V2.Subject_HasWildCards (ex_subject e)) with (has_wildcards (ex_subject e)).
  fold (is_service (ex_type e)). fold (is_stream (ex_type e)).
  cbv zeta.
  rewrite !src_subject_validate.
  destruct (ex_latency e) as [l|]; cbn [is_none negb lat_or_zero]; rewrite ?src_latency_validate;
    destruct (is_service (ex_type e)); destruct (is_stream (ex_type e)); cbn [andb negb orb];
    factor_reports; rewrite ?map_app, ?map_when; cbn [map app goi]; factor_reports;
    rewrite ?Z.gtb_ltb, ?go_split_dot; unfold go_llen, go_idx.
  all: repeat f_equal.
  all: try reflexivity.
  all: try (destruct (ex_response_type e =? "Singleton"); destruct (ex_response_type e =? ""); destruct (ex_response_type e =? "Chunked");
      destruct (ex_response_type e =? "Stream"); reflexivity).
  all: try (destruct (0 <? ex_atp e)%Z; [|reflexivity]; destruct (has_wildcards (ex_subject e)); cbn [negb]; [|reflexivity];
    destruct (Z.of_nat (length (split dot (ex_subject e))) <? ex_atp e)%Z; [reflexivity|]; rewrite ?map_when; reflexivity).
Qed.
Lemma src_export_validate_nil url_of (vr : list go_issue) a b c d f g h i j k :
  V2.Export_Validate a b c d f g h i j k true vr = vr ++ map goi (v_export url_of None).
Proof. reflexivity. Qed.

Print Assumptions src_claims_data_validate.
Print Assumptions src_subject_validate.
Print Assumptions src_latency_validate.
Print Assumptions src_export_validate.
