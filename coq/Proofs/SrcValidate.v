(* Proofs/SrcValidate.v — Validate methods translated from the Go source on this run (Gen/SrcValidate.v): what
   they append to the validation results is what the model's functions list. *)
From JWT Require Import Base.GoSem Proofs.SrcBase Gen.SrcValidate Model.Subject Model.Validate.
Open Scope string_scope.
Open Scope list_scope.

Definition goi (i : issue) : go_issue :=
  match i with Blocking => GoError | Warning => GoWarning | TimeCheck => GoTimeCheck end.

Lemma map_when (b : bool) (i : issue) : map goi (when b i) = if b then [goi i] else [].
Proof. destruct b; reflexivity. Qed.

(* ---------- ClaimsData.Validate ---------- *)
Lemma src_claims_data_validate now (c : claims_data) (vr : list go_issue) :
  V2.ClaimsData_Validate (cd_exp c) (cd_nbf c) now vr = vr ++ map goi (v_claims_data now c).
Proof.
  unfold V2.ClaimsData_Validate, v_claims_data. cbv zeta. rewrite map_app, !map_when, !Z.gtb_ltb.
  destruct ((0 <? cd_exp c)%Z && (cd_exp c <? now)%Z); destruct ((0 <? cd_nbf c)%Z && (now <? cd_nbf c)%Z);
    cbn [goi app]; rewrite <- ?app_assoc, ?app_nil_r; reflexivity.
Qed.
Lemma src_v1_claims_data_validate now (c : claims_data) (vr : list go_issue) :
  V1.ClaimsData_Validate (cd_exp c) (cd_nbf c) now vr = vr ++ map goi (v_claims_data now c).
Proof. exact (src_claims_data_validate now c vr). Qed.

(* ---------- Subject.Validate ---------- *)
Lemma go_sbyte_first (s : string) : (go_sbyte s 0 =? 46)%Z = is_dot (str_first s).
Proof.
  destruct s as [|c r]; [reflexivity|]. unfold go_sbyte. cbn [Z.to_nat go_sbyte_nat str_first is_dot].
  unfold dot. destruct (Ascii.eqb_spec c "."%char) as [->|Hne]; [reflexivity|].
  apply Z.eqb_neq. intros H. apply Hne. apply (f_equal Z.to_nat) in H. rewrite Nat2Z.id in H.
  change (Z.to_nat 46) with (nat_of_ascii "."%char) in H.
  rewrite <- (ascii_nat_embedding c), <- (ascii_nat_embedding "."%char). now f_equal.
Qed.

Lemma go_sbyte_nat_last : forall (s : string), s <> "" ->
  go_sbyte_nat s (String.length s - 1) = match str_last s with Some c => Z.of_nat (nat_of_ascii c) | None => 0%Z end.
Proof.
  assert (Hrev : forall s c, srev (String c s) = (srev s ++ String c "")%string) .
  { intros s c. unfold srev. cbn [srev_acc]. rewrite (srev_acc_app s (String c "")). reflexivity. }
  assert (Hfirst : forall a b, a <> "" -> str_first (a ++ b)%string = str_first a).
  { intros a b Ha. destruct a; [congruence|reflexivity]. }
  assert (Hne : forall s, s <> "" -> srev s <> "").
  { intros s Hs Hr. apply Hs. rewrite <- (srev_involutive s), Hr. reflexivity. }
  assert (Hgen : forall r c, go_sbyte_nat (String c r) (String.length r) =
            match str_last (String c r) with Some c => Z.of_nat (nat_of_ascii c) | None => 0%Z end).
  { induction r as [|c' r' IH]; intros c; [reflexivity|].
    change (go_sbyte_nat (String c (String c' r')) (String.length (String c' r'))) with (go_sbyte_nat (String c' r') (String.length r')).
    rewrite IH.
    unfold str_last. rewrite (Hrev (String c' r') c). rewrite Hfirst by (apply Hne; discriminate). reflexivity. }
  intros s Hs. destruct s as [|c r]; [congruence|].
  replace (String.length (String c r) - 1)%nat with (String.length r) by (cbn [String.length]; lia).
  apply Hgen.
Qed.

Lemma go_sbyte_last (s : string) : s <> "" -> (go_sbyte s (go_slen s - 1) =? 46)%Z = is_dot (str_last s).
Proof.
  intros Hs. unfold go_sbyte, go_slen.
  replace (Z.to_nat (Z.of_nat (String.length s) - 1)) with (String.length s - 1)%nat by lia.
  rewrite go_sbyte_nat_last by exact Hs.
  destruct (str_last s) as [c|] eqn:E; cbn [is_dot]; [|reflexivity].
  unfold dot. destruct (Ascii.eqb_spec c "."%char) as [->|Hne]; [reflexivity|].
  apply Z.eqb_neq. intros H. apply Hne. apply (f_equal Z.to_nat) in H. rewrite Nat2Z.id in H.
  change (Z.to_nat 46) with (nat_of_ascii "."%char) in H.
  rewrite <- (ascii_nat_embedding c), <- (ascii_nat_embedding "."%char). now f_equal.
Qed.

Lemma src_subject_validate (s : string) (vr : list go_issue) :
  V2.Subject_Validate s vr = vr ++ map goi (v_subject s).
Proof.
  unfold V2.Subject_Validate, v_subject. cbv zeta.
  destruct (s =? "") eqn:Es; [reflexivity|].
  assert (Hs : s <> "") by (intros ->; discriminate).
  rewrite go_sbyte_first, go_sbyte_last by exact Hs.
  rewrite !map_app, !map_when.
  destruct (contains " " s); destruct (is_dot (str_first s) || is_dot (str_last s)); destruct (contains ".." s);
    cbn [goi app]; rewrite <- ?app_assoc, ?app_nil_r; reflexivity.
Qed.

(* ---------- ServiceLatency.Validate ---------- *)
Lemma src_latency_validate (l : latency) (vr : list go_issue) :
  V2.ServiceLatency_Validate (lat_results l) (lat_sampling l) vr = vr ++ map goi (v_latency l).
Proof.
  unfold V2.ServiceLatency_Validate, v_latency. cbv zeta.
  rewrite !map_app, !map_when. change (V2.Subject_HasWildCards (lat_results l)) with (has_wildcards (lat_results l)).
  rewrite Z.gtb_ltb.
  destruct (negb (lat_sampling l =? 0)%Z); cbn [andb];
    [destruct ((lat_sampling l <? 1)%Z || (100 <? lat_sampling l)%Z)|];
    rewrite !src_subject_validate; destruct (has_wildcards (lat_results l));
    cbn [goi app]; rewrite <- ?app_assoc, ?app_nil_r; reflexivity.
Qed.

(* ---------- Export.Validate ---------- *)
(* conditional reports factor out of the results so far *)
Lemma if_app2 {A} (b : bool) (X l1 l2 : list A) : (if b then X ++ l1 else X ++ l2) = X ++ (if b then l1 else l2).
Proof. destruct b; reflexivity. Qed.
Lemma if_app_l {A} (b : bool) (X l : list A) : (if b then X ++ l else X) = X ++ (if b then l else []).
Proof. destruct b; [reflexivity|now rewrite app_nil_r]. Qed.
Lemma if_app_r {A} (b : bool) (X l : list A) : (if b then X else X ++ l) = X ++ (if b then [] else l).
Proof. destruct b; [now rewrite app_nil_r|reflexivity]. Qed.
Ltac factor_reports := repeat first [rewrite <- app_assoc | rewrite if_app2 | rewrite if_app_l | rewrite if_app_r].

Definition lat_or_zero (o : option latency) : latency :=
  match o with Some l => l | None => {| lat_sampling := 0; lat_results := "" |} end.
Definition is_none {A} (o : option A) : bool := match o with None => true | Some _ => false end.

Lemma src_export_predicates (e : export) :
  V2.Export_IsService (ex_type e) = is_service (ex_type e) /\
  V2.Export_IsStream (ex_type e) = is_stream (ex_type e).
Proof. split; reflexivity. Qed.

Lemma src_export_validate url_of (e : export) (vr : list go_issue) :
  V2.Export_Validate (ex_atp e) (ex_allow_trace e) (map goi (v_info url_of (ex_desc e) (ex_url e)))
    (lat_results (lat_or_zero (ex_latency e))) (lat_sampling (lat_or_zero (ex_latency e))) (is_none (ex_latency e))
    (ex_threshold e) (ex_response_type e) (ex_subject e) (ex_type e) false vr
  = vr ++ map goi (v_export url_of (Some e)).
Proof.
  unfold V2.Export_Validate, v_export.
  unfold V2.Export_IsSingleResponse, V2.Export_IsChunkedResponse, V2.Export_IsStreamResponse, V2.Export_IsService, V2.Export_IsStream.
  change (V2.Subject_HasWildCards (ex_subject e)) with (has_wildcards (ex_subject e)).
  fold (is_service (ex_type e)). fold (is_stream (ex_type e)).
  cbv zeta.
  rewrite !src_subject_validate.
  destruct (ex_latency e) as [l|]; cbn [is_none negb lat_or_zero]; rewrite ?src_latency_validate;
    destruct (is_service (ex_type e)); destruct (is_stream (ex_type e)); cbn [andb negb orb];
    factor_reports; rewrite ?map_app, ?map_when; cbn [map app goi]; factor_reports;
    rewrite ?Z.gtb_ltb, ?go_split_dot; unfold go_llen, go_idx.
  all: repeat f_equal.
  all: try reflexivity.
  all: try (destruct (ex_response_type e =? "Singleton"); destruct (ex_response_type e =? ""); destruct (ex_response_type e =? "Chunked");
      destruct (ex_response_type e =? "Stream"); reflexivity).
  all: try (destruct (0 <? ex_atp e)%Z; [|reflexivity]; destruct (has_wildcards (ex_subject e)); cbn [negb]; [|reflexivity];
    destruct (Z.of_nat (length (split dot (ex_subject e))) <? ex_atp e)%Z; [reflexivity|]; rewrite ?map_when; reflexivity).
Qed.
Lemma src_export_validate_nil url_of (vr : list go_issue) a b c d f g h i j k :
  V2.Export_Validate a b c d f g h i j k true vr = vr ++ map goi (v_export url_of None).
Proof. reflexivity. Qed.


(* ---------- isContainedIn (the overlap scan behind Exports.Validate) and Exports.Validate ----------
   The scan: every ordered pair of different positions; a subject that contains another one is entered, once, into a Go
   map keyed by it; one blocking issue per key.  The map is read as an association list in insertion order (the final
   range appends the same issue for every key, whatever the order).  Proved: the issues appended are exactly the
   model's [v_overlaps] - as many as there are DISTINCT subjects containing the subject of another position. *)
From JWT Require Gen.SrcSubject Proofs.SrcSubject.
From Coq Require Import Permutation.

Lemma sv_contained s o : V2.Subject_IsContainedIn s o = is_contained_in s o.
Proof. exact (SrcSubject.src_is_contained_in s o). Qed.

Fixpoint zindexed {A} (i : Z) (l : list A) : list (Z * A) :=
  match l with [] => [] | x :: r => (i, x) :: zindexed (i + 1) r end.
Lemma range_cont {A S R} (f : Z -> A -> S -> S) : forall (l : list A) (i : Z) (st : S),
  go_range (R:=R) (fun i x st => Cont (f i x st)) i l st = inl (fold_left (fun st ix => f (fst ix) (snd ix) st) (zindexed i l) st).
Proof. induction l as [|x l IH]; intros i st; [reflexivity|]. cbn [go_range zindexed fold_left fst snd]. apply IH. Qed.

Definition keys {V} (m : list (string * V)) : list string := map fst m.
Lemma plookup_none {V} (m : list (string * V)) k : go_plookup m k = None <-> ~ In k (keys m).
Proof.
  induction m as [|[k' v] m IH]; cbn [go_plookup keys map fst In]; [tauto|].
  destruct (String.eqb_spec k' k) as [->|Hne]; [split; [discriminate|intros H; exfalso; apply H; now left]|].
  rewrite IH. unfold keys. split; [intros H [E|Hin]; [congruence|tauto]|tauto].
Qed.
Lemma pset_fresh {V} (m : list (string * V)) k v : ~ In k (keys m) -> go_pset m k v = m ++ [(k, v)].
Proof.
  induction m as [|[k' v'] m IH]; intros Hn; [reflexivity|]. cbn [go_pset keys map fst In app] in *.
  destruct (String.eqb_spec k' k) as [->|Hne]; [exfalso; apply Hn; now left|]. rewrite IH; [reflexivity|tauto].
Qed.
Lemma nodup_snoc {A} (l : list A) (x : A) : NoDup l -> ~ In x l -> NoDup (l ++ [x]).
Proof.
  induction l as [|y l IH]; intros Hn Hx; cbn [app]; [constructor; [intros []|constructor]|].
  inversion Hn; subst. constructor.
  - rewrite in_app_iff. cbn [In]. intros [H|[->|[]]]; [contradiction|apply Hx; now left].
  - apply IH; [assumption|]. intros H. apply Hx. now right.
Qed.

(* one inner step, one inner loop, the outer loop - as functions *)
Definition ovl_step (i : Z) (ns : string) (j : Z) (s : string) (m : list (string * string)) : list (string * string) :=
  if (i =? j)%Z then m
  else if is_contained_in ns s then (if existsb (String.eqb s) (keys m) then m else m ++ [(s, ns)]) else m.

Lemma existsb_keys {V} (m : list (string * V)) s : existsb (String.eqb s) (keys m) = true <-> In s (keys m).
Proof.
  rewrite existsb_exists. split; [intros [x [Hin E]]; apply String.eqb_eq in E; now subst|].
  intros H; exists s; split; [exact H|apply String.eqb_refl].
Qed.

Lemma ovl_step_src i ns j s m :
  (if (i =? j)%Z then m
   else (if V2.Subject_IsContainedIn ns s
         then let '(_, ok) := go_pget "" m s in (if negb ok then go_pset m s ns else m)
         else m)) = ovl_step i ns j s m.
Proof.
  unfold ovl_step. destruct (i =? j)%Z; [reflexivity|]. rewrite sv_contained. destruct (is_contained_in ns s); [|reflexivity].
  unfold go_pget. destruct (go_plookup m s) as [v|] eqn:E; cbn [negb].
  - assert (Hin : In s (keys m)). { destruct (in_dec string_dec s (keys m)) as [H|H]; [exact H|]. apply plookup_none in H. congruence. }
    apply existsb_keys in Hin. rewrite Hin. reflexivity.
  - apply plookup_none in E. rewrite pset_fresh by exact E.
    destruct (existsb (String.eqb s) (keys m)) eqn:Ee; [apply existsb_keys in Ee; contradiction|reflexivity].
Qed.

(* the key set after a fold of steps that each add at most the keys [Q x] *)
Lemma fold_keys {X} (step : list (string * string) -> X -> list (string * string)) (Q : X -> string -> Prop) :
  (forall m x, NoDup (keys m) -> NoDup (keys (step m x))) ->
  (forall m x k, NoDup (keys m) -> (In k (keys (step m x)) <-> In k (keys m) \/ Q x k)) ->
  forall (l : list X) (m : list (string * string)), NoDup (keys m) ->
    NoDup (keys (fold_left step l m)) /\ (forall k, In k (keys (fold_left step l m)) <-> In k (keys m) \/ exists x, In x l /\ Q x k).
Proof.
  intros Hnd Hin. induction l as [|x l IH]; intros m Hm; cbn [fold_left].
  - split; [exact Hm|]. intros k. split; [tauto|]. intros [H|[x [[] _]]]; exact H.
  - destruct (IH (step m x) (Hnd m x Hm)) as [N I]. split; [exact N|]. intros k. rewrite I, (Hin m x k Hm). split.
    + intros [[H|H]|[y [Hy Hq]]]; [left; exact H|right; exists x; split; [now left|exact H]|right; exists y; split; [now right|exact Hq]].
    + intros [H|[y [[->|Hy] Hq]]]; [left; left; exact H|left; right; exact Hq|right; exists y; split; assumption].
Qed.

Lemma keys_app {V} (m : list (string * V)) k v : keys (m ++ [(k, v)]) = keys m ++ [k].
Proof. unfold keys. rewrite map_app. reflexivity. Qed.

Lemma ovl_step_nodup i ns j s m : NoDup (keys m) -> NoDup (keys (ovl_step i ns j s m)).
Proof.
  intros H. unfold ovl_step. destruct (i =? j)%Z; [exact H|]. destruct (is_contained_in ns s); [|exact H].
  destruct (existsb (String.eqb s) (keys m)) eqn:E; [exact H|]. rewrite keys_app.
  apply nodup_snoc; [exact H|]. intros Hin. apply existsb_keys in Hin. congruence.
Qed.
Lemma ovl_step_in i ns j s m k :
  In k (keys (ovl_step i ns j s m)) <-> In k (keys m) \/ ((i =? j)%Z = false /\ is_contained_in ns s = true /\ k = s).
Proof.
  unfold ovl_step. destruct (i =? j)%Z; [split; [tauto|intros [H|[H _]]; [exact H|discriminate]]|].
  destruct (is_contained_in ns s); [|split; [tauto|intros [H|[_ [H _]]]; [exact H|discriminate]]].
  destruct (existsb (String.eqb s) (keys m)) eqn:E.
  - apply existsb_keys in E. split; [tauto|intros [H|[_ [_ ->]]]; assumption].
  - rewrite keys_app, in_app_iff. cbn [In]. split; [intros [H|[<-|[]]]; [now left|right; auto]|intros [H|[_ [_ ->]]]; [now left|right; now left]].
Qed.

Definition in_body (i : Z) (ns : string) : Z -> string -> list (string * string) -> ctl (list (string * string)) (list go_issue) :=
  fun (j : Z) (s : string) (go_st : list (string * string)) =>
    let m := go_st in
    if (i =? j)%Z then Cont m
    else let m := (if V2.Subject_IsContainedIn ns s
                   then let str := s in let '(_, ok) := go_pget "" m str in let m := (if negb ok then go_pset m str ns else m) in m
                   else m) in Cont m.
Definition out_body (subjects : list string) : Z -> string -> list (string * string) -> ctl (list (string * string)) (list go_issue) :=
  fun (i : Z) (ns : string) (go_st : list (string * string)) =>
    match go_range (in_body i ns) 0%Z subjects go_st with inr r => Ret r | inl st => Cont st end.

Definition ovl_inner (subjects : list string) (i : Z) (ns : string) (m : list (string * string)) :=
  fold_left (fun m js => ovl_step i ns (fst js) (snd js) m) (zindexed 0 subjects) m.
Definition ovl_outer (subjects : list string) (m : list (string * string)) :=
  fold_left (fun m ins => ovl_inner subjects (fst ins) (snd ins) m) (zindexed 0 subjects) m.

Lemma in_loop i ns : forall (l : list string) (j : Z) (m : list (string * string)),
  go_range (in_body i ns) j l m = inl (fold_left (fun m js => ovl_step i ns (fst js) (snd js) m) (zindexed j l) m).
Proof.
  induction l as [|s l IH]; intros j m; [reflexivity|].
  cbn [go_range zindexed fold_left fst snd]. unfold in_body at 1. cbv zeta.
  pose proof (ovl_step_src i ns j s m) as Hs.
  destruct (i =? j)%Z; [rewrite <- Hs; apply IH|]. rewrite Hs. apply IH.
Qed.
Lemma out_loop subjects : forall (l : list string) (i : Z) (m : list (string * string)),
  go_range (out_body subjects) i l m = inl (fold_left (fun m ins => ovl_inner subjects (fst ins) (snd ins) m) (zindexed i l) m).
Proof.
  induction l as [|ns l IH]; intros i m; [reflexivity|].
  cbn [go_range zindexed fold_left fst snd]. unfold out_body at 1. rewrite in_loop. apply IH.
Qed.

(* the keys the scan ends with *)
Definition ovl_pairs (subjects : list string) (k : string) : Prop :=
  exists ins js, In ins (zindexed 0 subjects) /\ In js (zindexed 0 subjects) /\
                 (fst ins =? fst js)%Z = false /\ is_contained_in (snd ins) (snd js) = true /\ k = snd js.
Lemma ovl_inner_keys subjects i ns m : NoDup (keys m) ->
  NoDup (keys (ovl_inner subjects i ns m)) /\
  forall k, In k (keys (ovl_inner subjects i ns m)) <-> In k (keys m) \/
            exists js, In js (zindexed 0 subjects) /\ ((i =? fst js)%Z = false /\ is_contained_in ns (snd js) = true /\ k = snd js).
Proof.
  intros Hm. unfold ovl_inner.
  apply (fold_keys (fun m js => ovl_step i ns (fst js) (snd js) m)
                   (fun js k => (i =? fst js)%Z = false /\ is_contained_in ns (snd js) = true /\ k = snd js)); [| |exact Hm].
  - intros m0 x H. apply ovl_step_nodup. exact H.
  - intros m0 x k _. apply ovl_step_in.
Qed.
Lemma ovl_outer_keys subjects :
  NoDup (keys (ovl_outer subjects [])) /\ forall k, In k (keys (ovl_outer subjects [])) <-> ovl_pairs subjects k.
Proof.
  unfold ovl_outer.
  destruct (fold_keys (fun m ins => ovl_inner subjects (fst ins) (snd ins) m)
              (fun ins k => exists js, In js (zindexed 0 subjects) /\ ((fst ins =? fst js)%Z = false /\ is_contained_in (snd ins) (snd js) = true /\ k = snd js))
              (fun m x H => proj1 (ovl_inner_keys subjects (fst x) (snd x) m H))
              (fun m x k H => proj2 (ovl_inner_keys subjects (fst x) (snd x) m H) k)
              (zindexed 0 subjects) [] (NoDup_nil _)) as [N I].
  split; [exact N|]. intros k. rewrite I. unfold ovl_pairs. cbn [keys map In]. split.
  - intros [[]|[ins [Hi [js [Hj H]]]]]. exists ins, js. tauto.
  - intros [ins [js [Hi [Hj H]]]]. right. exists ins. split; [exact Hi|]. exists js. tauto.
Qed.

(* the model's [containers] holds the same subjects, each once *)
Lemma dedup_in (l : list string) k : In k (dedup l) <-> In k l.
Proof.
  induction l as [|x l IH]; [reflexivity|]. cbn [dedup].
  destruct (existsb (fun y => (y =? x)%string) l) eqn:E.
  - rewrite IH. cbn [In]. split; [tauto|]. intros [<-|H]; [|exact H].
    apply existsb_exists in E. destruct E as [y [Hy Ey]]. apply String.eqb_eq in Ey. now subst.
  - cbn [In]. rewrite IH. tauto.
Qed.
Lemma dedup_nodup (l : list string) : NoDup (dedup l).
Proof.
  induction l as [|x l IH]; [constructor|]. cbn [dedup].
  destruct (existsb (fun y => (y =? x)%string) l) eqn:E; [exact IH|]. constructor; [|exact IH].
  rewrite dedup_in. intros Hin. assert (existsb (fun y => (y =? x)%string) l = true); [|congruence].
  apply existsb_exists. exists x. split; [exact Hin|apply String.eqb_refl].
Qed.
Lemma zindexed_indexed {A} : forall (l : list A) (n : nat),
  zindexed (Z.of_nat n) l = map (fun p => (Z.of_nat (fst p), snd p)) (combine (seq n (List.length l)) l).
Proof.
  induction l as [|x l IH]; intros n; [reflexivity|]. cbn [zindexed List.length seq combine map fst snd].
  replace (Z.of_nat n + 1)%Z with (Z.of_nat (S n)) by lia. rewrite IH. reflexivity.
Qed.
Lemma containers_in subjects k : In k (containers subjects) <-> ovl_pairs subjects k.
Proof.
  unfold containers, ovl_pairs. cbv zeta. rewrite dedup_in, in_map_iff.
  change 0%Z with (Z.of_nat 0). rewrite (zindexed_indexed subjects 0). fold (indexed subjects). split.
  - intros [js [Hk Hf]]. apply filter_In in Hf. destruct Hf as [Hj He]. apply existsb_exists in He.
    destruct He as [ins [Hi Hc]]. apply andb_true_iff in Hc. destruct Hc as [Hne Hc].
    exists (Z.of_nat (fst ins), snd ins), (Z.of_nat (fst js), snd js). cbn [fst snd].
    repeat split; try (apply in_map_iff; eexists; split; [reflexivity|eassumption]); [|exact Hc|now symmetry].
    apply Z.eqb_neq. intros E. apply Nat2Z.inj in E. apply negb_true_iff, Nat.eqb_neq in Hne. contradiction.
  - intros [ins' [js' [Hi [Hj [Hne [Hc ->]]]]]]. apply in_map_iff in Hi. apply in_map_iff in Hj.
    destruct Hi as [ins [<- Hi]]. destruct Hj as [js [<- Hj]]. cbn [fst snd] in *.
    exists js. split; [reflexivity|]. apply filter_In. split; [exact Hj|]. apply existsb_exists. exists ins. split; [exact Hi|].
    apply andb_true_iff. split; [|exact Hc]. apply negb_true_iff, Nat.eqb_neq. intros E. rewrite E in Hne. rewrite Z.eqb_refl in Hne. discriminate.
Qed.
Lemma containers_count subjects : List.length (ovl_outer subjects []) = List.length (containers subjects).
Proof.
  destruct (ovl_outer_keys subjects) as [N I].
  replace (List.length (ovl_outer subjects [])) with (List.length (keys (ovl_outer subjects []))) by (unfold keys; apply map_length).
  apply Permutation_length. apply NoDup_Permutation; [exact N|apply dedup_nodup|].
  intros k. rewrite I, containers_in. reflexivity.
Qed.

(* the final range: one blocking issue per key *)
Lemma issue_loop {R} (body : Z -> string * string -> list go_issue -> ctl (list go_issue) R) :
  (forall i e vr, body i e vr = Cont (vr ++ [GoError])) ->
  forall (m : list (string * string)) (i : Z) (vr : list go_issue),
    go_range body i m vr = inl (vr ++ repeat GoError (List.length m)).
Proof.
  intros Hb. induction m as [|e m IH]; intros i vr; [cbn; now rewrite app_nil_r|].
  cbn [go_range]. rewrite Hb, IH. cbn [List.length repeat]. rewrite <- app_assoc. reflexivity.
Qed.

Lemma src_overlaps (kind : Z) (subjects : list string) (vr : list go_issue) :
  V2.isContainedIn kind subjects vr = vr ++ map goi (v_overlaps subjects).
Proof.
  unfold V2.isContainedIn. cbv zeta.
  match goal with |- context [go_range ?B 0%Z subjects []] => change B with (out_body subjects) end.
  rewrite out_loop. fold (ovl_outer subjects []).
  assert (Hm : map goi (v_overlaps subjects) = repeat GoError (List.length (ovl_outer subjects []))).
  { rewrite containers_count. unfold v_overlaps. induction (containers subjects) as [|x l IH]; [reflexivity|]. cbn [map List.length repeat goi]. now rewrite IH. }
  rewrite Hm. unfold go_llen.
  destruct (ovl_outer subjects []) as [|e m] eqn:E; [cbn; now rewrite app_nil_r|].
  cbn [negb Z.eqb List.length Z.of_nat]. rewrite issue_loop; [reflexivity|].
  intros i [k v] vr0. reflexivity.
Qed.

(* Exports.Validate: every entry validated (a null one is an error), the subjects collected by kind, the two scans *)
Definition o_exp {A} (f : export -> A) (d : A) (o : option export) : A := match o with Some e => f e | None => d end.
Definition src_exports_validate url_of (l : list (option export)) (vr : list go_issue) : list go_issue :=
  V2.Exports_Validate (option export) None (o_exp ex_atp 0%Z) (o_exp ex_allow_trace false)
    (o_exp (fun e => map goi (v_info url_of (ex_desc e) (ex_url e))) [])
    (o_exp (fun e => lat_results (lat_or_zero (ex_latency e))) "") (o_exp (fun e => lat_sampling (lat_or_zero (ex_latency e))) 0%Z)
    (o_exp (fun e => is_none (ex_latency e)) true) (o_exp ex_threshold 0%Z) (o_exp ex_response_type "") (o_exp ex_subject "")
    (o_exp ex_type 0%Z) (o_exp (fun _ => false) true) l vr.

Definition svc_subjects (l : list (option export)) : list string :=
  flat_map (fun oe => match oe with Some e => if is_service (ex_type e) then [ex_subject e] else [] | None => [] end) l.
Definition str_subjects (l : list (option export)) : list string :=
  flat_map (fun oe => match oe with Some e => if is_service (ex_type e) then [] else [ex_subject e] | None => [] end) l.

Lemma src_exports url_of (l : list (option export)) (vr : list go_issue) :
  src_exports_validate url_of l vr = vr ++ map goi (v_exports url_of l).
Proof.
  unfold src_exports_validate, V2.Exports_Validate, v_exports. cbv zeta.
  match goal with |- context [go_range ?B 0%Z l _] => set (body := B) end.
  assert (Hloop : forall (l : list (option export)) (i : Z) (vr : list go_issue) (sv st : list string),
            go_range body i l (vr, sv, st) = inl (vr ++ map goi (flat_map (v_export url_of) l), sv ++ svc_subjects l, st ++ str_subjects l)).
  { clear l vr. induction l as [|oe l IH]; intros i vr sv st; [cbn; now rewrite !app_nil_r|].
    cbn [go_range]. unfold body at 1. cbv beta zeta. destruct oe as [e|]; cbn [o_exp].
    - rewrite (src_export_validate url_of e vr). change (V2.Export_IsService (ex_type e)) with (is_service (ex_type e)).
      destruct (is_service (ex_type e)) eqn:Es; rewrite IH; cbn [flat_map svc_subjects str_subjects]; rewrite Es;
        cbn [app]; rewrite ?map_app, <- ?app_assoc, ?app_nil_r; reflexivity.
    - rewrite IH. cbn [flat_map svc_subjects str_subjects v_export map goi app]. rewrite <- !app_assoc. reflexivity. }
  rewrite Hloop. cbn [app]. rewrite !src_overlaps. fold (svc_subjects l). fold (str_subjects l).
  rewrite !map_app, <- !app_assoc. reflexivity.
Qed.

Print Assumptions src_claims_data_validate.
Print Assumptions src_subject_validate.
Print Assumptions src_latency_validate.
Print Assumptions src_export_validate.
Print Assumptions src_overlaps.
Print Assumptions src_exports.
