(* Proofs/Codec.v — the generic codec meta-theorem: for every well-formed schema
   and every typed value, [enc] followed by [dec] into a compatible preset gives
   the value back up to [canon]. *)
From JWT Require Import Base.Codec.
From Coq Require Import Permutation.
Open Scope string_scope.
Open Scope Z_scope.

Definition field := (string * bool * ty)%type.
Definition fname (f : field) : string := fst (fst f).

(* ====================================================================== *)
(* induction principles for the nested types                               *)
(* ====================================================================== *)
Section TyInd.
  Variable P : ty -> Prop.
  Hypothesis Hbool : P TBool.
  Hypothesis Hint : forall lo hi, P (TInt lo hi).
  Hypothesis Hstr : P TStr.
  Hypothesis Hlist : forall t, P t -> P (TList t).
  Hypothesis Hmap : forall t, P t -> P (TMap t).
  Hypothesis Hptr : forall t, P t -> P (TPtr t).
  Hypothesis Hstruct : forall fs, Forall (fun f : field => P (snd f)) fs -> P (TStruct fs).
  Hypothesis Hany : P TAny.
  Hypothesis Henum : forall tbl, P (TEnum tbl).
  Hypothesis Hsampling : P TSampling.
  Hypothesis Hcidr : P TCidr.
  Hypothesis Hkeyset : forall st p ki, P st -> P (TKeySet st p ki).
  Hypothesis Hbad : forall w, P (TBad w).
  Fixpoint ty_ind' (t : ty) : P t :=
    match t with
    | TBool => Hbool
    | TInt lo hi => Hint lo hi
    | TStr => Hstr
    | TList t' => Hlist t' (ty_ind' t')
    | TMap t' => Hmap t' (ty_ind' t')
    | TPtr t' => Hptr t' (ty_ind' t')
    | TStruct fs =>
        Hstruct fs ((fix go (fs : list field) : Forall (fun f : field => P (snd f)) fs :=
                       match fs with
                       | [] => Forall_nil _
                       | f :: r => Forall_cons _ (ty_ind' (snd f)) (go r)
                       end) fs)
    | TAny => Hany
    | TEnum tbl => Henum tbl
    | TSampling => Hsampling
    | TCidr => Hcidr
    | TKeySet st p ki => Hkeyset st p ki (ty_ind' st)
    | TBad w => Hbad w
    end.
End TyInd.

Section ValInd.
  Variable P : val -> Prop.
  Hypothesis Hbool : forall b, P (VBool b).
  Hypothesis Hint : forall z, P (VInt z).
  Hypothesis Hstr : forall s, P (VStr s).
  Hypothesis HlistN : P (VList None).
  Hypothesis Hlist : forall l, Forall P l -> P (VList (Some l)).
  Hypothesis HmapN : P (VMap None).
  Hypothesis Hmap : forall m, Forall (fun kv : string * val => P (snd kv)) m -> P (VMap (Some m)).
  Hypothesis HptrN : P (VPtr None).
  Hypothesis Hptr : forall x, P x -> P (VPtr (Some x)).
  Hypothesis Hstruct : forall l, Forall P l -> P (VStruct l).
  Hypothesis Hany : forall j, P (VAny j).
  Fixpoint val_ind' (v : val) : P v :=
    match v with
    | VBool b => Hbool b
    | VInt z => Hint z
    | VStr s => Hstr s
    | VList None => HlistN
    | VList (Some l) =>
        Hlist l ((fix go (l : list val) : Forall P l :=
                    match l with [] => Forall_nil _ | x :: r => Forall_cons _ (val_ind' x) (go r) end) l)
    | VMap None => HmapN
    | VMap (Some m) =>
        Hmap m ((fix go (m : list (string * val)) : Forall (fun kv : string * val => P (snd kv)) m :=
                   match m with [] => Forall_nil _ | x :: r => Forall_cons _ (val_ind' (snd x)) (go r) end) m)
    | VPtr None => HptrN
    | VPtr (Some x) => Hptr x (val_ind' x)
    | VStruct l =>
        Hstruct l ((fix go (l : list val) : Forall P l :=
                      match l with [] => Forall_nil _ | x :: r => Forall_cons _ (val_ind' x) (go r) end) l)
    | VAny j => Hany j
    end.
End ValInd.

(* ====================================================================== *)
(* the nested fixpoints of Base/Codec.v as stand-alone functions           *)
(* ====================================================================== *)
Fixpoint zero_fields (fs : list field) : list val :=
  match fs with
  | [] => []
  | (_, _, ft) :: r => zero_val ft :: zero_fields r
  end.
Lemma zero_val_struct fs : zero_val (TStruct fs) = VStruct (zero_fields fs).
Proof. reflexivity. Qed.

Fixpoint enc_fields (fs : list field) (vs : list val) : option (list (string * json)) :=
  match fs, vs with
  | [], [] => Some []
  | (name, omit, ft) :: fr, fv :: vr =>
      match enc_fields fr vr with
      | None => None
      | Some rest =>
          if omit && is_empty fv then Some rest
          else match enc ft fv with
               | None => None
               | Some j => Some ((name, j) :: rest)
               end
      end
  | _, _ => None
  end.
Lemma enc_struct fs vs : enc (TStruct fs) (VStruct vs) = option_map JObj (enc_fields fs vs).
Proof. reflexivity. Qed.

Section FindAt.
  Variables (target : nat) (j : json) (vs : list val).
  Fixpoint find_at (fs' : list field) (i : nat) : option (list val) :=
    match fs' with
    | [] => Some vs
    | (_, _, ft) :: r =>
        if Nat.eqb i target
        then match dec ft j (nth i vs (zero_val ft)) with
             | None => None
             | Some x => Some (set_nth_val i x vs)
             end
        else find_at r (S i)
    end.
End FindAt.
Definition sstep (fs : list field) (acc : option (list val)) (kv : string * json) : option (list val) :=
  match acc with
  | None => None
  | Some vs =>
      find_at (match field_index (fst kv) fs with Some n => n | None => List.length fs end)
              (snd kv) vs fs 0%nat
  end.
Lemma dec_struct_obj fs m v0s :
  dec (TStruct fs) (JObj m) (VStruct v0s) = option_map VStruct (fold_left (sstep fs) m (Some v0s)).
Proof. reflexivity. Qed.

Fixpoint wf_fields (fs : list field) : bool :=
  match fs with [] => true | (_, _, ft) :: r => wf_ty ft && wf_fields r end.
Lemma wf_ty_struct fs :
  wf_ty (TStruct fs) = names_nodup (map (fun f : field => fst (fst f)) fs) && wf_fields fs.
Proof. reflexivity. Qed.

Fixpoint has_type_fields (fs : list field) (vs : list val) : bool :=
  match fs, vs with
  | [], [] => true
  | (_, _, ft) :: fr, fv :: vr => has_type ft fv && has_type_fields fr vr
  | _, _ => false
  end.
Lemma has_type_struct fs vs : has_type (TStruct fs) (VStruct vs) = has_type_fields fs vs.
Proof. reflexivity. Qed.

Fixpoint omit_fields (fs : list field) (vs v0s : list val) : bool :=
  match fs, vs, v0s with
  | [], [], [] => true
  | (_, omit, ft) :: fr, fv :: vr, f0 :: v0r =>
      (if omit && is_empty fv then val_eqb (canon f0) (canon fv) else omit_ok ft fv f0)
      && omit_fields fr vr v0r
  | _, _, _ => false
  end.
Lemma omit_ok_struct fs vs v0s :
  omit_ok (TStruct fs) (VStruct vs) (VStruct v0s) = omit_fields fs vs v0s.
Proof. reflexivity. Qed.

Fixpoint scopes_fields (fs : list field) (vs : list val) : bool :=
  match fs, vs with
  | (_, _, ft) :: fr, fv :: vr => scopes_ok ft fv && scopes_fields fr vr
  | _, _ => true
  end.
Lemma scopes_ok_struct fs vs : scopes_ok (TStruct fs) (VStruct vs) = scopes_fields fs vs.
Proof. reflexivity. Qed.

Fixpoint val_eqb_list (x y : list val) : bool :=
  match x, y with
  | [], [] => true
  | a :: r, b :: s => val_eqb a b && val_eqb_list r s
  | _, _ => false
  end.
Fixpoint val_eqb_map (x y : list (string * val)) : bool :=
  match x, y with
  | [], [] => true
  | (k, a) :: r, (k', b) :: s => (k =? k')%string && val_eqb a b && val_eqb_map r s
  | _, _ => false
  end.
Lemma val_eqb_VList x y : val_eqb (VList (Some x)) (VList (Some y)) = val_eqb_list x y.
Proof. reflexivity. Qed.
Lemma val_eqb_VStruct x y : val_eqb (VStruct x) (VStruct y) = val_eqb_list x y.
Proof. reflexivity. Qed.
Lemma val_eqb_VMap x y : val_eqb (VMap (Some x)) (VMap (Some y)) = val_eqb_map x y.
Proof. reflexivity. Qed.

Fixpoint json_eqb_list (x y : list json) : bool :=
  match x, y with
  | [], [] => true
  | a :: r, b :: s => json_eqb a b && json_eqb_list r s
  | _, _ => false
  end.
Fixpoint json_eqb_obj (x y : list (string * json)) : bool :=
  match x, y with
  | [], [] => true
  | (k, a) :: r, (k', b) :: s => (k =? k')%string && json_eqb a b && json_eqb_obj r s
  | _, _ => false
  end.
Lemma json_eqb_JArr x y : json_eqb (JArr x) (JArr y) = json_eqb_list x y.
Proof. reflexivity. Qed.
Lemma json_eqb_JObj x y : json_eqb (JObj x) (JObj y) = json_eqb_obj x y.
Proof. reflexivity. Qed.

(* ====================================================================== *)
(* equality tests are sound                                                *)
(* ====================================================================== *)
Lemma json_eqb_eq : forall a b, json_eqb a b = true -> a = b.
Proof.
  induction a as [| x | x | x | x | l IH | l IH] using json_ind'; intros b H;
    destruct b as [| y | y | y | y | l' | l']; try discriminate H.
  - reflexivity.
  - simpl in H. apply eqb_prop in H. now subst.
  - simpl in H. apply Z.eqb_eq in H. now subst.
  - simpl in H. apply String.eqb_eq in H. now subst.
  - simpl in H. apply String.eqb_eq in H. now subst.
  - rewrite json_eqb_JArr in H. f_equal. revert l' H.
    induction IH as [| a r Ha _ IHr]; intros [| b s] H; simpl in H; try discriminate H; [reflexivity|].
    apply andb_true_iff in H as [H1 H2]. f_equal; [now apply Ha | now apply IHr].
  - rewrite json_eqb_JObj in H. f_equal. revert l' H.
    induction IH as [| [k a] r Ha _ IHr]; intros [| [k' b] s] H; simpl in H; try discriminate H; [reflexivity|].
    apply andb_true_iff in H as [H1 H3]. apply andb_true_iff in H1 as [H1 H2].
    apply String.eqb_eq in H1. subst k'. f_equal; [f_equal; now apply Ha | now apply IHr].
Qed.

Lemma val_eqb_list_eq x : Forall (fun a => forall b, val_eqb a b = true -> a = b) x ->
  forall y, val_eqb_list x y = true -> x = y.
Proof.
  induction 1 as [| a r Ha _ IHr]; intros [| b s] H; simpl in H; try discriminate H; [reflexivity|].
  apply andb_true_iff in H as [H1 H2]. f_equal; [now apply Ha | now apply IHr].
Qed.

Lemma val_eqb_eq : forall a b, val_eqb a b = true -> a = b.
Proof.
  induction a as [x | x | x | | l IH | | m IH | | x IH | l IH | j] using val_ind'; intros b H.
  - destruct b; try discriminate H. simpl in H. apply eqb_prop in H. now subst.
  - destruct b; try discriminate H. simpl in H. apply Z.eqb_eq in H. now subst.
  - destruct b; try discriminate H. simpl in H. apply String.eqb_eq in H. now subst.
  - destruct b as [| | |[l'|]| | | |]; try discriminate H. reflexivity.
  - destruct b as [| | |[l'|]| | | |]; try discriminate H.
    rewrite val_eqb_VList in H. f_equal. f_equal. now apply val_eqb_list_eq.
  - destruct b as [| | | |[m'|]| | |]; try discriminate H. reflexivity.
  - destruct b as [| | | |[m'|]| | |]; try discriminate H.
    rewrite val_eqb_VMap in H. f_equal. f_equal. revert m' H.
    induction IH as [| [k a] r Ha _ IHr]; intros [| [k' b] s] H; simpl in H; try discriminate H; [reflexivity|].
    apply andb_true_iff in H as [H1 H3]. apply andb_true_iff in H1 as [H1 H2].
    apply String.eqb_eq in H1. subst k'. f_equal; [f_equal; now apply Ha | now apply IHr].
  - destruct b as [| | | | |[y|]| |]; try discriminate H. reflexivity.
  - destruct b as [| | | | |[y|]| |]; try discriminate H.
    simpl in H. f_equal. f_equal. now apply IH.
  - destruct b; try discriminate H.
    rewrite val_eqb_VStruct in H. f_equal. now apply val_eqb_list_eq.
  - destruct j as [j|]; destruct b as [| | | | | | |[j'|]]; try discriminate H; [|reflexivity].
    simpl in H. apply json_eqb_eq in H. now subst.
Qed.

(* ====================================================================== *)
(* lists, map_opt, sort_by_key                                             *)
(* ====================================================================== *)
Lemma map_opt_Forall2 {A B} (f : A -> option B) l : forall l',
  map_opt f l = Some l' -> Forall2 (fun a b => f a = Some b) l l'.
Proof.
  induction l as [| a r IH]; intros l' H; simpl in H.
  - injection H as <-. constructor.
  - destruct (f a) as [b|] eqn:Ea; [|discriminate H].
    destruct (map_opt f r) as [bs|] eqn:Er; [|discriminate H].
    injection H as <-. constructor; [exact Ea | now apply IH].
Qed.

Lemma Forall2_map_opt {A B} (f : A -> option B) l l' :
  Forall2 (fun a b => f a = Some b) l l' -> map_opt f l = Some l'.
Proof.
  induction 1 as [| a b r s Hab _ IH]; simpl; [reflexivity|]. now rewrite Hab, IH.
Qed.

Lemma Forall2_build {A B C} (S : A -> B -> Prop) (T : B -> C -> Prop) (R : C -> A -> Prop) l es :
  Forall2 S l es ->
  (forall a e, In a l -> S a e -> exists c, T e c /\ R c a) ->
  exists cs, Forall2 T es cs /\ Forall2 R cs l.
Proof.
  induction 1 as [| a e r es' Hae _ IH]; intros HX.
  - exists []. split; constructor.
  - destruct (HX a e (or_introl eq_refl) Hae) as [c [Hc1 Hc2]].
    destruct IH as [cs [H1 H2]]; [intros a' e' Hin; apply HX; now right|].
    exists (c :: cs). split; constructor; assumption.
Qed.

Lemma Forall2_length' {A B} (R : A -> B -> Prop) l l' : Forall2 R l l' -> length l = length l'.
Proof. induction 1; simpl; congruence. Qed.

Lemma map_ext_nth {A B} (f : A -> B) : forall a b,
  length a = length b ->
  (forall i x y, nth_error a i = Some x -> nth_error b i = Some y -> f x = f y) ->
  map f a = map f b.
Proof.
  induction a as [| x r IH]; intros [| y s] Hl H; simpl in Hl; try discriminate Hl; [reflexivity|].
  simpl. f_equal.
  - apply (H 0%nat); reflexivity.
  - apply IH; [congruence|]. intros i. apply (H (S i)).
Qed.

Lemma nth_error_some_lt {A} (l : list A) i : (i < length l)%nat -> exists x, nth_error l i = Some x.
Proof.
  intros H. destruct (nth_error l i) as [x|] eqn:E; [now exists x|].
  apply nth_error_None in E. lia.
Qed.

Lemma nth_error_nth' {A} (l : list A) i x d : nth_error l i = Some x -> nth i l d = x.
Proof.
  revert i; induction l as [| a r IH]; intros [| i] H; simpl in *; try discriminate H.
  - now injection H.
  - now apply IH.
Qed.

Lemma set_nth_val_length i x l : length (set_nth_val i x l) = length l.
Proof. revert i; induction l as [| a r IH]; intros [| i]; simpl; auto. Qed.

Lemma set_nth_val_same i x l : (i < length l)%nat -> nth_error (set_nth_val i x l) i = Some x.
Proof.
  revert i; induction l as [| a r IH]; intros [| i] H; simpl in *; try lia; [reflexivity|].
  apply IH. lia.
Qed.

Lemma set_nth_val_other i i' x l : i <> i' -> nth_error (set_nth_val i x l) i' = nth_error l i'.
Proof.
  revert i i'; induction l as [| a r IH]; intros [| i] [| i'] H; simpl; try reflexivity; try congruence.
  apply IH. congruence.
Qed.

Lemma map_set_nth_val (f : val -> val) i x l : map f (set_nth_val i x l) = set_nth_val i (f x) (map f l).
Proof. revert i; induction l as [| a r IH]; intros [| i]; simpl; try reflexivity. now rewrite IH. Qed.

(* ---------- sort_by_key ---------- *)
Lemma insert_perm {A} (e : string * A) l : Permutation (insert_by_key e l) (e :: l).
Proof.
  induction l as [| x r IH]; simpl; [apply Permutation_refl|].
  destruct (String.leb (fst e) (fst x)); [apply Permutation_refl|].
  eapply Permutation_trans; [apply perm_skip, IH | apply perm_swap].
Qed.

Lemma sort_perm {A} (l : list (string * A)) : Permutation (sort_by_key l) l.
Proof.
  induction l as [| x r IH]; simpl; [constructor|].
  eapply Permutation_trans; [apply insert_perm | now apply perm_skip].
Qed.

Fixpoint skeys {A} (l : list (string * A)) : Prop :=
  match l with
  | [] => True
  | x :: r => match r with [] => True | y :: _ => String.leb (fst x) (fst y) = true end /\ skeys r
  end.

Lemma insert_sorted {A} (e : string * A) l : skeys l -> skeys (insert_by_key e l).
Proof.
  induction l as [| x r IH]; intros Hs; simpl.
  - auto.
  - destruct (String.leb (fst e) (fst x)) eqn:E.
    + split; [exact E | exact Hs].
    + assert (Hxe : String.leb (fst x) (fst e) = true)
        by (destruct (String.leb_total (fst e) (fst x)) as [H|H]; congruence).
      destruct Hs as [Hh Hr]. specialize (IH Hr).
      split; [|exact IH].
      destruct r as [| y r']; simpl; [exact Hxe|].
      destruct (String.leb (fst e) (fst y)); assumption.
Qed.

Lemma sort_sorted {A} (l : list (string * A)) : skeys (sort_by_key l).
Proof. induction l as [| x r IH]; simpl; [exact I | now apply insert_sorted]. Qed.

Lemma sort_id {A} (l : list (string * A)) : skeys l -> sort_by_key l = l.
Proof.
  induction l as [| x r IH]; intros Hs; [reflexivity|].
  destruct Hs as [Hh Hr]. simpl. fold (sort_by_key r). rewrite (IH Hr).
  destruct r as [| y r']; simpl; [reflexivity|]. now rewrite Hh.
Qed.

Lemma sort_idem {A} (l : list (string * A)) : sort_by_key (sort_by_key l) = sort_by_key l.
Proof. apply sort_id, sort_sorted. Qed.

Definition onval {A B} (f : A -> B) (kv : string * A) : string * B := (fst kv, f (snd kv)).

Lemma insert_map {A B} (f : A -> B) e l :
  insert_by_key (onval f e) (map (onval f) l) = map (onval f) (insert_by_key e l).
Proof.
  induction l as [| x r IH]; simpl; [reflexivity|].
  destruct (String.leb (fst e) (fst x)); simpl; [reflexivity|]. now rewrite IH.
Qed.

Lemma sort_map {A B} (f : A -> B) l :
  sort_by_key (map (onval f) l) = map (onval f) (sort_by_key l).
Proof.
  induction l as [| x r IH]; simpl; [reflexivity|].
  fold (sort_by_key (map (onval f) r)). fold (sort_by_key r). now rewrite IH, insert_map.
Qed.

Lemma sort_nil_inv {A} (l : list (string * A)) : sort_by_key l = [] -> l = [].
Proof.
  intros H. pose proof (sort_perm l) as Hp. rewrite H in Hp.
  now apply Permutation_nil in Hp.
Qed.

Lemma keys_nodup_NoDup {A} (l : list (string * A)) : keys_nodup l = true -> NoDup (map fst l).
Proof.
  induction l as [| [k a] r IH]; simpl; intros H; [constructor|].
  apply andb_true_iff in H as [H1 H2]. constructor; [|now apply IH].
  intros Hin. apply in_map_iff in Hin as [[k' a'] [Hk Hin]]. simpl in Hk. subst k'.
  apply negb_true_iff in H1.
  assert (X : existsb (fun e : string * A => (fst e =? k)%string) r = true).
  { apply existsb_exists. exists (k, a'). split; [exact Hin | apply String.eqb_refl]. }
  congruence.
Qed.

Lemma sort_keys_NoDup {A} (l : list (string * A)) : NoDup (map fst l) -> NoDup (map fst (sort_by_key l)).
Proof.
  intros H. eapply Permutation_NoDup; [|exact H].
  apply Permutation_map, Permutation_sym, sort_perm.
Qed.

Lemma sort_in {A} (l : list (string * A)) x : In x (sort_by_key l) -> In x l.
Proof. apply Permutation_in, sort_perm. Qed.

Lemma forallb_In {A} (f : A -> bool) l x : forallb f l = true -> In x l -> f x = true.
Proof. intros H. now apply forallb_forall. Qed.

(* ---------- vstore over distinct keys appends ---------- *)
Lemma vstore_fresh {A} k (x : A) a : ~ In k (map fst a) -> vstore k x a = (a ++ [(k, x)])%list.
Proof.
  induction a as [| [k' x'] r IH]; simpl; intros H; [reflexivity|].
  destruct (k' =? k)%string eqn:E.
  - apply String.eqb_eq in E. subst. exfalso. apply H. now left.
  - rewrite IH; [reflexivity|]. intros Hin. apply H. now right.
Qed.

Lemma fold_store_app {E} (F : option (list (string * val)) -> E -> option (list (string * val))) :
  forall (es : list E) (kvs : list (string * val)),
  Forall2 (fun e kv => forall a, F (Some a) e = Some (vstore (fst kv) (snd kv) a)) es kvs ->
  NoDup (map fst kvs) ->
  forall a, (forall k, In k (map fst a) -> ~ In k (map fst kvs)) ->
  fold_left F es (Some a) = Some (a ++ kvs)%list.
Proof.
  induction 1 as [| e [k x] es' kvs' He _ IH]; intros Hnd a Hdis; simpl.
  - now rewrite app_nil_r.
  - rewrite He. simpl in *. inversion Hnd as [| ? ? Hk Hnd']; subst.
    rewrite vstore_fresh.
    + rewrite IH; [now rewrite <- app_assoc | exact Hnd' |].
      intros k' Hin Hin'. rewrite map_app in Hin. apply in_app_or in Hin as [Hin|Hin].
      * apply (Hdis k' Hin). now right.
      * simpl in Hin. destruct Hin as [<-|[]]. now apply Hk.
    + intros Hin. apply (Hdis k Hin). now left.
Qed.

(* ====================================================================== *)
(* canon                                                                   *)
(* ====================================================================== *)
Lemma canon_struct l : canon (VStruct l) = VStruct (map canon l).
Proof. reflexivity. Qed.

Lemma canon_list l' l : map canon l' = map canon l -> canon (VList (Some l')) = canon (VList (Some l)).
Proof. destruct l', l; simpl; intros H; try discriminate H; [reflexivity|]. now rewrite H. Qed.

Lemma canon_map_ne m : m <> [] ->
  canon (VMap (Some m)) = VMap (Some (sort_by_key (map (onval canon) m))).
Proof. destruct m; [congruence | reflexivity]. Qed.

Definition entry_rel (c a : string * val) : Prop := fst c = fst a /\ canon (snd c) = canon (snd a).

Lemma canon_map_sorted kvs m :
  Forall2 entry_rel kvs (sort_by_key m) -> canon (VMap (Some kvs)) = canon (VMap (Some m)).
Proof.
  intros H.
  assert (Hm : map (onval canon) kvs = map (onval canon) (sort_by_key m)).
  { induction H as [| c a r s [H1 H2] _ IH]; simpl; [reflexivity|].
    f_equal; [|exact IH]. unfold onval. now rewrite H1, H2. }
  destruct m as [| x r].
  - simpl in H. inversion H. reflexivity.
  - assert (Hne : kvs <> []).
    { intros ->. apply Forall2_length' in H.
      rewrite (Permutation_length (sort_perm (x :: r))) in H. discriminate H. }
    rewrite !canon_map_ne by (assumption || discriminate).
    now rewrite Hm, <- sort_map, sort_idem.
Qed.

Lemma canon_vstr_inv x s : canon x = VStr s -> x = VStr s.
Proof.
  destruct x as [| | |[[|]|]|[[|]|]|[|]| |[[]|]]; simpl; intros H; try discriminate H; exact H.
Qed.
Lemma canon_vbool_inv x b : canon x = VBool b -> x = VBool b.
Proof.
  destruct x as [| | |[[|]|]|[[|]|]|[|]| |[[]|]]; simpl; intros H; try discriminate H; exact H.
Qed.
Lemma canon_vint_inv x z : canon x = VInt z -> x = VInt z.
Proof.
  destruct x as [| | |[[|]|]|[[|]|]|[|]| |[[]|]]; simpl; intros H; try discriminate H; exact H.
Qed.

(* ---------- jsort is idempotent ---------- *)
Lemma jsort_obj l : jsort (JObj l) = JObj (sort_by_key (map (onval jsort) l)).
Proof. reflexivity. Qed.

Lemma jsort_idem : forall j, jsort (jsort j) = jsort j.
Proof.
  induction j as [| | | | | l IH | l IH] using json_ind'; try reflexivity.
  - simpl. f_equal. rewrite map_map. apply map_ext_in. intros a Ha.
    rewrite Forall_forall in IH. now apply IH.
  - rewrite !jsort_obj. f_equal.
    rewrite (sort_map jsort (sort_by_key (map (onval jsort) l))), sort_idem, <- sort_map.
    f_equal. rewrite map_map. apply map_ext_in. intros a Ha.
    rewrite Forall_forall in IH. unfold onval. simpl. f_equal. now apply IH.
Qed.

Lemma jsort_null_inv j : jsort j = JNull -> j = JNull.
Proof. destruct j; simpl; intros H; try discriminate H; reflexivity. Qed.

Lemma canon_any_ne j : j <> JNull -> canon (VAny (Some j)) = VAny (Some (jsort j)).
Proof. destruct j; intros H; try reflexivity. congruence. Qed.

Lemma dec_any_ne j v0 : j <> JNull -> dec TAny j v0 = Some (VAny (Some j)).
Proof. destruct j; intros H; try reflexivity. congruence. Qed.

(* ====================================================================== *)
(* side conditions on schemas that [wf_ty] does not contain                *)
(* ====================================================================== *)
(* (1) enum tables map distinct numbers to DISTINCT names *)
Fixpoint strs_nodup (l : list string) : bool :=
  match l with
  | [] => true
  | x :: r => negb (existsb (fun y => (y =? x)%string) r) && strs_nodup r
  end.
Section FieldsOk.
  Variable P : ty -> bool.
  Fixpoint enum_fields_ok (fs : list field) : bool :=
    match fs with [] => true | (_, _, ft) :: r => P ft && enum_fields_ok r end.
End FieldsOk.
Fixpoint enums_ok (t : ty) : bool :=
  match t with
  | TList t' | TMap t' | TPtr t' => enums_ok t'
  | TStruct fs =>
      (fix go (fs : list field) : bool :=
         match fs with [] => true | (_, _, ft) :: r => enums_ok ft && go r end) fs
  | TEnum tbl => strs_nodup (map snd tbl)
  | TKeySet st _ _ => enums_ok st
  | _ => true
  end.
Lemma enums_ok_struct fs : enums_ok (TStruct fs) = enum_fields_ok enums_ok fs.
Proof. reflexivity. Qed.

(* (2) the scope struct of a key set has a field "kind", never omitted, whose
       encoding is always the string "user_scope" (what the decoder looks for) *)
Fixpoint kind_field_ok (fs : list field) : bool :=
  match fs with
  | [] => false
  | (n, omit, ft) :: r =>
      if (n =? "kind")%string
      then negb omit && match ft with
                        | TEnum tbl => forallb (fun e : Z * string => (snd e =? "user_scope")%string) tbl
                        | _ => false
                        end
      else kind_field_ok r
  end.
Fixpoint keyset_kind_ok (t : ty) : bool :=
  match t with
  | TList t' | TMap t' | TPtr t' => keyset_kind_ok t'
  | TStruct fs =>
      (fix go (fs : list field) : bool :=
         match fs with [] => true | (_, _, ft) :: r => keyset_kind_ok ft && go r end) fs
  | TKeySet st _ _ =>
      keyset_kind_ok st && match st with TStruct fs => kind_field_ok fs | _ => false end
  | _ => true
  end.
Lemma keyset_kind_ok_struct fs : keyset_kind_ok (TStruct fs) = enum_fields_ok keyset_kind_ok fs.
Proof. reflexivity. Qed.

Definition wf_ty' (t : ty) : bool := wf_ty t && enums_ok t && keyset_kind_ok t.

Lemma enum_fields_ok_In P fs (f : field) : enum_fields_ok P fs = true -> In f fs -> P (snd f) = true.
Proof.
  induction fs as [| [[n o] ft] r IH]; simpl; intros H Hin; [contradiction|].
  apply andb_true_iff in H as [H1 H2]. destruct Hin as [<-|Hin]; [exact H1 | now apply IH].
Qed.

Lemma wf_fields_In fs (f : field) : wf_fields fs = true -> In f fs -> wf_ty (snd f) = true.
Proof.
  induction fs as [| [[n o] ft] r IH]; simpl; intros H Hin; [contradiction|].
  apply andb_true_iff in H as [H1 H2]. destruct Hin as [<-|Hin]; [exact H1 | now apply IH].
Qed.

Lemma enum_roundtrip tbl z s :
  strs_nodup (map snd tbl) = true -> zassoc z tbl = Some s -> sassoc s tbl = Some z.
Proof.
  induction tbl as [| [k s'] r IH]; simpl; intros Hnd Hz; [discriminate Hz|].
  apply andb_true_iff in Hnd as [H1 H2].
  destruct (k =? z) eqn:Ek.
  - injection Hz as <-. apply Z.eqb_eq in Ek. subst. now rewrite String.eqb_refl.
  - destruct (s' =? s)%string eqn:Es; [|now apply IH].
    exfalso. apply String.eqb_eq in Es. subst s'. apply negb_true_iff in H1.
    assert (X : existsb (fun y => (y =? s)%string) (map snd r) = true).
    { apply existsb_exists. exists s. split; [|apply String.eqb_refl].
      clear -Hz. induction r as [| [k' s''] r IH]; simpl in *; [discriminate Hz|].
      destruct (k' =? z); [injection Hz as ->; now left | right; now apply IH]. }
    congruence.
Qed.

(* ====================================================================== *)
(* struct fields, by index                                                 *)
(* ====================================================================== *)
Lemma has_type_fields_nth fs : forall vs, has_type_fields fs vs = true ->
  length vs = length fs /\
  forall i n o ft fv, nth_error fs i = Some (n, o, ft) -> nth_error vs i = Some fv -> has_type ft fv = true.
Proof.
  induction fs as [| [[n0 o0] ft0] fr IH]; intros [| fv0 vr] H; simpl in H; try discriminate H.
  - split; [reflexivity|]. intros [|i]; discriminate.
  - apply andb_true_iff in H as [H1 H2]. destruct (IH _ H2) as [Hl Hn].
    split; [simpl; congruence|].
    intros [|i] n o ft fv Hf Hv; simpl in Hf, Hv.
    + injection Hf as -> -> ->. injection Hv as ->. exact H1.
    + eapply Hn; eassumption.
Qed.

Lemma scopes_fields_nth fs : forall vs, scopes_fields fs vs = true ->
  forall i n o ft fv, nth_error fs i = Some (n, o, ft) -> nth_error vs i = Some fv -> scopes_ok ft fv = true.
Proof.
  induction fs as [| [[n0 o0] ft0] fr IH]; intros [| fv0 vr] H [|i] n o ft fv Hf Hv;
    simpl in H, Hf, Hv; try discriminate.
  - apply andb_true_iff in H as [H1 H2].
    injection Hf as -> -> ->. injection Hv as ->. exact H1.
  - apply andb_true_iff in H as [H1 H2]. eapply IH; eassumption.
Qed.

Lemma omit_fields_nth fs : forall vs v0s, omit_fields fs vs v0s = true ->
  length v0s = length fs /\
  forall i n o ft fv f0, nth_error fs i = Some (n, o, ft) -> nth_error vs i = Some fv ->
    nth_error v0s i = Some f0 ->
    (if o && is_empty fv then val_eqb (canon f0) (canon fv) else omit_ok ft fv f0) = true.
Proof.
  induction fs as [| [[n0 o0] ft0] fr IH]; intros [| fv0 vr] [| f00 v0r] H; simpl in H; try discriminate H.
  - split; [reflexivity|]. intros [|i]; discriminate.
  - apply andb_true_iff in H as [H1 H2]. destruct (IH _ _ H2) as [Hl Hn].
    split; [simpl; congruence|].
    intros [|i] n o ft fv f0 Hf Hv H0; simpl in Hf, Hv, H0.
    + injection Hf as -> -> ->. injection Hv as ->. injection H0 as ->. exact H1.
    + eapply Hn; eassumption.
Qed.

Lemma names_nodup_NoDup l : names_nodup l = true -> NoDup l.
Proof.
  induction l as [| x r IH]; simpl; intros H; [constructor|].
  apply andb_true_iff in H as [H1 H2]. constructor; [|now apply IH].
  intros Hin. apply negb_true_iff in H1.
  assert (X : existsb (fun y => (to_lower y =? to_lower x)%string) r = true).
  { apply existsb_exists. exists x. split; [exact Hin | apply String.eqb_refl]. }
  congruence.
Qed.

Lemma field_index_exact_nth fs : forall i k n o ft,
  NoDup (map fname fs) -> nth_error fs i = Some (n, o, ft) ->
  field_index_exact n fs k = Some (k + i)%nat.
Proof.
  induction fs as [| [[n0 o0] ft0] fr IH]; intros [|i] k n o ft Hnd Hf; simpl in Hf; try discriminate Hf.
  - injection Hf as -> -> ->. simpl. rewrite String.eqb_refl. f_equal. lia.
  - simpl in Hnd. inversion Hnd as [| ? ? Hnot Hnd']; subst. simpl.
    destruct (n0 =? n)%string eqn:E.
    + exfalso. apply String.eqb_eq in E. subst n0. apply Hnot.
      apply in_map_iff. exists (n, o, ft). split; [reflexivity|]. eapply nth_error_In; eassumption.
    + rewrite (IH i (S k) n o ft Hnd' Hf). f_equal. lia.
Qed.

Lemma field_index_nth fs i n o ft :
  NoDup (map fname fs) -> nth_error fs i = Some (n, o, ft) -> field_index n fs = Some i.
Proof.
  intros Hnd Hf. unfold field_index. now rewrite (field_index_exact_nth fs i 0 n o ft Hnd Hf).
Qed.

Lemma fname_inj fs i i' (f f' : field) :
  NoDup (map fname fs) -> nth_error fs i = Some f -> nth_error fs i' = Some f' ->
  fname f = fname f' -> i = i'.
Proof.
  intros Hnd H1 H2 He.
  assert (L : (i < length (map fname fs))%nat).
  { rewrite map_length. apply nth_error_Some. congruence. }
  eapply (proj1 (NoDup_nth_error (map fname fs)) Hnd i i' L).
  rewrite !nth_error_map, H1, H2. simpl. now rewrite He.
Qed.

Lemma find_at_spec target j vs : forall fs' k d n o ft,
  nth_error fs' d = Some (n, o, ft) -> target = (k + d)%nat ->
  find_at target j vs fs' k =
  match dec ft j (nth target vs (zero_val ft)) with
  | None => None
  | Some x => Some (set_nth_val target x vs)
  end.
Proof.
  induction fs' as [| [[n0 o0] ft0] r IH]; intros k [|d] n o ft Hf Ht; simpl in Hf; try discriminate Hf.
  - injection Hf as -> -> ->. simpl. replace target with k by lia. now rewrite Nat.eqb_refl.
  - simpl. destruct (Nat.eqb k target) eqn:E; [apply Nat.eqb_eq in E; lia|].
    eapply IH; [eassumption | lia].
Qed.

(* ====================================================================== *)
(* zero_compatible                                                         *)
(* ====================================================================== *)
Lemma empty_canon_zero ft fv :
  has_type ft fv = true -> is_empty fv = true -> val_eqb (canon (zero_val ft)) (canon fv) = true.
Proof.
  intros Ht He.
  destruct fv as [b|z|s|[[|x l]|]|[[|x m]|]|[p|]|l|[j|]]; simpl in He; try discriminate He;
    destruct ft; simpl in Ht; try discriminate Ht; simpl.
  all: try reflexivity.
  - now destruct b.
  - apply Z.eqb_eq in He. now subst.
  - apply Z.eqb_eq in He. now subst.
  - apply Z.eqb_eq in He. now subst.
  - apply String.eqb_eq in He. now subst.
Qed.

Definition ZC (t : ty) : Prop :=
  forall v, wf_ty t = true -> has_type t v = true -> omit_ok t v (zero_val t) = true.

Lemma zero_compatible_all : forall t, ZC t.
Proof.
  induction t as [| lo hi | | t IH | t IH | t IH | fs IH | | tbl | | | st p ki IH | w] using ty_ind';
    intros v Hw Ht; try (destruct v; reflexivity).
  - (* TPtr *)
    destruct v as [| | | | |[x|]| |]; try reflexivity.
    simpl. apply IH; [|exact Ht]. simpl in Hw. destruct t; try discriminate Hw. exact Hw.
  - (* TStruct *)
    destruct v as [| | | | | |vs|]; try reflexivity.
    rewrite zero_val_struct, omit_ok_struct. rewrite has_type_struct in Ht.
    rewrite wf_ty_struct in Hw. apply andb_true_iff in Hw as [_ Hw].
    revert vs Ht. induction IH as [| [[n o] ft] fr Hf _ IHr]; intros [| fv vr] Ht; simpl in Ht;
      try discriminate Ht; [reflexivity|].
    simpl in Hw. apply andb_true_iff in Hw as [Hw1 Hw2]. apply andb_true_iff in Ht as [Ht1 Ht2].
    simpl. rewrite (IHr Hw2 vr Ht2), andb_true_r.
    destruct (o && is_empty fv) eqn:E.
    + apply andb_true_iff in E as [_ E]. now apply empty_canon_zero.
    + now apply Hf.
Qed.

Lemma zero_compatible : forall (t : ty) (v : val),
  wf_ty t = true -> has_type t v = true -> omit_ok t v (zero_val t) = true.
Proof. exact zero_compatible_all. Qed.

(* ====================================================================== *)
(* what enc_fields produces                                                *)
(* ====================================================================== *)
Lemma enc_fields_length fs : forall vs ms, enc_fields fs vs = Some ms -> length vs = length fs.
Proof.
  induction fs as [| [[n0 o0] ft0] fr IH]; intros [| fv0 vr] ms H; simpl in H; try discriminate H;
    [reflexivity|].
  destruct (enc_fields fr vr) as [rest|] eqn:Er; [|discriminate H].
  simpl. f_equal. eapply IH; eassumption.
Qed.

(* every member comes from a field that was not omitted *)
Lemma enc_fields_members fs : forall vs ms, enc_fields fs vs = Some ms ->
  forall n j, In (n, j) ms ->
  exists i o ft fv, nth_error fs i = Some (n, o, ft) /\ nth_error vs i = Some fv /\
                    o && is_empty fv = false /\ enc ft fv = Some j.
Proof.
  induction fs as [| [[n0 o0] ft0] fr IH]; intros [| fv0 vr] ms H n j Hin; simpl in H; try discriminate H.
  - injection H as <-. contradiction.
  - destruct (enc_fields fr vr) as [rest|] eqn:Er; [|discriminate H].
    assert (Hrest : In (n, j) rest ->
                    exists i o ft fv, nth_error ((n0, o0, ft0) :: fr) i = Some (n, o, ft) /\
                      nth_error (fv0 :: vr) i = Some fv /\ o && is_empty fv = false /\ enc ft fv = Some j).
    { intros Hr. destruct (IH vr rest Er n j Hr) as [i [o [ft [fv [H1 [H2 [H3 H4]]]]]]].
      exists (S i), o, ft, fv. simpl. auto. }
    destruct (o0 && is_empty fv0) eqn:E.
    + injection H as <-. now apply Hrest.
    + destruct (enc ft0 fv0) as [j0|] eqn:Ej; [|discriminate H]. injection H as <-.
      destruct Hin as [Hin|Hin]; [|now apply Hrest].
      injection Hin as <- <-. exists 0%nat, o0, ft0, fv0. simpl. auto.
Qed.

(* every field that is not omitted has a member *)
Lemma enc_fields_cover fs : forall vs ms, enc_fields fs vs = Some ms ->
  forall i n o ft fv, nth_error fs i = Some (n, o, ft) -> nth_error vs i = Some fv ->
  o && is_empty fv = false -> In n (map fst ms).
Proof.
  induction fs as [| [[n0 o0] ft0] fr IH]; intros [| fv0 vr] ms H [|i] n o ft fv Hf Hv Ho;
    simpl in H, Hf, Hv; try discriminate.
  - injection Hf as -> -> ->. injection Hv as ->.
    destruct (enc_fields fr vr) as [rest|] eqn:Er; [|discriminate H].
    rewrite Ho in H. destruct (enc ft fv) as [j0|]; [|discriminate H]. injection H as <-. now left.
  - destruct (enc_fields fr vr) as [rest|] eqn:Er; [|discriminate H].
    pose proof (IH vr rest Er i n o ft fv Hf Hv Ho) as Hin.
    destruct (o0 && is_empty fv0).
    + injection H as <-. exact Hin.
    + destruct (enc ft0 fv0) as [j0|]; [|discriminate H]. injection H as <-. now right.
Qed.

Lemma enc_fields_names fs : forall vs ms, enc_fields fs vs = Some ms ->
  forall n, In n (map fst ms) -> In n (map fname fs).
Proof.
  intros vs ms H n Hin. apply in_map_iff in Hin as [[n' j] [Hn Hin]]. simpl in Hn. subst n'.
  destruct (enc_fields_members fs vs ms H n j Hin) as [i [o [ft [fv [H1 _]]]]].
  apply in_map_iff. exists (n, o, ft). split; [reflexivity|]. eapply nth_error_In; eassumption.
Qed.

Lemma enc_fields_nodup fs : forall vs ms, enc_fields fs vs = Some ms ->
  NoDup (map fname fs) -> NoDup (map fst ms).
Proof.
  induction fs as [| [[n0 o0] ft0] fr IH]; intros [| fv0 vr] ms H Hnd; simpl in H; try discriminate H.
  - injection H as <-. constructor.
  - destruct (enc_fields fr vr) as [rest|] eqn:Er; [|discriminate H].
    simpl in Hnd. inversion Hnd as [| ? ? Hnot Hnd']; subst.
    pose proof (IH vr rest Er Hnd') as Hr.
    destruct (o0 && is_empty fv0).
    + injection H as <-. exact Hr.
    + destruct (enc ft0 fv0) as [j0|]; [|discriminate H]. injection H as <-.
      simpl. constructor; [|exact Hr]. intros Hin. apply Hnot.
      eapply enc_fields_names; eassumption.
Qed.

(* the scope object of a key set always carries kind = "user_scope" *)
Lemma enc_fields_kind fs : forall vs ms, kind_field_ok fs = true -> enc_fields fs vs = Some ms ->
  jlookup "kind" ms = Some (JStr "user_scope").
Proof.
  induction fs as [| [[n0 o0] ft0] fr IH]; intros [| fv0 vr] ms Hk H; simpl in H, Hk; try discriminate.
  destruct (enc_fields fr vr) as [rest|] eqn:Er; [|discriminate H].
  destruct (n0 =? "kind")%string eqn:En.
  - apply andb_true_iff in Hk as [Ho Hk]. apply negb_true_iff in Ho. subst o0. simpl in H.
    destruct ft0; try discriminate Hk.
    destruct (enc (TEnum tbl) fv0) as [j0|] eqn:Ej; [|discriminate H]. injection H as <-.
    simpl. rewrite En. f_equal.
    destruct fv0; simpl in Ej; try discriminate Ej.
    destruct (zassoc z tbl) as [s|] eqn:Ez; [|discriminate Ej]. injection Ej as <-. f_equal.
    clear -Hk Ez. induction tbl as [| [k s'] r IHr]; simpl in *; [discriminate Ez|].
    apply andb_true_iff in Hk as [H1 H2].
    destruct (k =? z); [injection Ez as <-; now apply String.eqb_eq | now apply IHr].
  - pose proof (IH vr rest Hk Er) as Hl.
    destruct (o0 && is_empty fv0).
    + injection H as <-. exact Hl.
    + destruct (enc ft0 fv0) as [j0|]; [|discriminate H]. injection H as <-.
      simpl. now rewrite En.
Qed.

(* ====================================================================== *)
(* decoding the members of a struct, in any order                          *)
(* ====================================================================== *)
Section StructFold.
  Variables (fs : list field) (vs v0s : list val).
  Hypothesis Hnd : NoDup (map fname fs).
  Hypothesis Hlv : length vs = length fs.
  Hypothesis Hl0 : length v0s = length fs.

  Definition member_ok (ms : list (string * json)) : Prop :=
    forall n j, In (n, j) ms ->
    exists i o ft fv f0 x,
      nth_error fs i = Some (n, o, ft) /\ nth_error vs i = Some fv /\ nth_error v0s i = Some f0 /\
      dec ft j f0 = Some x /\ canon x = canon fv.

  Lemma struct_fold_inv : forall ms cur,
    NoDup (map fst ms) -> length cur = length fs -> member_ok ms ->
    (forall i n o ft fv f0 c,
        nth_error fs i = Some (n, o, ft) -> nth_error vs i = Some fv ->
        nth_error v0s i = Some f0 -> nth_error cur i = Some c ->
        (In n (map fst ms) /\ c = f0) \/ (~ In n (map fst ms) /\ canon c = canon fv)) ->
    exists res, fold_left (sstep fs) ms (Some cur) = Some res /\ map canon res = map canon vs.
  Proof.
    induction ms as [| [n j] ms' IH]; intros cur Hndm Hlc Hm Hinv.
    - exists cur. split; [reflexivity|].
      apply map_ext_nth; [congruence|].
      intros i c fv Hc Hv.
      assert (Li : (i < length fs)%nat) by (rewrite <- Hlv; apply nth_error_Some; congruence).
      destruct (nth_error_some_lt fs i Li) as [[[n o] ft] Hf].
      destruct (nth_error_some_lt v0s i ltac:(lia)) as [f0 H0].
      destruct (Hinv i n o ft fv f0 c Hf Hv H0 Hc) as [[[] _]|[_ H]]; exact H.
    - destruct (Hm n j (or_introl eq_refl)) as [i [o [ft [fv [f0 [x [Hf [Hv [H0 [Hd Hx]]]]]]]]]].
      assert (Li : (i < length fs)%nat) by (apply nth_error_Some; congruence).
      destruct (nth_error_some_lt cur i ltac:(lia)) as [c Hc].
      simpl in Hndm. inversion Hndm as [| ? ? Hnot Hndm']; subst.
      assert (Ec : c = f0).
      { destruct (Hinv i n o ft fv f0 c Hf Hv H0 Hc) as [[_ H]|[H _]]; [exact H|].
        exfalso. apply H. now left. }
      subst c.
      assert (Estep : sstep fs (Some cur) (n, j) = Some (set_nth_val i x cur)).
      { unfold sstep. simpl fst. simpl snd. rewrite (field_index_nth fs i n o ft Hnd Hf).
        rewrite (find_at_spec i j cur fs 0%nat i n o ft Hf eq_refl).
        rewrite (nth_error_nth' cur i f0 (zero_val ft) Hc). now rewrite Hd. }
      cbn [fold_left]. rewrite Estep. apply IH.
      + exact Hndm'.
      + now rewrite set_nth_val_length.
      + intros n' j' Hin. apply Hm. now right.
      + intros i' n' o' ft' fv' f0' c' Hf' Hv' H0' Hc'.
        destruct (Nat.eq_dec i i') as [<-|Hne].
        * rewrite Hf in Hf'. injection Hf' as <- <- <-. rewrite Hv in Hv'. injection Hv' as <-.
          rewrite set_nth_val_same in Hc' by lia. injection Hc' as <-.
          right. split; [exact Hnot | exact Hx].
        * rewrite set_nth_val_other in Hc' by exact Hne.
          assert (Hnn : n' <> n).
          { intros ->. apply Hne. eapply (fname_inj fs i i'); try eassumption. reflexivity. }
          destruct (Hinv i' n' o' ft' fv' f0' c' Hf' Hv' H0' Hc') as [[Hin He]|[Hin He]].
          -- left. split; [|exact He]. simpl in Hin. destruct Hin as [Hin|Hin]; [congruence | exact Hin].
          -- right. split; [|exact He]. intros Hin'. apply Hin. now right.
  Qed.

  Lemma struct_fold ms :
    NoDup (map fst ms) -> member_ok ms ->
    (forall i n o ft fv f0,
        nth_error fs i = Some (n, o, ft) -> nth_error vs i = Some fv -> nth_error v0s i = Some f0 ->
        In n (map fst ms) \/ canon f0 = canon fv) ->
    exists res, fold_left (sstep fs) ms (Some v0s) = Some res /\ map canon res = map canon vs.
  Proof.
    intros Hndm Hm Hc. apply struct_fold_inv; try assumption.
    intros i n o ft fv f0 c Hf Hv H0 Hc'. rewrite H0 in Hc'. injection Hc' as <-.
    destruct (in_dec string_dec n (map fst ms)) as [Hin|Hin]; [left; now split|].
    right. split; [exact Hin|].
    destruct (Hc i n o ft fv f0 Hf Hv H0) as [H|H]; [contradiction | exact H].
  Qed.
End StructFold.

(* ====================================================================== *)
(* the round trip, constructor by constructor                              *)
(* ====================================================================== *)
Definition is_struct (t : ty) : bool := match t with TStruct _ => true | _ => false end.

Definition RT (t : ty) : Prop := forall v v0 j,
  wf_ty t = true -> enums_ok t = true -> keyset_kind_ok t = true ->
  has_type t v = true -> scopes_ok t v = true -> omit_ok t v v0 = true ->
  enc t v = Some j ->
  exists v', dec t j v0 = Some v' /\ canon v' = canon v.

(* for structs: the members may come in any order *)
Definition RTP (t : ty) : Prop := forall v v0 ms ms',
  is_struct t = true ->
  wf_ty t = true -> enums_ok t = true -> keyset_kind_ok t = true ->
  has_type t v = true -> scopes_ok t v = true -> omit_ok t v v0 = true ->
  enc t v = Some (JObj ms) -> Permutation ms ms' ->
  exists v', dec t (JObj ms') v0 = Some v' /\ canon v' = canon v.

Lemma Forall2_canon_map l' l : Forall2 (fun c a : val => canon c = canon a) l' l -> map canon l' = map canon l.
Proof. induction 1; simpl; congruence. Qed.

Lemma entry_rel_keys cs l : Forall2 entry_rel cs l -> map fst cs = map fst l.
Proof. induction 1 as [| c a r s [H1 _] _ IH]; simpl; congruence. Qed.

Lemma RT_bool : RT TBool.
Proof.
  intros v v0 j _ _ _ Ht _ _ He. destruct v; try discriminate Ht.
  simpl in He. injection He as <-. eexists. split; reflexivity.
Qed.

Lemma RT_int lo hi : RT (TInt lo hi).
Proof.
  intros v v0 j _ _ _ Ht _ _ He. destruct v; try discriminate Ht.
  simpl in He, Ht. injection He as <-. simpl. rewrite Ht. eexists. split; reflexivity.
Qed.

Lemma RT_str : RT TStr.
Proof.
  intros v v0 j _ _ _ Ht _ _ He. destruct v; try discriminate Ht.
  simpl in He. injection He as <-. eexists. split; reflexivity.
Qed.

Lemma RT_enum tbl : RT (TEnum tbl).
Proof.
  intros v v0 j _ Hen _ Ht _ _ He. destruct v; try discriminate Ht.
  simpl in He, Hen. destruct (zassoc z tbl) as [s|] eqn:Ez; [|discriminate He].
  injection He as <-. simpl. rewrite (enum_roundtrip tbl z s Hen Ez).
  eexists. split; reflexivity.
Qed.

Lemma RT_sampling : RT TSampling.
Proof.
  intros v v0 j _ _ _ Ht _ _ He. destruct v; try discriminate Ht.
  simpl in He. destruct (z =? 0) eqn:E0.
  - injection He as <-. apply Z.eqb_eq in E0. subst. eexists. split; reflexivity.
  - destruct ((1 <=? z) && (z <=? 100)) eqn:Er; [|discriminate He]. injection He as <-.
    apply andb_true_iff in Er as [E1 E2]. apply Z.leb_le in E1, E2.
    simpl.
    assert (X : (-9223372036854775808 <=? z) && (z <=? 9223372036854775807) = true).
    { apply andb_true_iff. split; apply Z.leb_le; lia. }
    rewrite X. eexists. split; reflexivity.
Qed.

Lemma RT_any : RT TAny.
Proof.
  intros v v0 j _ _ _ Ht _ _ He. destruct v as [| | | | | | |[j0|]]; try discriminate Ht.
  - simpl in He. injection He as <-.
    destruct (json_eqb j0 JNull) eqn:E.
    + apply json_eqb_eq in E. subst j0. exists (VAny None). split; reflexivity.
    + assert (Hne : j0 <> JNull) by (intros ->; discriminate E).
      assert (Hne' : jsort j0 <> JNull) by (intros H; apply Hne; now apply jsort_null_inv).
      exists (VAny (Some (jsort j0))). split; [now apply dec_any_ne|].
      rewrite !canon_any_ne by assumption. now rewrite jsort_idem.
  - simpl in He. injection He as <-. exists (VAny None). split; reflexivity.
Qed.

Lemma cidr_roundtrip : forall l js,
  map_opt (fun x => match x with VStr s => Some (JStr s) | _ => None end) l = Some js ->
  exists ss, map_opt is_jstr js = Some ss /\ map VStr ss = l.
Proof.
  induction l as [| x r IH]; intros js H; simpl in H.
  - injection H as <-. exists []. split; reflexivity.
  - destruct x; try discriminate H.
    destruct (map_opt _ r) as [js'|] eqn:Er; [|discriminate H]. injection H as <-.
    destruct (IH js' eq_refl) as [ss [H1 H2]]. exists (s :: ss). simpl. rewrite H1, H2. split; reflexivity.
Qed.

Lemma RT_cidr : RT TCidr.
Proof.
  intros v v0 j _ _ _ Ht _ _ He. destruct v as [| | |[l|]| | | |]; try discriminate Ht.
  - simpl in He. destruct (map_opt _ l) as [js|] eqn:Em; [|discriminate He]. injection He as <-.
    destruct (cidr_roundtrip l js Em) as [ss [H1 H2]].
    simpl. rewrite H1. simpl. rewrite H2. eexists. split; reflexivity.
  - simpl in He. injection He as <-. eexists. split; reflexivity.
Qed.

Lemma RT_list t : RT t -> RT (TList t).
Proof.
  intros IH v v0 j Hw Hen Hk Ht Hs _ He. destruct v as [| | |[l|]| | | |]; try discriminate Ht.
  - simpl in He, Hw, Hen, Hk, Ht, Hs.
    destruct (map_opt (enc t) l) as [js|] eqn:Em; [|discriminate He]. injection He as <-.
    apply map_opt_Forall2 in Em.
    destruct (Forall2_build (fun a b => enc t a = Some b)
                (fun e c => dec t e (zero_val t) = Some c)
                (fun c a => canon c = canon a) l js Em) as [cs [H1 H2]].
    { intros a e Hin Hae. apply (IH a (zero_val t) e); try assumption.
      - eapply forallb_In; eassumption.
      - eapply forallb_In; eassumption.
      - apply zero_compatible; [assumption | eapply forallb_In; eassumption]. }
    apply Forall2_map_opt in H1. simpl. rewrite H1. simpl.
    eexists. split; [reflexivity|]. apply canon_list. now apply Forall2_canon_map.
  - simpl in He. injection He as <-. eexists. split; reflexivity.
Qed.

Definition map_step (t' : ty) (acc : option (list (string * val))) (kv : string * json) :=
  match acc with
  | None => None
  | Some a => match dec t' (snd kv) (zero_val t') with
              | None => None
              | Some x => Some (vstore (fst kv) x a)
              end
  end.
Lemma dec_map_obj t' m v0 :
  dec (TMap t') (JObj m) v0 =
  option_map (fun x => VMap (Some x))
    (fold_left (map_step t') m (Some (match v0 with VMap (Some m0) => m0 | _ => [] end))).
Proof. reflexivity. Qed.

Lemma omit_map_start v0 :
  match v0 with VMap None | VMap (Some []) => true | _ => false end = true ->
  match v0 with VMap (Some m0) => m0 | _ => [] end = [].
Proof. destruct v0 as [| | | |[[|]|]| | |]; intros H; try discriminate H; reflexivity. Qed.

Lemma RT_map t : RT t -> RT (TMap t).
Proof.
  intros IH v v0 j Hw Hen Hk Ht Hs Ho He.
  assert (Hst : match v0 with VMap (Some m0) => m0 | _ => [] end = []).
  { apply omit_map_start. destruct v; exact Ho. }
  destruct v as [| | | |[m|]| | |]; try discriminate Ht.
  - simpl in He, Hw, Hen, Hk, Ht, Hs.
    apply andb_true_iff in Ht as [Hnd Ht]. apply keys_nodup_NoDup in Hnd.
    destruct (map_opt _ (sort_by_key m)) as [ms|] eqn:Em; [|discriminate He]. injection He as <-.
    apply map_opt_Forall2 in Em.
    destruct (Forall2_build _
                (fun e c => forall a, map_step t (Some a) e = Some (vstore (fst c) (snd c) a))
                entry_rel _ _ Em) as [cs [H1 H2]].
    { intros kv e Hin Hae. apply sort_in in Hin.
      destruct (enc t (snd kv)) as [j'|] eqn:Ej; [|discriminate Hae]. simpl in Hae. injection Hae as <-.
      destruct (IH (snd kv) (zero_val t) j') as [x [Hx1 Hx2]]; try assumption.
      - apply (forallb_In _ _ _ Ht Hin).
      - apply (forallb_In _ _ _ Hs Hin).
      - apply zero_compatible; [assumption | apply (forallb_In _ _ _ Ht Hin)].
      - exists (fst kv, x). split; [|split; [reflexivity | exact Hx2]].
        intros a. unfold map_step. simpl. now rewrite Hx1. }
    rewrite dec_map_obj, Hst.
    rewrite (fold_store_app (map_step t) ms cs H1).
    + simpl. eexists. split; [reflexivity|]. now apply canon_map_sorted.
    + rewrite (entry_rel_keys _ _ H2). now apply sort_keys_NoDup.
    + intros k [].
  - simpl in He. injection He as <-. eexists. split; reflexivity.
Qed.

Lemma enc_struct_obj fs v j : enc (TStruct fs) v = Some j -> exists ms, j = JObj ms.
Proof.
  destruct v; try discriminate. rewrite enc_struct.
  destruct (enc_fields fs l) as [ms|]; [|discriminate]. simpl. intros H. injection H as <-. now exists ms.
Qed.

Lemma dec_ptr_obj t ms v0 :
  dec (TPtr t) (JObj ms) v0 =
  option_map (fun x => VPtr (Some x))
    (dec t (JObj ms) (match v0 with VPtr (Some x) => x | _ => zero_val t end)).
Proof. reflexivity. Qed.

Lemma RT_ptr t : RT t -> RT (TPtr t).
Proof.
  intros IH v v0 j Hw Hen Hk Ht Hs Ho He. destruct v as [| | | | |[x|]| |]; try discriminate Ht.
  - assert (Hw' : wf_ty t = true /\ exists fs, t = TStruct fs).
    { simpl in Hw. destruct t; try discriminate Hw. split; [exact Hw | eauto]. }
    destruct Hw' as [Hw' [fs Efs]].
    assert (Ho' : omit_ok t x (match v0 with VPtr (Some x0) => x0 | _ => zero_val t end) = true).
    { destruct v0 as [| | | | |[x0|]| |]; exact Ho. }
    change (enc t x = Some j) in He.
    destruct (enc_struct_obj fs x j) as [ms ->]; [now rewrite <- Efs|].
    rewrite dec_ptr_obj.
    destruct (IH x _ (JObj ms) Hw' Hen Hk Ht Hs Ho' He) as [x' [H1 H2]].
    rewrite H1. simpl. eexists. split; [reflexivity|]. simpl. now rewrite H2.
  - simpl in He. injection He as <-. eexists. split; reflexivity.
Qed.

Lemma RTP_struct fs : Forall (fun f : field => RT (snd f)) fs -> RTP (TStruct fs).
Proof.
  intros IH v v0 ms ms' _ Hw Hen Hk Ht Hs Ho He Hperm.
  destruct v as [| | | | | |vs|]; try discriminate Ht.
  destruct v0 as [| | | | | |v0s|]; try discriminate Ho.
  rewrite enc_struct in He. rewrite has_type_struct in Ht. rewrite omit_ok_struct in Ho.
  rewrite scopes_ok_struct in Hs. rewrite enums_ok_struct in Hen. rewrite keyset_kind_ok_struct in Hk.
  rewrite wf_ty_struct in Hw. apply andb_true_iff in Hw as [Hnd Hw].
  apply names_nodup_NoDup in Hnd. change (NoDup (map fname fs)) in Hnd.
  destruct (enc_fields fs vs) as [ms0|] eqn:Ef; [|discriminate He].
  simpl in He. injection He as ->.
  destruct (has_type_fields_nth _ _ Ht) as [Hlv Htn].
  destruct (omit_fields_nth _ _ _ Ho) as [Hl0 Hon].
  pose proof (scopes_fields_nth _ _ Hs) as Hsn.
  rewrite Forall_forall in IH.
  destruct (struct_fold fs vs v0s Hnd Hlv Hl0 ms') as [res [Hr1 Hr2]].
  - eapply Permutation_NoDup; [apply Permutation_map; exact Hperm|].
    eapply enc_fields_nodup; eassumption.
  - intros n j Hin. apply (Permutation_in _ (Permutation_sym Hperm)) in Hin.
    destruct (enc_fields_members fs vs ms Ef n j Hin) as [i [o [ft [fv [Hf [Hv [Hno Hej]]]]]]].
    assert (Li : (i < length fs)%nat) by (apply nth_error_Some; congruence).
    destruct (nth_error_some_lt v0s i ltac:(lia)) as [f0 H0].
    pose proof (nth_error_In _ _ Hf) as HIn.
    pose proof (Hon i n o ft fv f0 Hf Hv H0) as Hof. rewrite Hno in Hof.
    destruct (IH _ HIn fv f0 j) as [x [Hx1 Hx2]]; try assumption.
    + apply (wf_fields_In fs _ Hw HIn).
    + apply (enum_fields_ok_In _ fs _ Hen HIn).
    + apply (enum_fields_ok_In _ fs _ Hk HIn).
    + eapply Htn; eassumption.
    + eapply Hsn; eassumption.
    + exists i, o, ft, fv, f0, x. auto.
  - intros i n o ft fv f0 Hf Hv H0.
    pose proof (Hon i n o ft fv f0 Hf Hv H0) as Hof.
    destruct (o && is_empty fv) eqn:E.
    + right. now apply val_eqb_eq.
    + left. eapply Permutation_in; [apply Permutation_map; exact Hperm|].
      eapply enc_fields_cover; eassumption.
  - rewrite dec_struct_obj, Hr1. simpl. eexists. split; [reflexivity|].
    rewrite canon_struct. now rewrite Hr2.
Qed.

Lemma RT_struct fs : RTP (TStruct fs) -> RT (TStruct fs).
Proof.
  intros HP v v0 j Hw Hen Hk Ht Hs Ho He.
  destruct (enc_struct_obj fs v j He) as [ms ->].
  eapply HP; try eassumption; [reflexivity | apply Permutation_refl].
Qed.

(* ---------- key sets ---------- *)
Definition keyset_step (st : ty) (preset : val) (ki : nat)
           (acc : option (list (string * val))) (e : json) : option (list (string * val)) :=
  match acc with
  | None => None
  | Some a =>
      match e with
      | JStr k => Some (vstore k (VPtr None) a)
      | JObj m =>
          match jlookup "kind" m with
          | Some (JStr "user_scope") =>
              match dec st (JObj (sort_by_key m)) preset with
              | Some (VStruct fields) =>
                  match nth ki fields (VStr "") with
                  | VStr k => Some (vstore k (VPtr (Some (VStruct fields))) a)
                  | _ => None
                  end
              | _ => None
              end
          | _ => None
          end
      | _ => Some a
      end
  end.
Lemma dec_keyset_arr st p ki l v0 :
  dec (TKeySet st p ki) (JArr l) v0 =
  option_map (fun x => VMap (Some x))
    (fold_left (keyset_step st p ki) l (Some (match v0 with VMap (Some m0) => m0 | _ => [] end))).
Proof. reflexivity. Qed.
Lemma dec_keyset_null st p ki v0 :
  dec (TKeySet st p ki) JNull v0 = Some (VMap (Some (match v0 with VMap (Some m0) => m0 | _ => [] end))).
Proof. reflexivity. Qed.

Lemma keyset_step_obj st p ki a mm fields k :
  jlookup "kind" mm = Some (JStr "user_scope") ->
  dec st (JObj (sort_by_key mm)) p = Some (VStruct fields) ->
  nth ki fields (VStr "") = VStr k ->
  keyset_step st p ki (Some a) (JObj mm) = Some (vstore k (VPtr (Some (VStruct fields))) a).
Proof.
  intros H1 H2 H3. unfold keyset_step. rewrite H1. cbv beta iota. rewrite H2, H3. reflexivity.
Qed.

Lemma canon_vstruct_inv x l : canon x = VStruct l -> exists l', x = VStruct l' /\ map canon l' = l.
Proof.
  destruct x as [| | |[[|]|]|[[|]|]|[|]|l'|[[]|]]; simpl; intros H; try discriminate H.
  injection H as <-. now exists l'.
Qed.

Definition keyset_encf (st : ty) (kv : string * val) : option json :=
  match snd kv with
  | VPtr None => Some (JStr (fst kv))
  | VPtr (Some s) => enc st s
  | _ => None
  end.
Lemma enc_keyset st p ki m :
  enc (TKeySet st p ki) (VMap (Some m)) = option_map JArr (map_opt (keyset_encf st) (sort_by_key m)).
Proof. reflexivity. Qed.

Lemma RT_keyset st p ki : RTP st -> RT (TKeySet st p ki).
Proof.
  intros IH v v0 j Hw Hen Hk Ht Hs Ho He.
  assert (Hst : match v0 with VMap (Some m0) => m0 | _ => [] end = []).
  { apply omit_map_start. destruct v; exact Ho. }
  destruct v as [| | | |[m|]| | |]; try discriminate Ht.
  - assert (Hw' : wf_ty st = true /\ exists fs, st = TStruct fs /\ kind_field_ok fs = true
                                          /\ keyset_kind_ok st = true).
    { simpl in Hw, Hk. destruct st; try discriminate Hw.
      apply andb_true_iff in Hw as [Hw _]. apply andb_true_iff in Hk as [Hk1 Hk2].
      split; [exact Hw|]. eauto. }
    destruct Hw' as [Hw' [fs [Efs [Hkf Hk']]]].
    change (enums_ok st = true) in Hen.
    rewrite enc_keyset in He.
    destruct (map_opt (keyset_encf st) (sort_by_key m)) as [js|] eqn:Em; [|discriminate He].
    simpl in He. injection He as <-.
    simpl in Ht. apply andb_true_iff in Ht as [Hnd Ht]. apply keys_nodup_NoDup in Hnd.
    simpl in Hs.
    apply map_opt_Forall2 in Em.
    destruct (Forall2_build _
                (fun e c => forall a, keyset_step st p ki (Some a) e = Some (vstore (fst c) (snd c) a))
                entry_rel _ _ Em) as [cs [H1 H2]].
    { intros [k x] e Hin Hae. apply sort_in in Hin.
      pose proof (forallb_In _ _ _ Ht Hin) as Htx. pose proof (forallb_In _ _ _ Hs Hin) as Hsx.
      unfold keyset_encf in Hae. simpl in Htx, Hsx, Hae.
      destruct x as [| | | | |[s|]| |]; try discriminate Htx.
      - destruct s as [| | | | | |fields|]; try discriminate Htx.
        apply andb_true_iff in Htx as [Htx Hkey]. apply andb_true_iff in Hsx as [Hox Hsx].
        destruct (nth ki fields (VStr "")) as [| |k'| | | | |] eqn:Enth; try discriminate Hkey.
        apply String.eqb_eq in Hkey. subst k'.
        assert (He' : exists mm, e = JObj mm) by (eapply enc_struct_obj; rewrite <- Efs; exact Hae).
        destruct He' as [mm ->].
        assert (Hkind : jlookup "kind" mm = Some (JStr "user_scope")).
        { subst st. rewrite enc_struct in Hae.
          destruct (enc_fields fs fields) as [mm0|] eqn:Ef; [|discriminate Hae].
          simpl in Hae. injection Hae as <-. eapply enc_fields_kind; eassumption. }
        destruct (IH (VStruct fields) p mm (sort_by_key mm)) as [v' [Hv1 Hv2]]; try assumption.
        { now rewrite Efs. }
        { apply Permutation_sym, sort_perm. }
        rewrite canon_struct in Hv2.
        destruct (canon_vstruct_inv _ _ Hv2) as [fields' [-> Hf']].
        assert (Hnth' : nth ki fields' (VStr "") = VStr k).
        { apply canon_vstr_inv.
          rewrite <- map_nth, Hf', map_nth, Enth. reflexivity. }
        exists (k, VPtr (Some (VStruct fields'))). split; [|split; [reflexivity|]].
        + intros a. now apply keyset_step_obj.
        + simpl snd. simpl. rewrite Hf'. reflexivity.
      - injection Hae as <-. exists (k, VPtr None). split; [|split; reflexivity].
        intros a. reflexivity. }
    rewrite dec_keyset_arr, Hst.
    rewrite (fold_store_app (keyset_step st p ki) js cs H1).
    + simpl. eexists. split; [reflexivity|]. now apply canon_map_sorted.
    + rewrite (entry_rel_keys _ _ H2). now apply sort_keys_NoDup.
    + intros k [].
  - simpl in He. injection He as <-. rewrite dec_keyset_null, Hst.
    eexists. split; reflexivity.
Qed.

(* ====================================================================== *)
(* the meta-theorem                                                        *)
(* ====================================================================== *)
Theorem codec_main : forall t, RT t /\ RTP t.
Proof.
  assert (NS : forall t, is_struct t = false -> RTP t).
  { intros t H v v0 ms ms' H'. congruence. }
  induction t as [| lo hi | | t IH | t IH | t IH | fs IH | | tbl | | | st p ki IH | w] using ty_ind'.
  - split; [apply RT_bool | now apply NS].
  - split; [apply RT_int | now apply NS].
  - split; [apply RT_str | now apply NS].
  - split; [apply RT_list, IH | now apply NS].
  - split; [apply RT_map, IH | now apply NS].
  - split; [apply RT_ptr, IH | now apply NS].
  - assert (HP : RTP (TStruct fs)).
    { apply RTP_struct. eapply Forall_impl; [|exact IH]. intros f H. exact (proj1 H). }
    split; [now apply RT_struct | exact HP].
  - split; [apply RT_any | now apply NS].
  - split; [apply RT_enum | now apply NS].
  - split; [apply RT_sampling | now apply NS].
  - split; [apply RT_cidr | now apply NS].
  - split; [apply RT_keyset, IH | now apply NS].
  - split; [|now apply NS]. intros v v0 j Hw. discriminate Hw.
Qed.

Lemma codec_roundtrip : forall (t : ty) (v v0 : val) (j : json),
  wf_ty' t = true -> has_type t v = true -> scopes_ok t v = true -> omit_ok t v v0 = true ->
  enc t v = Some j ->
  exists v', dec t j v0 = Some v' /\ canon v' = canon v.
Proof.
  intros t v v0 j Hw. unfold wf_ty' in Hw.
  apply andb_true_iff in Hw as [Hw Hk]. apply andb_true_iff in Hw as [Hw Hen].
  now apply (proj1 (codec_main t)).
Qed.

(* [wf_ty] alone is not enough: the two side conditions in [wf_ty'] are necessary *)
Lemma wf_ty_alone_fails_enum : exists t v v0 j,
  wf_ty t = true /\ has_type t v = true /\ scopes_ok t v = true /\ omit_ok t v v0 = true /\
  enc t v = Some j /\ dec t j v0 = Some (VInt 1) /\ canon (VInt 1) <> canon v.
Proof.
  exists (TEnum [(1, "a"); (2, "a")]), (VInt 2), (VInt 0), (JStr "a").
  repeat split; try reflexivity. discriminate.
Qed.

Lemma wf_ty_alone_fails_keyset : exists t v v0 j,
  wf_ty t = true /\ enums_ok t = true /\ has_type t v = true /\ scopes_ok t v = true /\
  omit_ok t v v0 = true /\ enc t v = Some j /\ dec t j v0 = None.
Proof.
  exists (TKeySet (TStruct [("key", false, TStr)]) (VStruct [VStr ""]) 0),
         (VMap (Some [("K", VPtr (Some (VStruct [VStr "K"])))])), (VMap None),
         (JArr [JObj [("key", JStr "K")]]).
  repeat split; reflexivity.
Qed.

Print Assumptions codec_roundtrip.
Print Assumptions zero_compatible.
