(* Proofs/MigrateCross.v — C04: what the version-1 ENCODER writes reaches the version-2 claims.
   Composition of Proofs/CrossDecode.v (the v1 claims type writes, the shadow struct
   reads: both schemas generated from the code) with the migrate functions. *)
From JWT Require Import Base.Codec Model.Claims Model.Migrate Proofs.Codec Proofs.SubDecode Proofs.Claims Proofs.Migrate Proofs.V1Codec.
From JWT Require Import Proofs.CrossDecode.
Open Scope string_scope.
Open Scope Z_scope.

Definition sch1_of (k : ckind) : ty :=
  match k with
  | KOperator => sch1_operator
  | KAccount => sch1_account
  | KUser => sch1_user
  | KActivation => sch1_activation
  | _ => TBad "no version-1 writer"
  end.

(* the generated schemas are in the relation, the presets have the reader's shape *)
Lemma rd_generated : forall k st, shadow_of k = Some st ->
  rd st (sch1_of k) = true /\ pre_ok st (preset_v1 k) = true /\ shape st (preset_v1 k) = true /\
  wf_ty (sch1_of k) = true /\ enums_ok (sch1_of k) = true /\ keyset_kind_ok (sch1_of k) = true.
Proof.
  intros k st Hs. destruct k; simpl in Hs; try discriminate Hs; injection Hs as <-;
    repeat split; vm_compute; reflexivity.
Qed.

(* the version-1 types hold no key sets: nothing to ask of scopes *)
Lemma sch1_scopes_ok k st c1 : shadow_of k = Some st -> scopes_ok (sch1_of k) c1 = true.
Proof.
  intros Hs. apply no_keyset_scopes_ok.
  destruct k; simpl in Hs; try discriminate Hs; vm_compute; reflexivity.
Qed.

Theorem v1_reaches_shadow : forall k st c1 j,
  shadow_of k = Some st ->
  has_type (sch1_of k) c1 = true -> enc (sch1_of k) c1 = Some j ->
  exists w, dec st j (preset_v1 k) = Some w /\ ag st (sch1_of k) (preset_v1 k) w c1 /\ shape st w = true.
Proof.
  intros k st c1 j Hs Ht He. pose proof (sch1_scopes_ok k st c1 Hs) as Hsc.
  destruct (rd_generated k st Hs) as (Hrd & Hpre & Hsh & Hwf & Hen & Hks).
  destruct (cross_decode st (sch1_of k) (preset_v1 k) c1 j Hrd Hpre (W_intro _ _ Hwf Hen Hks Ht Hsc) He) as [w [Hd Ha]].
  exists w. split; [exact Hd|]. split; [exact Ha|]. exact (ag_shape st (sch1_of k) (preset_v1 k) w c1 Hsh Ha).
Qed.

(* ---------- field access needs only the struct shape ---------- *)
Lemma shape_struct_inv fs v :
  shape (TStruct fs) v = true -> exists vs, v = VStruct vs /\ shape_fields fs vs = true.
Proof. destruct v; try (simpl; discriminate). intros H. rewrite shape_struct in H. eauto. Qed.
Lemma shape_fields_cons_inv n o ft fr vs :
  shape_fields ((n, o, ft) :: fr) vs = true ->
  exists x vr, vs = x :: vr /\ shape ft x = true /\ shape_fields fr vr = true.
Proof.
  destruct vs as [|x vr]; simpl; try discriminate.
  intros H. apply andb_true_iff in H. destruct H as [H1 H2]. exists x, vr. repeat split; assumption.
Qed.
Lemma shape_fields_nil_inv vs : shape_fields [] vs = true -> vs = [].
Proof. destruct vs; simpl; [reflexivity | discriminate]. Qed.

Ltac open_slist H :=
  lazymatch type of H with
  | shape_fields [] ?vs = true => apply shape_fields_nil_inv in H; subst vs
  | shape_fields (_ :: _) ?vs = true =>
      let x := fresh "x" in let r := fresh "r" in
      let Hx := fresh "Hx" in let E := fresh "E" in
      apply shape_fields_cons_inv in H; destruct H as (x & r & E & Hx & H); subst vs; open_slist H
  end.
Ltac open_sstruct H :=
  lazymatch type of H with
  | shape (TStruct _) ?v = true =>
      let vs := fresh "vs" in let E := fresh "E" in
      apply shape_struct_inv in H; destruct H as (vs & E & H); subst v; open_slist H
  end.
Ltac open_sall :=
  repeat match goal with
         | H : shape ?t ?v = true |- _ =>
             is_var v;
             let t' := eval hnf in t in
             lazymatch t' with
             | TStruct _ => change (shape t' v = true) in H; open_sstruct H
             | _ => clear H
             end
         end.

Theorem migrate_copies_shape : forall k st s p2 p1,
  shadow_of k = Some st -> shape st s = true ->
  In (p2, p1) (expected_copies k) ->
  getp (schema_of k) p2 (migrate k s) = getp st p1 s /\ getp st p1 s <> None.
Proof.
  intros k st s p2 p1 Hs Ht Hin.
  destruct k; simpl in Hs; try discriminate Hs; injection Hs as Hs; subst st; open_sall;
    simpl in Hin;
    repeat (destruct Hin as [Hin|Hin];
            [injection Hin as Hp2 Hp1; subst p2 p1;
             split; [vm_compute; reflexivity | vm_compute; discriminate] | ]);
    contradiction.
Qed.

(* a typed value has something at every path its schema has *)
Lemma get_path_total : forall fuel t p v ft,
  has_type t v = true -> get_path_ty fuel t p = Some ft -> exists x, get_path fuel t p v = Some x.
Proof.
  induction fuel as [| fuel IH]; intros t [| n rest] v ft Hv Hp; simpl in Hp; try discriminate Hp;
    try (eexists; reflexivity).
  destruct t as [| | | | | | fs | | | | | |]; try discriminate Hp.
  destruct v as [| | | | | | vs |]; try discriminate Hv.
  rewrite get_path_step. simpl as_struct. cbv iota.
  destruct (field_index_exact n fs 0) as [i|]; [|discriminate Hp].
  destruct (nth_error fs i) as [[[n' o'] ft']|] eqn:Ef; [|discriminate Hp].
  rewrite has_type_struct in Hv. destruct (has_type_fields_nth fs vs Hv) as [Hl Hn].
  assert (Li : (i < length vs)%nat) by (rewrite Hl; exact (nth_error_lt _ _ _ Ef)).
  destruct (nth_error_some_lt vs i Li) as [fv Hfv]. rewrite Hfv.
  eapply IH; [|exact Hp]. eapply Hn; eassumption.
Qed.

(* every field the mapping table names.  [wty] says where the path ends in the version-1 WRITER's schema:
   - the writer has no such member (the legacy types have no subs / data limits, no times_location ...):
     the version-2 claims hold the PRESET (for the limits: -1, unlimited);
   - the writer has it, with omitempty, and the value written is empty: the member is not in the payload and
     the version-2 claims hold the preset;
   - otherwise the version-2 claims hold a value that agrees ([ag]) with the one written *)
Theorem v1_field_reaches_v2 : forall k st c1 j p2 p1,
  shadow_of k = Some st ->
  has_type (sch1_of k) c1 = true -> enc (sch1_of k) c1 = Some j ->
  In (p2, p1) (expected_copies k) ->
  exists d, load_v1 k j = Some d /\
  exists x2 x0 sty r,
    getp (schema_of k) p2 d = Some x2 /\ getp st p1 (preset_v1 k) = Some x0 /\ getp_ty st p1 = Some sty /\
    wget 8 (sch1_of k) p1 c1 = Some r /\
    (wty 8 (sch1_of k) p1 = Some None -> r = None) /\
    match r with
    | None => x2 = x0
    | Some (o, tq, x1) => if o && is_empty x1 then x2 = x0 else ag sty tq x0 x2 x1
    end.
Proof.
  intros k st c1 j p2 p1 Hs Ht He Hin.
  destruct (v1_reaches_shadow k st c1 j Hs Ht He) as [w [Hd [Ha Hsh]]].
  exists (migrate k w). split; [unfold load_v1; now rewrite Hs, Hd|].
  destruct (migrate_copies_shape k st w p2 p1 Hs Hsh Hin) as [Hcp _].
  assert (Hp : exists sty rt, getp_ty st p1 = Some sty /\ wty 8 (sch1_of k) p1 = Some rt).
  { destruct k; simpl in Hs; try discriminate Hs; injection Hs as <-; simpl in Hin;
      repeat (destruct Hin as [Hin|Hin];
              [injection Hin as _ <-; do 2 eexists; split; vm_compute; reflexivity |]);
      contradiction. }
  destruct Hp as (sty & rt & Hsty & Hrt).
  pose proof (wget_total 8 (sch1_of k) p1 c1 rt Ht Hrt) as Hw.
  assert (Hr : exists r, wget 8 (sch1_of k) p1 c1 = Some r /\ (rt = None -> r = None)).
  { destruct rt as [[o tq]|]; [destruct Hw as [x1 Hw]; eexists; split; [exact Hw | discriminate] |
                              exists None; split; [exact Hw | reflexivity]]. }
  destruct Hr as [r [Hr Hnone]].
  destruct (ag_wget 8 st (sch1_of k) p1 (preset_v1 k) w c1 r sty Ha Hr Hsty) as [xw [x0 [Hxw [Hx0 Hrel]]]].
  exists xw, x0, sty, r. repeat split; try assumption.
  - rewrite Hcp. exact Hxw.
  - intros E. apply Hnone. rewrite Hrt in E. now injection E.
Qed.

(* the legacy types cannot express these limits: their version-2 value is the preset, -1 *)
Lemma legacy_absent :
  map (wty 8 sch1_user) [["nats"; "subs"]; ["nats"; "data"]] = [Some None; Some None].
Proof. vm_compute. reflexivity. Qed.
