(* Proofs/Subject.v — proofs of the three statements closed in Properties/C16.v.
   Everything is done on token lists ([split dot s]); only the wildcard
   detection needs reasoning on the string itself. *)
From JWT Require Import Model.Subject.
Open Scope string_scope.

(* ---------- general string / list helpers ---------- *)

Lemma split_app_sep_gen sep a b :
  split sep (a ++ String sep b) = (split sep a ++ split sep b)%list.
Proof.
  induction a as [|c r IH]; simpl.
  - now rewrite Ascii.eqb_refl.
  - destruct (Ascii.eqb c sep) eqn:E.
    + now rewrite IH.
    + rewrite IH.
      destruct (split sep r) as [|h t] eqn:S; [exfalso; eapply split_not_nil; eauto|].
      reflexivity.
Qed.

Lemma join_cons2 sep x y r : join sep (x :: y :: r) = x ++ String sep (join sep (y :: r)).
Proof. reflexivity. Qed.

Lemma join_app sep l1 l2 :
  l1 <> [] -> l2 <> [] ->
  join sep (l1 ++ l2)%list = join sep l1 ++ String sep (join sep l2).
Proof.
  induction l1 as [|x r IH]; [congruence|]. intros _ H2.
  destruct r as [|y r'].
  - destruct l2 as [|z l2']; [congruence|]. reflexivity.
  - change ((x :: y :: r') ++ l2)%list with (x :: y :: (r' ++ l2)%list).
    rewrite !join_cons2.
    change (y :: (r' ++ l2)%list) with ((y :: r') ++ l2)%list.
    rewrite IH by (discriminate || assumption).
    rewrite sapp_assoc. reflexivity.
Qed.

Lemma matches_cons p ps l ls :
  matches (p :: ps) (l :: ls) =
  if (p =? ">") && is_nil ps then true else ((p =? "*") || (p =? l)) && matches ps ls.
Proof. reflexivity. Qed.

Lemma contained_loop_cons tok orest myTok mrest :
  contained_loop (tok :: orest) (myTok :: mrest) =
  if is_nil orest && (tok =? ">") then true
  else if negb (tok =? myTok) && (negb (tok =? "*") || (myTok =? ">")) then false
  else contained_loop orest mrest.
Proof. reflexivity. Qed.

Lemma is_nil_true {A} (l : list A) : is_nil l = true -> l = [].
Proof. destruct l; [reflexivity|discriminate]. Qed.

(* ---------- an induction-friendly validity predicate ---------- *)

Fixpoint vt (l : list string) : bool :=
  match l with
  | [] => true
  | t :: r => negb (t =? "") && sep_free dot t && (is_nil r || negb (t =? ">")) && vt r
  end.

Lemma vt_unfold t r :
  vt (t :: r) = negb (t =? "") && sep_free dot t && (is_nil r || negb (t =? ">")) && vt r.
Proof. reflexivity. Qed.

Lemma vt_cons t r : vt (t :: r) = true ->
  (t =? "") = false /\ sep_free dot t = true /\ (r = [] \/ (t =? ">") = false) /\ vt r = true.
Proof.
  rewrite vt_unfold, !andb_true_iff, orb_true_iff, !negb_true_iff.
  intros [[[H1 H2] H3] H4]. repeat split; try assumption.
  destruct H3 as [H3|H3]; [left; now apply is_nil_true|right; assumption].
Qed.

Lemma valid_vt l :
  valid_toks l = true -> Forall (fun t => sep_free dot t = true) l ->
  vt l = true /\ l <> [].
Proof.
  induction l as [|t r IH]; [discriminate|].
  intros Hv HF. split; [|discriminate].
  inversion HF as [|? ? Ht Hr]; subst.
  destruct r as [|t2 r2].
  - change (valid_toks [t]) with (negb (t =? "")) in Hv.
    rewrite vt_unfold, Hv, Ht. reflexivity.
  - change (valid_toks (t :: t2 :: r2))
      with (negb (t =? "") && negb (t =? ">") && valid_toks (t2 :: r2)) in Hv.
    apply andb_true_iff in Hv. destruct Hv as [Hv Hv3].
    apply andb_true_iff in Hv. destruct Hv as [Hv1 Hv2].
    destruct (IH Hv3 Hr) as [IH1 _].
    rewrite vt_unfold, Hv1, Ht, Hv2, IH1. reflexivity.
Qed.

Lemma valid_subject_vt s :
  valid_subject s = true -> vt (split dot s) = true /\ split dot s <> [].
Proof. intros H. apply valid_vt; [exact H|apply split_tokens_sep_free]. Qed.

(* ---------- instantiating a pattern to a literal ---------- *)

Definition wtok (t : string) : bool := (t =? "*") || (t =? ">").
Definition tokinst (f t : string) : string := if wtok t then f else t.

Lemma lit_tok_inst f t :
  (t =? "") = false -> sep_free dot t = true -> lit_tok f = true ->
  lit_tok (tokinst f t) = true.
Proof.
  intros H1 H2 Hf. unfold tokinst, wtok.
  destruct (t =? "*") eqn:E1; [exact Hf|]. destruct (t =? ">") eqn:E2; [exact Hf|].
  cbn [orb]. unfold lit_tok. rewrite H1, E1, E2, H2. reflexivity.
Qed.

Lemma lit_inst f l :
  lit_tok f = true -> vt l = true ->
  Forall (fun t => lit_tok t = true) (map (tokinst f) l).
Proof.
  intros Hf. induction l as [|t r IH]; intros Hv; [constructor|].
  apply vt_cons in Hv. destruct Hv as (H1 & H2 & _ & H4).
  cbn [map]. constructor; [now apply lit_tok_inst|now apply IH].
Qed.

Lemma literal_inst f l :
  lit_tok f = true -> vt l = true -> l <> [] -> literal (map (tokinst f) l).
Proof.
  intros Hf Hv Hne. split; [|now apply lit_inst].
  destruct l; [congruence|discriminate].
Qed.

Lemma matches_inst f l : vt l = true -> matches l (map (tokinst f) l) = true.
Proof.
  induction l as [|t r IH]; [reflexivity|]. intros Hv.
  apply vt_cons in Hv. destruct Hv as (H1 & H2 & H3 & H4).
  cbn [map]. rewrite matches_cons.
  destruct (t =? ">") eqn:EG.
  - destruct H3 as [->|H3]; [reflexivity|discriminate].
  - cbn [andb]. rewrite (IH H4), andb_true_r. unfold tokinst, wtok. rewrite EG.
    destruct (t =? "*") eqn:ES; [reflexivity|]. cbn [orb]. apply String.eqb_refl.
Qed.

(* ---------- valid_inhabited ---------- *)

Lemma valid_inhabited : forall s : string,
  valid_subject s = true -> exists lit, literal lit /\ subject_matches s lit = true.
Proof.
  intros s Hs. destruct (valid_subject_vt s Hs) as [Hv Hne].
  exists (map (tokinst "x") (split dot s)). split.
  - apply literal_inst; [reflexivity|exact Hv|exact Hne].
  - unfold subject_matches. now apply matches_inst.
Qed.

(* ---------- containment ---------- *)

Lemma matches_length : forall other lit,
  matches other lit = true ->
  (length other <= length lit)%nat /\
  (length lit = length other \/ last other "" = ">").
Proof.
  induction other as [|p ps IH]; intros lit Hm.
  - simpl in Hm. apply is_nil_true in Hm. subst lit. split; [apply Nat.le_refl|left; reflexivity].
  - destruct lit as [|l ls]; [simpl in Hm; discriminate|].
    rewrite matches_cons in Hm.
    destruct ((p =? ">") && is_nil ps) eqn:E.
    + apply andb_true_iff in E. destruct E as [Ea Eb].
      apply String.eqb_eq in Ea. apply is_nil_true in Eb. subst p ps.
      split; [simpl; lia|right; reflexivity].
    + apply andb_true_iff in Hm. destruct Hm as [_ Hm].
      destruct (IH ls Hm) as [IH1 IH2]. split; [simpl; lia|].
      destruct IH2 as [IH2|IH2].
      * left. simpl. lia.
      * right. destruct ps as [|p2 ps2]; [simpl in IH2; discriminate|exact IH2].
Qed.

Lemma loop_sound : forall other my,
  (length other <= length my)%nat ->
  ((length other < length my)%nat -> last other "" = ">") ->
  contained_loop other my = true ->
  forall lit, matches my lit = true -> matches other lit = true.
Proof.
  induction other as [|tok orest IH]; intros my Hle Hlast Hloop lit Hm.
  - destruct my as [|myTok mrest]; [exact Hm|].
    assert (H : last [] "" = ">") by (apply Hlast; simpl; lia).
    simpl in H. discriminate.
  - destruct my as [|myTok mrest]; [simpl in Hle; lia|].
    destruct lit as [|l ls]; [simpl in Hm; discriminate|].
    rewrite contained_loop_cons in Hloop. rewrite matches_cons in Hm. rewrite matches_cons.
    destruct (is_nil orest && (tok =? ">")) eqn:E1.
    + apply andb_true_iff in E1. destruct E1 as [E1a E1b]. rewrite E1b, E1a. reflexivity.
    + destruct (negb (tok =? myTok) && (negb (tok =? "*") || (myTok =? ">"))) eqn:E2;
        [discriminate|].
      rewrite andb_comm in E1. rewrite E1.
      destruct ((myTok =? ">") && is_nil mrest) eqn:E3.
      * exfalso.
        apply andb_true_iff in E3. destruct E3 as [E3a E3b].
        apply String.eqb_eq in E3a. apply is_nil_true in E3b. subst myTok mrest.
        destruct orest as [|t2 o2]; [|simpl in Hle; lia].
        cbn [is_nil] in E1. rewrite andb_true_r in E1.
        rewrite E1 in E2. rewrite orb_true_r in E2. simpl in E2. discriminate.
      * apply andb_true_iff in Hm. destruct Hm as [Hm1 Hm2].
        apply andb_true_iff. split.
        -- destruct (tok =? "*") eqn:ES; [reflexivity|].
           cbn [negb orb] in E2. rewrite andb_true_r in E2.
           apply negb_false_iff in E2. apply String.eqb_eq in E2. subst myTok.
           rewrite ES in Hm1. exact Hm1.
        -- apply (IH mrest); [simpl in Hle; lia| |exact Hloop|exact Hm2].
           intros Hlt.
           assert (HL : last (tok :: orest) "" = ">") by (apply Hlast; simpl; lia).
           destruct orest as [|t2 o2]; [|exact HL].
           simpl in HL. subst tok. cbv in E1. discriminate.
Qed.

Lemma loop_complete : forall other my,
  vt other = true -> vt my = true ->
  (length other <= length my)%nat ->
  ((length other < length my)%nat -> last other "" = ">") ->
  contained_loop other my = false ->
  exists lit, literal lit /\ matches my lit = true /\ matches other lit = false.
Proof.
  induction other as [|tok orest IH]; intros my Hvo Hvm Hle Hlast Hloop.
  - simpl in Hloop. discriminate.
  - destruct my as [|myTok mrest]; [simpl in Hle; lia|].
    apply vt_cons in Hvo. destruct Hvo as (Ho1 & Ho2 & Ho3 & Ho4).
    pose proof Hvm as Hvm'.
    apply vt_cons in Hvm. destruct Hvm as (Hm1 & Hm2 & Hm3 & Hm4).
    rewrite contained_loop_cons in Hloop.
    destruct (is_nil orest && (tok =? ">")) eqn:E1; [discriminate|].
    destruct (negb (tok =? myTok) && (negb (tok =? "*") || (myTok =? ">"))) eqn:E2.
    + (* the loop answers false at this index *)
      clear Hloop IH.
      apply andb_true_iff in E2. destruct E2 as [E2a E2b]. apply negb_true_iff in E2a.
      destruct (myTok =? ">") eqn:EG.
      * (* my = [">"], other = [tok] with tok <> ">" : two tokens are matched by my only *)
        destruct Hm3 as [->|Hm3]; [|discriminate].
        destruct orest as [|t2 o2]; [|simpl in Hle; lia].
        cbn [is_nil andb] in E1.
        exists ["x"; "x"]. split; [|split].
        -- split; [discriminate|]. repeat constructor.
        -- rewrite matches_cons, EG. reflexivity.
        -- rewrite matches_cons, E1. cbn [andb]. apply andb_false_r.
      * (* tok is a literal token different from myTok *)
        rewrite orb_false_r in E2b. apply negb_true_iff in E2b.
        assert (ET : (tok =? ">") = false).
        { destruct Ho3 as [->|Ho3]; [|exact Ho3]. cbn [is_nil andb] in E1. exact E1. }
        set (f := if tok =? "x" then "y" else "x").
        assert (Hf : lit_tok f = true) by (unfold f; destruct (tok =? "x"); reflexivity).
        assert (Hft : (tok =? f) = false).
        { unfold f. destruct (tok =? "x") eqn:EX; [|exact EX].
          apply String.eqb_eq in EX. subst tok. reflexivity. }
        exists (map (tokinst f) (myTok :: mrest)). split; [|split].
        -- apply literal_inst; [exact Hf|exact Hvm'|discriminate].
        -- apply matches_inst. exact Hvm'.
        -- cbn [map]. rewrite matches_cons, ET. cbn [andb]. rewrite E2b. cbn [orb].
           unfold tokinst at 1, wtok. rewrite EG.
           destruct (myTok =? "*"); cbn [orb]; [rewrite Hft|rewrite E2a]; reflexivity.
    + (* the loop continues *)
      destruct orest as [|t2 o2]; [simpl in Hloop; discriminate|].
      destruct mrest as [|m2 mr2]; [simpl in Hle; lia|].
      destruct Hm3 as [Hm3|Hm3]; [discriminate|].
      destruct (IH (m2 :: mr2) Ho4 Hm4) as (lit' & Hl1 & Hl2 & Hl3).
      * simpl in Hle |- *. lia.
      * intros Hlt.
        change (last (tok :: t2 :: o2) "" = ">"). apply Hlast. simpl in Hlt |- *. lia.
      * exact Hloop.
      * exists (tokinst "x" myTok :: lit'). split; [|split].
        -- destruct Hl1 as [_ HF]. split; [discriminate|].
           constructor; [|exact HF]. apply lit_tok_inst; [exact Hm1|exact Hm2|reflexivity].
        -- rewrite matches_cons, Hm3. cbn [andb]. rewrite Hl2, andb_true_r.
           unfold tokinst, wtok. rewrite Hm3.
           destruct (myTok =? "*") eqn:ES; [reflexivity|]. cbn [orb]. apply String.eqb_refl.
        -- rewrite matches_cons. cbn [is_nil]. rewrite andb_false_r, Hl3. apply andb_false_r.
Qed.

Lemma contained_toks_iff my other :
  vt my = true -> my <> [] -> vt other = true -> other <> [] ->
  (contained_toks my other = true <->
   forall lit, literal lit -> matches my lit = true -> matches other lit = true).
Proof.
  intros Hvm Hnm Hvo Hno. split.
  - unfold contained_toks.
    destruct ((length other <? length my)%nat && negb (last other "" =? ">")) eqn:E1;
      [discriminate|].
    destruct (length my <? length other)%nat eqn:E2; [discriminate|].
    intros Hloop lit _ Hm. apply Nat.ltb_ge in E2.
    apply (loop_sound other my); [exact E2| |exact Hloop|exact Hm].
    intros Hlt. apply andb_false_iff in E1. destruct E1 as [E1|E1].
    + apply Nat.ltb_ge in E1. lia.
    + apply negb_false_iff in E1. apply String.eqb_eq in E1. exact E1.
  - intros H. destruct (contained_toks my other) eqn:E; [reflexivity|]. exfalso.
    assert (Hx : lit_tok "x" = true) by reflexivity.
    unfold contained_toks in E.
    destruct ((length other <? length my)%nat && negb (last other "" =? ">")) eqn:E1.
    + apply andb_true_iff in E1. destruct E1 as [E1a E1b].
      apply Nat.ltb_lt in E1a. apply negb_true_iff in E1b. apply String.eqb_neq in E1b.
      pose proof (H _ (literal_inst "x" my Hx Hvm Hnm) (matches_inst "x" my Hvm)) as Hm.
      apply matches_length in Hm. rewrite map_length in Hm.
      destruct Hm as [_ [Hm|Hm]]; [lia|contradiction].
    + destruct (length my <? length other)%nat eqn:E2.
      * apply Nat.ltb_lt in E2.
        pose proof (H _ (literal_inst "x" my Hx Hvm Hnm) (matches_inst "x" my Hvm)) as Hm.
        apply matches_length in Hm. rewrite map_length in Hm. lia.
      * apply Nat.ltb_ge in E2.
        destruct (loop_complete other my Hvo Hvm E2) as (lit & L1 & L2 & L3); [|exact E|].
        -- intros Hlt. apply andb_false_iff in E1. destruct E1 as [E1|E1].
           ++ apply Nat.ltb_ge in E1. lia.
           ++ apply negb_false_iff in E1. apply String.eqb_eq in E1. exact E1.
        -- rewrite (H lit L1 L2) in L3. discriminate.
Qed.

Lemma contained_iff : forall s o : string,
  valid_subject s = true -> valid_subject o = true ->
  (is_contained_in s o = true <->
   forall lit, literal lit -> subject_matches s lit = true -> subject_matches o lit = true).
Proof.
  intros s o Hs Ho.
  destruct (valid_subject_vt s Hs) as [Hvs Hns].
  destruct (valid_subject_vt o Ho) as [Hvo Hno].
  unfold is_contained_in, subject_matches.
  apply contained_toks_iff; assumption.
Qed.

(* ---------- wildcard detection ---------- *)

(* the string test finds nothing but wildcard tokens *)
Lemma wild_in s : has_wildcards s = true -> In "*" (split dot s) \/ In ">" (split dot s).
Proof.
  unfold has_wildcards. rewrite !orb_true_iff.
  intros [[[[[H|H]|H]|H]|H]|H].
  - apply has_suffix_spec in H. destruct H as [r ->]. right.
    change (r ++ ".>") with (r ++ String dot ">").
    rewrite split_app_sep_gen. apply in_or_app. right. left. reflexivity.
  - apply contains_spec in H. destruct H as (a & b & ->). left.
    change (a ++ ".*." ++ b) with (a ++ String dot ("*" ++ String dot b)).
    rewrite !split_app_sep_gen. apply in_or_app. right. apply in_or_app. left. left. reflexivity.
  - apply has_suffix_spec in H. destruct H as [r ->]. left.
    change (r ++ ".*") with (r ++ String dot "*").
    rewrite split_app_sep_gen. apply in_or_app. right. left. reflexivity.
  - apply has_prefix_spec in H. destruct H as [r ->]. left.
    change ("*." ++ r) with ("*" ++ String dot r).
    rewrite split_app_sep_gen. apply in_or_app. left. left. reflexivity.
  - apply String.eqb_eq in H. subst s. left. left. reflexivity.
  - apply String.eqb_eq in H. subst s. right. left. reflexivity.
Qed.

(* a "*" token is always found *)
Lemma in_star_wild s : In "*" (split dot s) -> has_wildcards s = true.
Proof.
  intros H. apply in_split in H. destruct H as (l1 & l2 & H).
  assert (Hs : s = join dot (l1 ++ "*" :: l2)%list)
    by (rewrite <- H; symmetry; apply join_split).
  unfold has_wildcards. rewrite !orb_true_iff.
  destruct l1 as [|a l1]; destruct l2 as [|b l2].
  - left; right. apply String.eqb_eq. exact Hs.
  - left; left; right. apply has_prefix_spec. exists (join dot (b :: l2)).
    rewrite Hs at 1. reflexivity.
  - left; left; left; right. apply has_suffix_spec. exists (join dot (a :: l1)).
    rewrite Hs at 1. rewrite join_app by discriminate. reflexivity.
  - left; left; left; left; right. apply contains_spec.
    exists (join dot (a :: l1)), (join dot (b :: l2)).
    rewrite Hs at 1. rewrite join_app by discriminate. reflexivity.
Qed.

Lemma vt_gt_last l : vt l = true -> In ">" l -> exists l1, l = (l1 ++ [">"])%list.
Proof.
  induction l as [|t r IH]; intros Hv HI; [destruct HI|].
  apply vt_cons in Hv. destruct Hv as (_ & _ & H3 & H4).
  destruct HI as [HI|HI].
  - subst t. destruct H3 as [->|H3]; [exists []; reflexivity|discriminate].
  - destruct (IH H4 HI) as [l1 ->]. exists (t :: l1). reflexivity.
Qed.

(* a ">" token of a valid subject is found *)
Lemma in_gt_wild s :
  vt (split dot s) = true -> In ">" (split dot s) -> has_wildcards s = true.
Proof.
  intros Hv HI. destruct (vt_gt_last _ Hv HI) as [l1 H].
  assert (Hs : s = join dot (l1 ++ [">"])%list)
    by (rewrite <- H; symmetry; apply join_split).
  unfold has_wildcards. rewrite !orb_true_iff.
  destruct l1 as [|a l1].
  - right. apply String.eqb_eq. exact Hs.
  - left; left; left; left; left. apply has_suffix_spec. exists (join dot (a :: l1)).
    rewrite Hs at 1. rewrite join_app by discriminate. reflexivity.
Qed.

(* a pattern without wildcard token matches itself only *)
Lemma nowild_matches : forall l lit,
  ~ In "*" l -> ~ In ">" l -> matches l lit = true -> lit = l.
Proof.
  induction l as [|p ps IH]; intros lit N1 N2 Hm.
  - simpl in Hm. now apply is_nil_true.
  - destruct lit as [|x xs]; [simpl in Hm; discriminate|].
    rewrite matches_cons in Hm.
    assert (E1 : (p =? ">") = false).
    { apply String.eqb_neq. intros ->. apply N2. left. reflexivity. }
    assert (E2 : (p =? "*") = false).
    { apply String.eqb_neq. intros ->. apply N1. left. reflexivity. }
    rewrite E1, E2 in Hm. cbn [andb orb] in Hm.
    apply andb_true_iff in Hm. destruct Hm as [Hm1 Hm2].
    apply String.eqb_eq in Hm1. subst x. f_equal.
    apply IH; [intros HI; apply N1; right; exact HI|intros HI; apply N2; right; exact HI|exact Hm2].
Qed.

Lemma inst_differs : forall l w,
  In w l -> wtok w = true -> map (tokinst "x") l <> map (tokinst "y") l.
Proof.
  induction l as [|t r IH]; intros w HI Hw Heq; [destruct HI|].
  cbn [map] in Heq. injection Heq as Hh Ht.
  destruct HI as [HI|HI].
  - subst t. unfold tokinst in Hh. rewrite Hw in Hh. discriminate.
  - exact (IH w HI Hw Ht).
Qed.

Lemma has_wildcards_iff : forall s : string,
  valid_subject s = true ->
  (has_wildcards s = true <->
   exists l1 l2, literal l1 /\ literal l2 /\ l1 <> l2 /\
                 subject_matches s l1 = true /\ subject_matches s l2 = true).
Proof.
  intros s Hs. destruct (valid_subject_vt s Hs) as [Hv Hne].
  unfold subject_matches. split.
  - intros H. apply wild_in in H.
    exists (map (tokinst "x") (split dot s)), (map (tokinst "y") (split dot s)).
    split; [apply literal_inst; [reflexivity|exact Hv|exact Hne]|].
    split; [apply literal_inst; [reflexivity|exact Hv|exact Hne]|].
    split; [|split; apply matches_inst; exact Hv].
    destruct H as [H|H]; eapply inst_differs; try exact H; reflexivity.
  - intros (l1 & l2 & _ & _ & Hneq & M1 & M2).
    destruct (has_wildcards s) eqn:E; [reflexivity|]. exfalso. apply Hneq.
    assert (N1 : ~ In "*" (split dot s)).
    { intros HI. apply in_star_wild in HI. congruence. }
    assert (N2 : ~ In ">" (split dot s)).
    { intros HI. apply (in_gt_wild s Hv) in HI. congruence. }
    rewrite (nowild_matches _ _ N1 N2 M1), (nowild_matches _ _ N1 N2 M2). reflexivity.
Qed.
