(* Proofs/Claims.v — the codec meta-theorem instantiated on the schemas generated
   from the code: every claims kind round-trips through its version-2 loader. *)
From JWT Require Import Base.Codec Model.Claims Proofs.Codec.
Open Scope string_scope.
Open Scope Z_scope.

(* K1: an account with tiered AND flat JetStream limits loses the flat ones *)
Definition k1_guard (k : ckind) (v : val) : bool :=
  match k with
  | KAccount =>
      match getp sch_account ["nats"; "limits"; "tiered_limits"]%string v with
      | Some (VMap (Some (_ :: _))) => val_eqb (clear_js v) v
      | _ => true
      end
  | _ => true
  end.

(* ====================================================================== *)
(* the generated schemas are well formed                                   *)
(* ====================================================================== *)
Lemma schemas_wf : forallb (fun s => wf_ty (snd s)) all_schemas = true /\ dropped_fields = [].
Proof. split; vm_compute; reflexivity. Qed.

(* ... and satisfy the two side conditions of the meta-theorem *)
Lemma schemas_wf' : forallb (fun s => wf_ty' (snd s)) all_schemas = true.
Proof. vm_compute; reflexivity. Qed.

Lemma schema_of_wf' k : wf_ty' (schema_of k) = true.
Proof. destruct k; vm_compute; reflexivity. Qed.

(* ====================================================================== *)
(* get_path / set_path respect canon                                       *)
(* ====================================================================== *)
Definition as_struct (v : val) : option (list val) := match v with VStruct l => Some l | _ => None end.

Lemma as_struct_canon v v' : canon v = canon v' ->
  match as_struct v, as_struct v' with
  | Some l, Some l' => map canon l = map canon l'
  | None, None => True
  | _, _ => False
  end.
Proof.
  intros H. destruct (as_struct v) as [l|] eqn:E1; destruct (as_struct v') as [l'|] eqn:E2.
  - destruct v; try discriminate E1. destruct v'; try discriminate E2.
    injection E1 as ->. injection E2 as ->. rewrite !canon_struct in H. now injection H.
  - destruct v; try discriminate E1. rewrite canon_struct in H. symmetry in H.
    destruct (canon_vstruct_inv _ _ H) as [l' [-> _]]. discriminate E2.
  - destruct v'; try discriminate E2. rewrite canon_struct in H.
    destruct (canon_vstruct_inv _ _ H) as [l0 [-> _]]. discriminate E1.
  - exact I.
Qed.

Lemma get_path_step fuel t name rest v :
  get_path (S fuel) t (name :: rest) v =
  match t, as_struct v with
  | TStruct fs, Some vs =>
      match field_index_exact name fs 0 with
      | Some i => match nth_error fs i, nth_error vs i with
                  | Some (_, _, ft), Some fv => get_path fuel ft rest fv
                  | _, _ => None
                  end
      | None => None
      end
  | _, _ => None
  end.
Proof. destruct t; try reflexivity; destruct v; reflexivity. Qed.

Lemma set_path_step fuel t name rest x v :
  set_path (S fuel) t (name :: rest) x v =
  match t, as_struct v with
  | TStruct fs, Some vs =>
      match field_index_exact name fs 0 with
      | Some i => match nth_error fs i, nth_error vs i with
                  | Some (_, _, ft), Some fv => VStruct (set_nth_val i (set_path fuel ft rest x fv) vs)
                  | _, _ => v
                  end
      | None => v
      end
  | _, _ => v
  end.
Proof. destruct t; try reflexivity; destruct v; reflexivity. Qed.

Lemma nth_error_canon l l' i : map canon l = map canon l' ->
  match nth_error l i, nth_error l' i with
  | Some x, Some x' => canon x = canon x'
  | None, None => True
  | _, _ => False
  end.
Proof.
  intros H. pose proof (nth_error_map canon i l) as H1. pose proof (nth_error_map canon i l') as H2.
  rewrite H in H1. rewrite H1 in H2.
  destruct (nth_error l i), (nth_error l' i); simpl in H2; try discriminate H2; [now injection H2 | exact I].
Qed.

Lemma get_path_canon : forall fuel t path v v', canon v = canon v' ->
  match get_path fuel t path v, get_path fuel t path v' with
  | Some x, Some x' => canon x = canon x'
  | None, None => True
  | _, _ => False
  end.
Proof.
  induction fuel as [| fuel IH]; intros t [| name rest] v v' H; try exact H; [exact I|].
  rewrite !get_path_step. pose proof (as_struct_canon v v' H) as Hs.
  destruct t; try exact I.
  destruct (as_struct v) as [vs|], (as_struct v') as [vs'|]; try contradiction; try exact I.
  destruct (field_index_exact name fs 0) as [i|]; [|exact I].
  destruct (nth_error fs i) as [[[n o] ft]|]; [|exact I].
  pose proof (nth_error_canon vs vs' i Hs) as Hn.
  destruct (nth_error vs i), (nth_error vs' i); try contradiction; try exact I.
  now apply IH.
Qed.

Lemma set_path_canon : forall fuel t path x x' v v', canon v = canon v' -> canon x = canon x' ->
  canon (set_path fuel t path x v) = canon (set_path fuel t path x' v').
Proof.
  induction fuel as [| fuel IH]; intros t [| name rest] x x' v v' H Hx; try exact H; try exact Hx.
  rewrite !set_path_step. pose proof (as_struct_canon v v' H) as Hs.
  destruct t; try exact H.
  destruct (as_struct v) as [vs|], (as_struct v') as [vs'|]; try contradiction; try exact H.
  destruct (field_index_exact name fs 0) as [i|]; [|exact H].
  destruct (nth_error fs i) as [[[n o] ft]|]; [|exact H].
  pose proof (nth_error_canon vs vs' i Hs) as Hn.
  destruct (nth_error vs i) as [fv|], (nth_error vs' i) as [fv'|]; try contradiction; try exact H.
  rewrite !canon_struct, !map_set_nth_val. f_equal. rewrite Hs. f_equal. now apply IH.
Qed.

(* ====================================================================== *)
(* loadAccount's post-processing respects canon                            *)
(* ====================================================================== *)
Definition clear_step (t : ty) (acc : val) (n : string) : val :=
  let p := ["nats"; "limits"; n] in
  match getp t p acc with
  | Some (VBool _) => setp t p (VBool false) acc
  | Some (VInt _) => setp t p (VInt 0) acc
  | _ => acc
  end.

Lemma clear_js_fold v : clear_js v = fold_left (clear_step sch_account) js_limit_names v.
Proof. reflexivity. Qed.

Lemma clear_step_canon t a a' n : canon a = canon a' -> canon (clear_step t a n) = canon (clear_step t a' n).
Proof.
  intros H. unfold clear_step, getp, setp.
  pose proof (get_path_canon 8 t ["nats"; "limits"; n] a a' H) as Hg.
  destruct (get_path 8 t ["nats"; "limits"; n] a) as [x|],
           (get_path 8 t ["nats"; "limits"; n] a') as [x'|]; try contradiction; [|exact H].
  destruct x as [b|z| | | | | |].
  - simpl in Hg. symmetry in Hg. apply canon_vbool_inv in Hg. subst x'. now apply set_path_canon.
  - simpl in Hg. symmetry in Hg. apply canon_vint_inv in Hg. subst x'. now apply set_path_canon.
  - simpl in Hg. symmetry in Hg. apply canon_vstr_inv in Hg. subst x'. exact H.
  - destruct x' as [b|z| | | | | |]; try exact H.
    + apply canon_vbool_inv in Hg. discriminate Hg.
    + apply canon_vint_inv in Hg. discriminate Hg.
  - destruct x' as [b|z| | | | | |]; try exact H.
    + apply canon_vbool_inv in Hg. discriminate Hg.
    + apply canon_vint_inv in Hg. discriminate Hg.
  - destruct x' as [b|z| | | | | |]; try exact H.
    + apply canon_vbool_inv in Hg. discriminate Hg.
    + apply canon_vint_inv in Hg. discriminate Hg.
  - destruct x' as [b|z| | | | | |]; try exact H.
    + apply canon_vbool_inv in Hg. discriminate Hg.
    + apply canon_vint_inv in Hg. discriminate Hg.
  - destruct x' as [b|z| | | | | |]; try exact H.
    + apply canon_vbool_inv in Hg. discriminate Hg.
    + apply canon_vint_inv in Hg. discriminate Hg.
Qed.

Lemma clear_js_canon v v' : canon v = canon v' -> canon (clear_js v) = canon (clear_js v').
Proof.
  rewrite (clear_js_fold v), (clear_js_fold v'). revert v v'.
  induction js_limit_names as [| n r IH]; intros v v' H; [exact H|].
  cbn [fold_left]. apply IH. now apply clear_step_canon.
Qed.

(* a non-empty map, seen through canon *)
Definition nem (x : val) : bool := match x with VMap (Some (_ :: _)) => true | _ => false end.

Lemma nem_canon x : nem x = match canon x with VMap (Some _) => true | _ => false end.
Proof. destruct x as [| | |[[|]|]|[[|]|]|[|]| |[[]|]]; reflexivity. Qed.

Definition tiered_path : list string := ["nats"; "limits"; "tiered_limits"].

Lemma nem_match {A} (o : option val) (a b : A) :
  match o with Some (VMap (Some (_ :: _))) => a | _ => b end =
  match o with Some x => if nem x then a else b | None => b end.
Proof. destruct o as [[| | | |[[|]|]| | |]|]; reflexivity. Qed.

Lemma post_v2_account v :
  post_v2 KAccount v =
  match getp sch_account tiered_path v with
  | Some x => if nem x then clear_js v else v
  | None => v
  end.
Proof. exact (nem_match (getp sch_account tiered_path v) (clear_js v) v). Qed.

Lemma k1_guard_account v :
  k1_guard KAccount v =
  match getp sch_account tiered_path v with
  | Some x => if nem x then val_eqb (clear_js v) v else true
  | None => true
  end.
Proof. exact (nem_match (getp sch_account tiered_path v) (val_eqb (clear_js v) v) true). Qed.

Lemma post_v2_account_canon v v' :
  canon v' = canon v -> k1_guard KAccount v = true -> canon (post_v2 KAccount v') = canon v.
Proof.
  intros Hc Hg. rewrite post_v2_account. rewrite k1_guard_account in Hg.
  pose proof (get_path_canon 8 sch_account tiered_path v' v Hc) as Hp. fold (getp sch_account tiered_path v') in Hp.
  fold (getp sch_account tiered_path v) in Hp.
  destruct (getp sch_account tiered_path v') as [x'|], (getp sch_account tiered_path v) as [x|];
    try contradiction; [|exact Hc].
  rewrite (nem_canon x'), Hp, <- (nem_canon x).
  destruct (nem x); [|exact Hc].
  apply val_eqb_eq in Hg. rewrite (clear_js_canon v' v Hc). now rewrite Hg.
Qed.

(* ====================================================================== *)
(* loadAccount's preset (the pre-made signing-key map) is compatible        *)
(* ====================================================================== *)
Lemma omit_fields_set_nth fs : forall vs v0s i n o ft fv x,
  omit_fields fs vs v0s = true -> nth_error fs i = Some (n, o, ft) -> nth_error vs i = Some fv ->
  (if o && is_empty fv then val_eqb (canon x) (canon fv) else omit_ok ft fv x) = true ->
  omit_fields fs vs (set_nth_val i x v0s) = true.
Proof.
  induction fs as [| [[n0 o0] ft0] fr IH]; intros [| fv0 vr] [| f00 v0r] [|i] n o ft fv x H Hf Hv Hx;
    simpl in H, Hf, Hv; try discriminate.
  - injection Hf as -> -> ->. injection Hv as ->.
    apply andb_true_iff in H as [_ H2]. simpl. now rewrite Hx, H2.
  - apply andb_true_iff in H as [H1 H2]. simpl. rewrite H1. simpl.
    eapply IH; eassumption.
Qed.

Definition is_keyset (t : ty) : bool := match t with TKeySet _ _ _ => true | _ => false end.

Lemma keyset_preset_ok t sk o : is_keyset t = true -> has_type t sk = true ->
  (if o && is_empty sk then val_eqb (canon (VMap (Some []))) (canon sk)
   else omit_ok t sk (VMap (Some []))) = true.
Proof.
  destruct t; try discriminate. intros _ Ht.
  destruct sk as [| | | |[[|]|]| | |]; try discriminate Ht; destruct o; reflexivity.
Qed.

Lemma omit_ok_two_level t (cfs afs : list field) i1 i2 n1 n2 o2 skt v :
  t = TStruct cfs -> nth_error cfs i1 = Some (n1, true, TStruct afs) ->
  nth_error afs i2 = Some (n2, o2, skt) -> is_keyset skt = true ->
  wf_ty t = true -> has_type t v = true ->
  omit_ok t v (VStruct (set_nth_val i1 (VStruct (set_nth_val i2 (VMap (Some [])) (zero_fields afs)))
                                    (zero_fields cfs))) = true.
Proof.
  intros -> H1 H2 Hk Hw Ht.
  pose proof (zero_compatible _ _ Hw Ht) as Hz.
  destruct v as [| | | | | |vs|]; try discriminate Ht.
  rewrite zero_val_struct, omit_ok_struct in Hz. rewrite omit_ok_struct.
  rewrite has_type_struct in Ht. destruct (has_type_fields_nth _ _ Ht) as [Hlv Htn].
  rewrite wf_ty_struct in Hw. apply andb_true_iff in Hw as [_ Hw].
  pose proof (wf_fields_In cfs _ Hw (nth_error_In _ _ H1)) as Hwa.
  change (wf_ty (TStruct afs) = true) in Hwa.
  assert (L1 : (i1 < length vs)%nat) by (rewrite Hlv; apply nth_error_Some; rewrite H1; discriminate).
  destruct (nth_error_some_lt vs i1 L1) as [nv Hnv].
  pose proof (Htn i1 n1 true (TStruct afs) nv H1 Hnv) as Hta.
  eapply omit_fields_set_nth; try eassumption.
  destruct nv as [| | | | | |ns|]; try discriminate Hta. simpl andb. cbv iota.
  pose proof (zero_compatible _ _ Hwa Hta) as Hza.
  rewrite zero_val_struct, omit_ok_struct in Hza. rewrite omit_ok_struct.
  rewrite has_type_struct in Hta. destruct (has_type_fields_nth _ _ Hta) as [Hla Htna].
  assert (L2 : (i2 < length ns)%nat) by (rewrite Hla; apply nth_error_Some; rewrite H2; discriminate).
  destruct (nth_error_some_lt ns i2 L2) as [sk Hsk].
  eapply omit_fields_set_nth; try eassumption.
  apply keyset_preset_ok; [exact Hk|]. eapply Htna; eassumption.
Qed.

(* positions are computed from the generated schema, not written down *)
Definition idx_of (name : string) (t : ty) : nat :=
  match field_index_exact name (fields_of t) 0 with Some i => i | None => 0 end.
Definition type_at (i : nat) (t : ty) : ty :=
  match nth_error (fields_of t) i with Some (_, _, ft) => ft | None => TBool end.
Definition idx_nats : nat := idx_of "nats" sch_account.
Definition acct_ty : ty := type_at idx_nats sch_account.
Definition idx_sk : nat := idx_of "signing_keys" acct_ty.
Definition sk_ty : ty := type_at idx_sk acct_ty.

Lemma preset_v2_account :
  preset_v2 KAccount =
  VStruct (set_nth_val idx_nats
             (VStruct (set_nth_val idx_sk (VMap (Some [])) (zero_fields (fields_of acct_ty))))
             (zero_fields (fields_of sch_account))).
Proof. vm_compute. reflexivity. Qed.

Lemma preset_v2_ok k v :
  has_type (schema_of k) v = true -> omit_ok (schema_of k) v (preset_v2 k) = true.
Proof.
  intros Ht.
  assert (Hw : wf_ty (schema_of k) = true) by (destruct k; vm_compute; reflexivity).
  destruct k; try (apply zero_compatible; assumption).
  rewrite preset_v2_account.
  apply (omit_ok_two_level (schema_of KAccount) (fields_of sch_account) (fields_of acct_ty)
           idx_nats idx_sk "nats" "signing_keys" true sk_ty v).
  - vm_compute. reflexivity.
  - vm_compute. reflexivity.
  - vm_compute. reflexivity.
  - vm_compute. reflexivity.
  - exact Hw.
  - exact Ht.
Qed.

(* ====================================================================== *)
(* every kind round-trips through its version-2 loader                     *)
(* ====================================================================== *)
Lemma claims_roundtrip : forall (k : ckind) (v : val) (j : json),
  has_type (schema_of k) v = true -> scopes_ok (schema_of k) v = true -> k1_guard k v = true ->
  enc (schema_of k) v = Some j ->
  exists v', load_v2 k j = Some v' /\ canon v' = canon v.
Proof.
  intros k v j Ht Hs Hg He.
  destruct (codec_roundtrip (schema_of k) v (preset_v2 k) j (schema_of_wf' k) Ht Hs
              (preset_v2_ok k v Ht) He) as [v' [Hd Hc]].
  exists (post_v2 k v'). unfold load_v2. rewrite Hd. split; [reflexivity|].
  destruct k; try exact Hc.
  now apply post_v2_account_canon.
Qed.

(* ====================================================================== *)
(* K2: a scope template with a zero limit does not survive                 *)
(* ====================================================================== *)
Definition k2_scope : val :=
  VStruct [VInt 1; VStr "K"; VStr ""; zero_val (type_at (idx_of "template" sch_user_scope) sch_user_scope); VStr ""].
Definition k2_account : val :=
  setp sch_account ["nats"; "signing_keys"] (VMap (Some [("K", VPtr (Some k2_scope))])) (zero_val sch_account).

Lemma k2_refuted : exists (v : val) (j : json) (v' : val),
  has_type sch_account v = true /\ enc sch_account v = Some j /\
  load_v2 KAccount j = Some v' /\ canon v' <> canon v.
Proof.
  destruct (enc sch_account k2_account) as [j|] eqn:Ej; [|vm_compute in Ej; discriminate Ej].
  destruct (load_v2 KAccount j) as [v'|] eqn:El;
    [|vm_compute in Ej; injection Ej as <-; vm_compute in El; discriminate El].
  exists k2_account, j, v'. split; [vm_compute; reflexivity|]. split; [exact Ej|]. split; [exact El|].
  vm_compute in Ej. injection Ej as <-. vm_compute in El. injection El as <-.
  vm_compute. discriminate.
Qed.

Print Assumptions schemas_wf.
Print Assumptions claims_roundtrip.
Print Assumptions k2_refuted.
