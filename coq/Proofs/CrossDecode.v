(* Proofs/CrossDecode.v — one Go type WRITES a payload, a different Go type READS it.
   The version-2 decoder reads version-1 payloads into its own "shadow" structs,
   whose field types are the version-2 ones (more fields, a comma string read as a
   network list, an integer read as a sampling rate) and which start from presets.
   This file proves, for any writer schema [t] and reader schema [s] related by the
   decidable [rd s t] (evaluated on the schemas generated from the code), and any
   preset [v0] of the right shape:  dec s (enc t v) v0 succeeds, and the result
   agrees with [v] ([ag]): member by member for structs (a member the writer omits
   or lacks keeps the preset), element by element for lists, through pointers, and
   up to [canon] at leaves of one and the same type. *)
From JWT Require Import Base.Codec Proofs.Codec Proofs.SubDecode.
From Coq Require Import Permutation Lia.
Open Scope string_scope.
Open Scope Z_scope.

(* ---------- equality of schemas (decidable) ---------- *)
Fixpoint tbl_eqb (a b : list (Z * string)) : bool :=
  match a, b with
  | [], [] => true
  | (x, s) :: r, (y, s') :: r' => (x =? y) && (s =? s')%string && tbl_eqb r r'
  | _, _ => false
  end.
Fixpoint ty_eqb (a b : ty) {struct a} : bool :=
  match a, b with
  | TBool, TBool | TStr, TStr | TAny, TAny | TSampling, TSampling | TCidr, TCidr => true
  | TInt lo hi, TInt lo' hi' => (lo =? lo') && (hi =? hi')
  | TList x, TList y | TMap x, TMap y | TPtr x, TPtr y => ty_eqb x y
  | TStruct fs, TStruct gs =>
      (fix go (fs gs : list (string * bool * ty)) : bool :=
         match fs, gs with
         | [], [] => true
         | (n, o, x) :: r, (n', o', y) :: r' => (n =? n')%string && Bool.eqb o o' && ty_eqb x y && go r r'
         | _, _ => false
         end) fs gs
  | TEnum x, TEnum y => tbl_eqb x y
  | TKeySet x p i, TKeySet y q j => ty_eqb x y && val_eqb p q && Nat.eqb i j
  | _, _ => false
  end.

Lemma tbl_eqb_eq : forall a b, tbl_eqb a b = true -> a = b.
Proof.
  induction a as [| [x s] r IH]; intros [| [y s'] r'] H; simpl in H; try discriminate; [reflexivity|].
  apply andb_true_iff in H as [H H3]. apply andb_true_iff in H as [H1 H2].
  apply Z.eqb_eq in H1. apply String.eqb_eq in H2. subst. f_equal. now apply IH.
Qed.

Lemma ty_eqb_eq : forall a b, ty_eqb a b = true -> a = b.
Proof.
  induction a using ty_ind'; intros b Hb; destruct b; simpl in Hb; try discriminate Hb; try reflexivity.
  - apply andb_true_iff in Hb as [H1 H2]. apply Z.eqb_eq in H1, H2. now subst.
  - f_equal. now apply IHa.
  - f_equal. now apply IHa.
  - f_equal. now apply IHa.
  - f_equal. revert fs0 Hb. induction H as [| [[n o] x] r Hx Hr IH]; intros [| [[n' o'] y] r'] Hb; try discriminate Hb; [reflexivity|].
    apply andb_true_iff in Hb as [Hb H4]. apply andb_true_iff in Hb as [Hb H3]. apply andb_true_iff in Hb as [H1 H2].
    apply String.eqb_eq in H1. apply Bool.eqb_prop in H2. subst. simpl in Hx. rewrite (Hx y H3). f_equal. now apply IH.
  - f_equal. now apply tbl_eqb_eq.
  - apply andb_true_iff in Hb as [Hb H3]. apply andb_true_iff in Hb as [H1 H2].
    apply Nat.eqb_eq in H3. apply val_eqb_eq in H2. rewrite (IHa b H1). now subst.
Qed.

(* ---------- the reader / writer relation ---------- *)
Definition tfld (n : string) (ft : list field) : option (bool * ty) :=
  match field_index_exact n ft 0 with
  | Some k => match nth_error ft k with Some f => Some (snd (fst f), snd f) | None => None end
  | None => None
  end.

(* leaves of one and the same type: decoding gives the written value back up to canon *)
Definition leaf_same (s t : ty) : bool :=
  ty_eqb s t &&
  match s with
  | TBool | TStr | TInt _ _ | TAny | TEnum _ | TSampling | TCidr | TMap _ | TKeySet _ _ _ => true
  | _ => false
  end.

Fixpoint rd (s t : ty) {struct s} : bool :=
  match s with
  | TStruct fs =>
      match t with
      | TStruct ft =>
          names_nodup (map fname fs) && fold_compat fs ft &&
          (fix go (l : list field) : bool :=
             match l with
             | [] => true
             | (n, _, st) :: r => match tfld n ft with None => true | Some (_, tq) => rd st tq end && go r
             end) fs
      | _ => false
      end
  | TList s' => match t with TList t' => rd s' t' | _ => false end
  | TPtr s' => match t with
               | TPtr t' => match s', t' with TStruct _, TStruct _ => rd s' t' | _, _ => false end
               | _ => false
               end
  | TSampling => match t with
                 | TInt lo hi => (-9223372036854775808 <=? lo) && (hi <=? 9223372036854775807)
                 | _ => leaf_same s t
                 end
  | TCidr => match t with TStr => true | _ => leaf_same s t end
  | TInt lo hi => match t with TInt lo' hi' => (lo <=? lo') && (hi' <=? hi) | _ => false end
  | TStr => match t with TEnum _ => true | _ => leaf_same s t end      (* the quoted name of an enum read as a string *)
  | _ => leaf_same s t
  end.

Fixpoint rd_fields (ft : list field) (l : list field) : bool :=
  match l with
  | [] => true
  | (n, _, st) :: r => match tfld n ft with None => true | Some (_, tq) => rd st tq end && rd_fields ft r
  end.
Lemma rd_struct fs ft :
  rd (TStruct fs) (TStruct ft) = names_nodup (map fname fs) && fold_compat fs ft && rd_fields ft fs.
Proof.
  cbn [rd]. f_equal.
  induction fs as [| [[n o] st] r IH]; try reflexivity; cbn [rd_fields]; now rewrite <- IH.
Qed.

(* ---------- presets: what the reader decodes INTO ---------- *)
Fixpoint pre_ok (s : ty) (v0 : val) {struct s} : bool :=
  match s with
  | TStruct fs =>
      match v0 with
      | VStruct v0s =>
          (fix go (l : list field) (v0s : list val) : bool :=
             match l, v0s with
             | [], [] => true
             | (_, _, st) :: r, f0 :: r0 => pre_ok st f0 && go r r0
             | _, _ => false
             end) fs v0s
      | _ => false
      end
  | TPtr s' => match v0 with VPtr None => true | VPtr (Some x) => pre_ok s' x | _ => false end
  | TMap _ | TKeySet _ _ _ => match v0 with VMap None | VMap (Some []) => true | _ => false end
  | _ => true
  end.
Fixpoint pre_fields (l : list field) (v0s : list val) : bool :=
  match l, v0s with
  | [], [] => true
  | (_, _, st) :: r, f0 :: r0 => pre_ok st f0 && pre_fields r r0
  | _, _ => false
  end.
Lemma pre_struct fs v0s : pre_ok (TStruct fs) (VStruct v0s) = pre_fields fs v0s.
Proof.
  cbn [pre_ok]. revert v0s. induction fs as [| [[n o] st] r IH]; intros [| f0 r0]; try reflexivity;
    cbn [pre_fields]; now rewrite <- IH.
Qed.

Lemma pre_ok_zero : forall s, pre_ok s (zero_val s) = true.
Proof.
  induction s using ty_ind'; try reflexivity.
  rewrite zero_val_struct, pre_struct.
  induction H as [| [[n o] st] r Hx Hr IH]; [reflexivity|]. cbn [zero_fields pre_fields]. simpl in Hx. now rewrite Hx, IH.
Qed.

Lemma pre_fields_nth : forall (l : list field) v0s i n o st f0,
  pre_fields l v0s = true -> nth_error l i = Some (n, o, st) -> nth_error v0s i = Some f0 -> pre_ok st f0 = true.
Proof.
  induction l as [| [[n0 o0] st0] r IH]; intros [| g0 r0] [|i] n o st f0 H Hn H0; simpl in H, Hn, H0; try discriminate.
  - injection Hn as -> -> ->. injection H0 as ->. now apply andb_true_iff in H as [H _].
  - apply andb_true_iff in H as [_ H]. eapply IH; eassumption.
Qed.
Lemma pre_fields_length : forall (l : list field) v0s, pre_fields l v0s = true -> length v0s = length l.
Proof.
  induction l as [| [[n0 o0] st0] r IH]; intros [| g0 r0] H; simpl in H; try discriminate; [reflexivity|].
  apply andb_true_iff in H as [_ H]. simpl. f_equal. now apply IH.
Qed.

(* ---------- what the decoded value has to do with the written one ---------- *)
Fixpoint ag (s t : ty) (v0 w v : val) {struct s} : Prop :=
  match s with
  | TStruct fs =>
      match t, v0, w, v with
      | TStruct ft, VStruct v0s, VStruct ws, VStruct vs =>
          (fix go (l : list field) (v0s ws : list val) : Prop :=
             match l, v0s, ws with
             | [], [], [] => True
             | (n, _, st) :: r, f0 :: r0, wi :: wr =>
                 match tfld n ft, tval n ft vs with
                 | Some (ot, tq), Some vk => if ot && is_empty vk then wi = f0 else ag st tq f0 wi vk
                 | Some _, None => False
                 | None, _ => wi = f0
                 end /\ go r r0 wr
             | _, _, _ => False
             end) fs v0s ws
      | _, _, _, _ => False
      end
  | TList s' =>
      match t, w, v with
      | TList t', VList None, VList None => True
      | TList t', VList (Some ws), VList (Some vs) =>
          (fix go (ws vs : list val) : Prop :=
             match ws, vs with
             | [], [] => True
             | wi :: wr, vi :: vr => ag s' t' (zero_val s') wi vi /\ go wr vr
             | _, _ => False
             end) ws vs
      | _, _, _ => False
      end
  | TPtr s' =>
      match t, w, v with
      | TPtr t', VPtr None, VPtr None => True
      | TPtr t', VPtr (Some wx), VPtr (Some vx) =>
          ag s' t' (match v0 with VPtr (Some x0) => x0 | _ => zero_val s' end) wx vx
      | _, _, _ => False
      end
  | TCidr =>
      match t with
      | TStr => exists x, v = VStr x /\ w = VList (Some (map VStr (cidr_set_list x)))
      | _ => canon w = canon v
      end
  | TSampling => match t with TInt _ _ => w = v | _ => canon w = canon v end
  | TInt _ _ => w = v
  | TStr => match t with
            | TEnum tbl => exists z name, v = VInt z /\ zassoc z tbl = Some name /\ w = VStr name
            | _ => canon w = canon v
            end
  | _ => canon w = canon v
  end.

Definition fld_ag (ag' : ty -> ty -> val -> val -> val -> Prop) (ft : list field) (vs : list val)
                  (n : string) (st : ty) (f0 wi : val) : Prop :=
  match tfld n ft, tval n ft vs with
  | Some (ot, tq), Some vk => if ot && is_empty vk then wi = f0 else ag' st tq f0 wi vk
  | Some _, None => False
  | None, _ => wi = f0
  end.
Fixpoint ag_fields (ft : list field) (vs : list val) (l : list field) (v0s ws : list val) : Prop :=
  match l, v0s, ws with
  | [], [], [] => True
  | (n, _, st) :: r, f0 :: r0, wi :: wr => fld_ag ag ft vs n st f0 wi /\ ag_fields ft vs r r0 wr
  | _, _, _ => False
  end.
Lemma ag_struct fs ft v0s ws vs :
  ag (TStruct fs) (TStruct ft) (VStruct v0s) (VStruct ws) (VStruct vs) = ag_fields ft vs fs v0s ws.
Proof.
  cbn [ag]. revert v0s ws.
  induction fs as [| [[n o] st] r IH]; intros [| f0 r0] [| wi wr]; try reflexivity;
    cbn [ag_fields]; unfold fld_ag; now rewrite <- IH.
Qed.
Fixpoint ag_list (s' t' : ty) (ws vs : list val) : Prop :=
  match ws, vs with
  | [], [] => True
  | wi :: wr, vi :: vr => ag s' t' (zero_val s') wi vi /\ ag_list s' t' wr vr
  | _, _ => False
  end.
Lemma ag_list_eq s' t' v0 ws vs :
  ag (TList s') (TList t') v0 (VList (Some ws)) (VList (Some vs)) = ag_list s' t' ws vs.
Proof.
  cbn [ag]. revert vs. induction ws as [| wi wr IH]; intros [| vi vr]; try reflexivity;
    cbn [ag_list]; now rewrite <- IH.
Qed.

(* ---------- what is assumed of the writer's schema and value ---------- *)
Definition W (t : ty) (v : val) : bool :=
  wf_ty t && enums_ok t && keyset_kind_ok t && has_type t v && scopes_ok t v.
Lemma W_inv t v : W t v = true ->
  wf_ty t = true /\ enums_ok t = true /\ keyset_kind_ok t = true /\ has_type t v = true /\ scopes_ok t v = true.
Proof. unfold W. intros H. repeat (apply andb_true_iff in H as [H ?]). auto. Qed.
Lemma W_intro t v :
  wf_ty t = true -> enums_ok t = true -> keyset_kind_ok t = true -> has_type t v = true -> scopes_ok t v = true ->
  W t v = true.
Proof. unfold W. intros -> -> -> -> ->. reflexivity. Qed.

Lemma W_rt t v v0 j : W t v = true -> omit_ok t v v0 = true -> enc t v = Some j ->
  exists w, dec t j v0 = Some w /\ canon w = canon v.
Proof.
  intros Hw Ho He. destruct (W_inv t v Hw) as (H1 & H2 & H3 & H4 & H5).
  exact (proj1 (codec_main t) v v0 j H1 H2 H3 H4 H5 Ho He).
Qed.

Lemma W_struct_nth ft vs k n o tq vk :
  W (TStruct ft) (VStruct vs) = true -> nth_error ft k = Some (n, o, tq) -> nth_error vs k = Some vk ->
  W tq vk = true.
Proof.
  intros Hw Hk Hv. destruct (W_inv _ _ Hw) as (H1 & H2 & H3 & H4 & H5).
  rewrite wf_ty_struct in H1. apply andb_true_iff in H1 as [_ H1].
  rewrite enums_ok_struct in H2. rewrite keyset_kind_ok_struct in H3.
  rewrite has_type_struct in H4. rewrite scopes_ok_struct in H5.
  pose proof (nth_error_In _ _ Hk) as Hin.
  apply W_intro.
  - exact (wf_fields_In ft (n, o, tq) H1 Hin).
  - exact (enum_fields_ok_In enums_ok ft (n, o, tq) H2 Hin).
  - exact (enum_fields_ok_In keyset_kind_ok ft (n, o, tq) H3 Hin).
  - exact (proj2 (has_type_fields_nth ft vs H4) k n o tq vk Hk Hv).
  - exact (scopes_fields_nth ft vs H5 k n o tq vk Hk Hv).
Qed.

Lemma W_list_cons t' x l : W (TList t') (VList (Some (x :: l))) = true ->
  W t' x = true /\ W (TList t') (VList (Some l)) = true.
Proof.
  intros Hw. destruct (W_inv _ _ Hw) as (H1 & H2 & H3 & H4 & H5).
  simpl in H1, H2, H3, H4, H5.
  apply andb_true_iff in H4 as [H4 H4']. apply andb_true_iff in H5 as [H5 H5'].
  split; apply W_intro; assumption.
Qed.

Lemma W_ptr t' x : W (TPtr t') (VPtr (Some x)) = true -> W t' x = true.
Proof.
  intros Hw. destruct (W_inv _ _ Hw) as (H1 & H2 & H3 & H4 & H5).
  simpl in H1, H2, H3, H4, H5. destruct t'; try discriminate H1.
  apply W_intro; assumption.
Qed.

(* leaves of one type: the preset does not disturb the round trip *)
Lemma leaf_omit s v v0 :
  match s with
  | TBool | TStr | TInt _ _ | TAny | TEnum _ | TSampling | TCidr | TMap _ | TKeySet _ _ _ => true
  | _ => false
  end = true -> pre_ok s v0 = true -> omit_ok s v v0 = true.
Proof. destruct s; intros Hc Hp; try discriminate Hc; try reflexivity; simpl in Hp |- *; exact Hp. Qed.

Lemma leaf_case s t v0 v j :
  leaf_same s t = true -> pre_ok s v0 = true -> W t v = true -> enc t v = Some j ->
  exists w, dec s j v0 = Some w /\ canon w = canon v.
Proof.
  unfold leaf_same. intros Hl Hp Hw He. apply andb_true_iff in Hl as [He1 Hc].
  apply ty_eqb_eq in He1. subst t.
  apply (W_rt s v v0 j Hw (leaf_omit s v v0 Hc Hp) He).
Qed.

(* ====================================================================== *)
(* the theorem                                                             *)
(* ====================================================================== *)
Definition CD (s : ty) : Prop := forall t v0 v j,
  rd s t = true -> pre_ok s v0 = true -> W t v = true -> enc t v = Some j ->
  exists w, dec s j v0 = Some w /\ ag s t v0 w v.

Section StructCase.
  Variables (fs ft : list field) (v0s vs : list val).
  Hypothesis IHf : Forall (fun f : field => CD (snd f)) fs.
  Hypothesis Hnds : NoDup (map fname fs).
  Hypothesis Hndt : NoDup (map fname ft).
  Hypothesis Hfc : fold_compat fs ft = true.
  Hypothesis Hrd : rd_fields ft fs = true.
  Hypothesis Hpre : pre_fields fs v0s = true.
  Hypothesis HW : W (TStruct ft) (VStruct vs) = true.

  Definition fag (n : string) (st : ty) (f0 c : val) : Prop := fld_ag ag ft vs n st f0 c.

  (* fields whose member is still to come hold the preset; the others agree *)
  Definition cinv (rest : list (string * json)) (cur : list val) : Prop :=
    length cur = length fs /\
    forall i n o st f0 c, nth_error fs i = Some (n, o, st) -> nth_error v0s i = Some f0 -> nth_error cur i = Some c ->
      (In n (map fst rest) /\ c = f0) \/ (~ In n (map fst rest) /\ fag n st f0 c).

  Lemma rd_fields_nth : forall (l : list field) i n o st,
    rd_fields ft l = true -> nth_error l i = Some (n, o, st) ->
    match tfld n ft with None => True | Some (_, tq) => rd st tq = true end.
  Proof.
    induction l as [| [[n0 o0] st0] r IH]; intros [|i] n o st H Hn; simpl in Hn; try discriminate.
    - injection Hn as -> -> ->. simpl in H. apply andb_true_iff in H as [H _].
      destruct (tfld n ft) as [[ot tq]|]; [exact H | exact I].
    - simpl in H. apply andb_true_iff in H as [_ H]. eapply IH; eassumption.
  Qed.

  Lemma tfld_nth k n o tq : nth_error ft k = Some (n, o, tq) -> tfld n ft = Some (o, tq).
  Proof.
    intros Hk. unfold tfld. rewrite (field_index_exact_nth ft k 0 n o tq Hndt Hk). simpl.
    unfold field in *. now rewrite Hk.
  Qed.

  Lemma fold_cross : forall ms cur,
    NoDup (map fst ms) ->
    (forall n j, In (n, j) ms ->
       exists k o tq vk, nth_error ft k = Some (n, o, tq) /\ nth_error vs k = Some vk /\
                         o && is_empty vk = false /\ enc tq vk = Some j) ->
    cinv ms cur ->
    exists res, fold_left (sstep fs) ms (Some cur) = Some res /\ cinv [] res.
  Proof.
    induction ms as [| [n j] ms' IH]; intros cur Hnd Hm Hinv.
    - exists cur. split; [reflexivity | exact Hinv].
    - simpl in Hnd. inversion Hnd as [| ? ? Hnot Hnd']; subst.
      destruct (Hm n j (or_introl eq_refl)) as [k [o [tq [vk [Hk [Hvk [Hoe Hej]]]]]]].
      assert (Hin_t : In n (map fname ft)).
      { apply in_map_iff. exists (n, o, tq). split; [reflexivity|]. eapply nth_error_In; eassumption. }
      pose proof (proj1 (forallb_forall _ _) Hfc n Hin_t) as Hc. cbv beta in Hc.
      destruct Hinv as [Hlen Hinv].
      cbn [fold_left].
      destruct (field_index_exact n fs 0) as [i|] eqn:Ex.
      + destruct (field_index n fs) as [a|] eqn:Ea; [|discriminate Hc].
        apply Nat.eqb_eq in Hc. subst a.
        destruct (field_index_exact_some fs 0 n i Ex) as [_ [o' [st Hfi]]]. rewrite Nat.sub_0_r in Hfi.
        assert (Li : (i < length cur)%nat) by (rewrite Hlen; exact (nth_error_lt _ _ _ Hfi)).
        destruct (nth_error_some_lt cur i Li) as [c Hci].
        assert (L0 : (i < length v0s)%nat) by (rewrite (pre_fields_length fs v0s Hpre); exact (nth_error_lt _ _ _ Hfi)).
        destruct (nth_error_some_lt v0s i L0) as [f0 Hf0].
        assert (Ec : c = f0).
        { destruct (Hinv i n o' st f0 c Hfi Hf0 Hci) as [[_ H]|[H _]]; [exact H|]. exfalso. apply H. now left. }
        subst c.
        pose proof (rd_fields_nth fs i n o' st Hrd Hfi) as Hs. rewrite (tfld_nth k n o tq Hk) in Hs.
        assert (Hcd : CD st).
        { rewrite Forall_forall in IHf. apply (IHf (n, o', st)). eapply nth_error_In; eassumption. }
        destruct (Hcd tq f0 vk j Hs (pre_fields_nth fs v0s i n o' st f0 Hpre Hfi Hf0)
                    (W_struct_nth ft vs k n o tq vk HW Hk Hvk) Hej) as [x [Hdx Hax]].
        assert (Estep : sstep fs (Some cur) (n, j) = Some (set_nth_val i x cur)).
        { unfold sstep. simpl fst. simpl snd. rewrite Ea.
          rewrite (find_at_spec i j cur fs 0%nat i n o' st Hfi eq_refl).
          rewrite (nth_error_nth' cur i f0 (zero_val st) Hci). now rewrite Hdx. }
        rewrite Estep. apply IH; [exact Hnd' | intros n' j' Hin; apply Hm; now right |].
        split; [now rewrite set_nth_val_length|].
        intros i' n' o'' st' f0' c' Hf' H0' Hc'.
        destruct (Nat.eq_dec i i') as [<-|Hne].
        * assert (E : Some (n, o', st) = Some (n', o'', st')) by (exact (eq_trans (eq_sym Hfi) Hf')).
          injection E as <- <- <-.
          assert (E0 : Some f0 = Some f0') by (exact (eq_trans (eq_sym Hf0) H0')). injection E0 as <-.
          rewrite set_nth_val_same in Hc' by lia. injection Hc' as <-.
          right. split; [exact Hnot|]. unfold fag, fld_ag.
          rewrite (tfld_nth k n o tq Hk), (tval_nth ft vs k n o tq Hndt Hk), Hvk, Hoe. exact Hax.
        * rewrite set_nth_val_other in Hc' by exact Hne.
          assert (Hnn : n' <> n).
          { intros ->. apply Hne. eapply (fname_inj fs i i'); try eassumption. reflexivity. }
          destruct (Hinv i' n' o'' st' f0' c' Hf' H0' Hc') as [[Hin He]|[Hin He]].
          -- left. split; [|exact He]. simpl in Hin. destruct Hin as [Hin|Hin]; [congruence | exact Hin].
          -- right. split; [|exact He]. intros Hin'. apply Hin. now right.
      + destruct (field_index n fs) as [a|] eqn:Ea; [discriminate Hc|].
        assert (Estep : sstep fs (Some cur) (n, j) = Some cur).
        { unfold sstep. simpl fst. simpl snd. rewrite Ea. apply find_at_beyond. simpl. lia. }
        rewrite Estep. apply IH; [exact Hnd' | intros n' j' Hin; apply Hm; now right |].
        split; [exact Hlen|].
        intros i' n' o'' st' f0' c' Hf' H0' Hc'.
        assert (Hnn : n' <> n).
        { intros ->. apply (field_index_exact_none fs 0 n Ex).
          apply in_map_iff. exists (n, o'', st'). split; [reflexivity|]. eapply nth_error_In; eassumption. }
        destruct (Hinv i' n' o'' st' f0' c' Hf' H0' Hc') as [[Hin He]|[Hin He]].
        * left. split; [|exact He]. simpl in Hin. destruct Hin as [Hin|Hin]; [congruence | exact Hin].
        * right. split; [|exact He]. intros Hin'. apply Hin. now right.
  Qed.
End StructCase.

Lemma ag_fields_build ft vs : forall (l : list field) v0s ws,
  length ws = length l -> length v0s = length l ->
  (forall i n o st f0 wi, nth_error l i = Some (n, o, st) -> nth_error v0s i = Some f0 -> nth_error ws i = Some wi ->
     fld_ag ag ft vs n st f0 wi) ->
  ag_fields ft vs l v0s ws.
Proof.
  induction l as [| [[n0 o0] st0] r IH]; intros [| f0 r0] [| w0 wr] Hl H0 H; simpl in Hl, H0; try discriminate;
    simpl; [exact I|].
  split.
  - apply (H 0%nat n0 o0 st0 f0 w0); reflexivity.
  - apply IH; [lia | lia |]. intros i n o st g0 wi Hn Hg Hw. apply (H (S i) n o st g0 wi); assumption.
Qed.

Theorem cross_decode : forall s, CD s.
Proof.
  induction s using ty_ind'; unfold CD; intros t v0 v j Hr Hp Hw He.
  - (* TBool *) destruct (leaf_case TBool t v0 v j Hr Hp Hw He) as [w [Hd Hc]]. exists w. split; [exact Hd | exact Hc].
  - (* TInt *)
    cbn [rd] in Hr. destruct t; try discriminate Hr.
    destruct (W_inv _ _ Hw) as (_ & _ & _ & Ht & _). destruct v; try discriminate Ht.
    simpl in He. injection He as <-. simpl in Ht.
    apply andb_true_iff in Hr as [H1 H2]. apply andb_true_iff in Ht as [H3 H4].
    exists (VInt z). split; [|reflexivity]. simpl.
    replace ((lo <=? z) && (z <=? hi)) with true; [reflexivity|]. symmetry. apply andb_true_iff. split; lia.
  - (* TStr *)
    cbn [rd] in Hr. destruct t; try (destruct (leaf_case TStr _ v0 v j Hr Hp Hw He) as [w [Hd Hc]]; exists w; split; [exact Hd | exact Hc]).
    destruct (W_inv _ _ Hw) as (_ & _ & _ & Ht & _). destruct v; try discriminate Ht.
    simpl in He. destruct (zassoc z tbl) as [name|] eqn:Ez; [|discriminate He]. injection He as <-.
    exists (VStr name). split; [reflexivity|]. exists z, name. repeat split. exact Ez.
  - (* TList *)
    cbn [rd] in Hr. destruct t as [| | | t' | | | | | | | | |]; try discriminate Hr.
    destruct (W_inv _ _ Hw) as (_ & _ & _ & Ht & _).
    destruct v as [| | | [l|] | | | |]; try discriminate Ht.
    + change (enc (TList t') (VList (Some l))) with (option_map JArr (map_opt (enc t') l)) in He.
      destruct (map_opt (enc t') l) as [js|] eqn:Ej; [|discriminate He]. injection He as <-.
      assert (X : exists ws, map_opt (fun e => dec s e (zero_val s)) js = Some ws /\ ag_list s t' ws l).
      { clear Ht. revert js Ej Hw. induction l as [| x r IHl]; intros js Ej Hw.
        - cbn [map_opt] in Ej. injection Ej as <-. exists []. split; [reflexivity | exact I].
        - cbn [map_opt] in Ej. destruct (enc t' x) as [jx|] eqn:Ex; [|discriminate Ej].
          destruct (map_opt (enc t') r) as [jr|] eqn:Er; [|discriminate Ej]. injection Ej as <-.
          destruct (W_list_cons t' x r Hw) as [Hwx Hwr].
          destruct (IHs t' (zero_val s) x jx Hr (pre_ok_zero s) Hwx Ex) as [wx [Hdx Hax]].
          destruct (IHl jr eq_refl Hwr) as [wr [Hdr Har]].
          exists (wx :: wr). split; [cbn [map_opt]; now rewrite Hdx, Hdr | split; assumption]. }
      destruct X as [ws [Hws Hag]]. exists (VList (Some ws)). split.
      * change (dec (TList s) (JArr js) v0) with (option_map (fun x => VList (Some x)) (map_opt (fun e => dec s e (zero_val s)) js)).
        now rewrite Hws.
      * rewrite ag_list_eq. exact Hag.
    + simpl in He. injection He as <-. exists (VList None). split; [reflexivity | exact I].
  - (* TMap *) destruct (leaf_case (TMap s) t v0 v j Hr Hp Hw He) as [w [Hd Hc]]. exists w. split; [exact Hd | exact Hc].
  - (* TPtr *)
    cbn [rd] in Hr. destruct t as [| | | | | t' | | | | | | |]; try discriminate Hr.
    destruct s as [| | | | | | fs | | | | | |]; try discriminate Hr.
    destruct t' as [| | | | | | ft | | | | | |]; try discriminate Hr.
    destruct (W_inv _ _ Hw) as (_ & _ & _ & Ht & _).
    destruct v as [| | | | | [x|] | |]; try discriminate Ht.
    + change (enc (TPtr (TStruct ft)) (VPtr (Some x))) with (enc (TStruct ft) x) in He.
      destruct (enc_struct_obj ft x j He) as [ms ->].
      set (x0 := match v0 with VPtr (Some y) => y | _ => zero_val (TStruct fs) end).
      assert (Hp0 : pre_ok (TStruct fs) x0 = true).
      { unfold x0. destruct v0 as [| | | | | [y|] | |]; try apply pre_ok_zero. exact Hp. }
      destruct (IHs (TStruct ft) x0 x (JObj ms) Hr Hp0 (W_ptr _ _ Hw) He) as [wx [Hdx Hax]].
      exists (VPtr (Some wx)). split; [|exact Hax].
      change (dec (TPtr (TStruct fs)) (JObj ms) v0) with (option_map (fun y => VPtr (Some y)) (dec (TStruct fs) (JObj ms) x0)).
      now rewrite Hdx.
    + simpl in He. injection He as <-. exists (VPtr None). split; [reflexivity | exact I].
  - (* TStruct *)
    destruct t as [| | | | | | ft | | | | | |]; try (cbn [rd] in Hr; discriminate Hr).
    rewrite rd_struct in Hr. apply andb_true_iff in Hr as [Hr Hrf]. apply andb_true_iff in Hr as [Hnn Hfc].
    destruct (W_inv _ _ Hw) as (Hwf & _ & _ & Ht & _).
    destruct v as [| | | | | | vs |]; try discriminate Ht.
    destruct v0 as [| | | | | | v0s |]; try discriminate Hp.
    rewrite pre_struct in Hp.
    rewrite wf_ty_struct in Hwf. apply andb_true_iff in Hwf as [Hwn _].
    rewrite has_type_struct in Ht. rewrite enc_struct in He.
    destruct (enc_fields ft vs) as [ms|] eqn:Ems; [|discriminate He]. injection He as <-.
    pose proof (names_nodup_NoDup _ Hnn) as Hnds. pose proof (names_nodup_NoDup _ Hwn) as Hndt.
    rewrite dec_struct_obj.
    destruct (fold_cross fs ft v0s vs H Hnds Hndt Hfc Hrf Hp Hw ms v0s) as [res [Hres [Hlr Hir]]].
    + eapply enc_fields_nodup; eassumption.
    + intros n j Hin. destruct (enc_fields_members ft vs ms Ems n j Hin) as [k [o [tq [vk [H1 [H2 [H3 H4]]]]]]].
      exists k, o, tq, vk. auto.
    + split; [apply (pre_fields_length fs v0s Hp)|].
      intros i n o st f0 c Hf H0 Hc.
      assert (E0 : Some f0 = Some c) by (exact (eq_trans (eq_sym H0) Hc)). injection E0 as <-.
      destruct (in_dec string_dec n (map fst ms)) as [Hin|Hin]; [left; now split|].
      right. split; [exact Hin|]. unfold fag, fld_ag.
      destruct (tfld n ft) as [[ot tq]|] eqn:Etf; [|reflexivity].
      unfold tfld in Etf. unfold tval.
      destruct (field_index_exact n ft 0) as [k|] eqn:Ek; [|discriminate Etf].
      destruct (field_index_exact_some ft 0 n k Ek) as [_ [o' [tq' Hk]]]. rewrite Nat.sub_0_r in Hk.
      unfold field in *. rewrite Hk in Etf. simpl in Etf. injection Etf as <- <-.
      assert (Lk : (k < length vs)%nat).
      { rewrite (enc_fields_length ft vs ms Ems). exact (nth_error_lt _ _ _ Hk). }
      destruct (nth_error_some_lt vs k Lk) as [vk Hvk]. rewrite Hvk.
      destruct (o' && is_empty vk) eqn:Eo; [reflexivity|].
      exfalso. apply Hin. eapply enc_fields_cover; eassumption.
    + rewrite Hres. exists (VStruct res). split; [reflexivity|].
      rewrite ag_struct. apply ag_fields_build; [exact Hlr | apply (pre_fields_length fs v0s Hp) |].
      intros i n o st f0 wi Hn H0 Hwi. destruct (Hir i n o st f0 wi Hn H0 Hwi) as [[[] _]|[_ Ha]]. exact Ha.
  - (* TAny *) destruct (leaf_case TAny t v0 v j Hr Hp Hw He) as [w [Hd Hc]]. exists w. split; [exact Hd | exact Hc].
  - (* TEnum *) destruct (leaf_case (TEnum tbl) t v0 v j Hr Hp Hw He) as [w [Hd Hc]]. exists w. split; [exact Hd | exact Hc].
  - (* TSampling *)
    cbn [rd] in Hr. destruct t; try (destruct (leaf_case TSampling _ v0 v j Hr Hp Hw He) as [w [Hd Hc]]; exists w; split; [exact Hd | exact Hc]).
    destruct (W_inv _ _ Hw) as (_ & _ & _ & Ht & _). destruct v; try discriminate Ht.
    simpl in He. injection He as <-. simpl in Ht.
    apply andb_true_iff in Hr as [H1 H2]. apply andb_true_iff in Ht as [H3 H4].
    exists (VInt z). split; [|reflexivity]. simpl.
    replace ((-9223372036854775808 <=? z) && (z <=? 9223372036854775807)) with true; [reflexivity|].
    symmetry. apply andb_true_iff. split; lia.
  - (* TCidr *)
    cbn [rd] in Hr. destruct t; try (destruct (leaf_case TCidr _ v0 v j Hr Hp Hw He) as [w [Hd Hc]]; exists w; split; [exact Hd | exact Hc]).
    destruct (W_inv _ _ Hw) as (_ & _ & _ & Ht & _). destruct v; try discriminate Ht.
    simpl in He. injection He as <-.
    exists (VList (Some (map VStr (cidr_set_list s)))). split; [reflexivity|]. exists s. split; reflexivity.
  - (* TKeySet *) destruct (leaf_case (TKeySet s p ki) t v0 v j Hr Hp Hw He) as [w [Hd Hc]]. exists w. split; [exact Hd | exact Hc].
  - (* TBad *) cbn [rd] in Hr. unfold leaf_same in Hr. rewrite andb_false_r in Hr. discriminate Hr.
Qed.

(* ====================================================================== *)
(* reading a field (by JSON path) out of a cross decode                    *)
(* ====================================================================== *)
From JWT Require Import Model.Claims Proofs.Claims.

(* the omitempty flag and the type of the field a path ends in *)
Fixpoint get_path_fld (fuel : nat) (t : ty) (path : list string) : option (bool * ty) :=
  match path with
  | [] => None
  | name :: rest =>
      match fuel with
      | O => None
      | S fuel' =>
          match t with
          | TStruct fs =>
              match field_index_exact name fs 0 with
              | Some i => match nth_error fs i with
                          | Some (_, o, ft) => match rest with [] => Some (o, ft) | _ => get_path_fld fuel' ft rest end
                          | None => None
                          end
              | None => None
              end
          | _ => None
          end
      end
  end.
Definition getp_fld (t : ty) (path : list string) : option (bool * ty) := get_path_fld 8 t path.

Lemma ag_fields_nth ft vs : forall (l : list field) v0s ws i n o st,
  ag_fields ft vs l v0s ws -> nth_error l i = Some (n, o, st) ->
  exists f0 wi, nth_error v0s i = Some f0 /\ nth_error ws i = Some wi /\ fld_ag ag ft vs n st f0 wi.
Proof.
  induction l as [| [[n0 o0] st0] r IH]; intros [| g0 r0] [| w0 wr] [|i] n o st H Hn; simpl in H, Hn;
    try discriminate; try contradiction.
  - injection Hn as -> -> ->. exists g0, w0. repeat split. apply H.
  - destruct H as [_ H]. apply (IH r0 wr i n o st H Hn).
Qed.

(* the decoded value at a path: the preset when the writer omitted the (empty) member, else it agrees *)
Lemma ag_get_path : forall fuel s t p v0 w v x1 o tq st,
  ag s t v0 w v -> p <> [] ->
  get_path fuel t p v = Some x1 -> get_path_fld fuel t p = Some (o, tq) -> get_path_ty fuel s p = Some st ->
  exists xw x0, get_path fuel s p w = Some xw /\ get_path fuel s p v0 = Some x0 /\
                (if o && is_empty x1 then xw = x0 else ag st tq x0 xw x1).
Proof.
  induction fuel as [| fuel IH]; intros s t [| n rest] v0 w v x1 o tq st Ha Hne Hg Hf Hs;
    try (now elim Hne); try discriminate Hf.
  simpl in Hs. destruct s as [| | | | | | fs | | | | | |]; try discriminate Hs.
  rewrite get_path_step in Hg.
  destruct t as [| | | | | | ft | | | | | |]; try discriminate Hg.
  destruct v as [| | | | | | vs |]; try discriminate Hg. simpl as_struct in Hg. cbv iota in Hg.
  destruct v0 as [| | | | | | v0s |]; try (simpl in Ha; contradiction).
  destruct w as [| | | | | | ws |]; try (simpl in Ha; contradiction).
  rewrite ag_struct in Ha.
  destruct (field_index_exact n fs 0) as [i|] eqn:Ei; [|discriminate Hs].
  destruct (nth_error fs i) as [[[n' o'] st']|] eqn:Ef; [|discriminate Hs].
  destruct (field_index_exact_some fs 0 n i Ei) as [_ [o2 [st2 Hf2]]]. rewrite Nat.sub_0_r in Hf2.
  assert (E : Some (n', o', st') = Some (n, o2, st2)) by (exact (eq_trans (eq_sym Ef) Hf2)).
  injection E as En Eo Est. subst n' o2 st2.
  simpl in Hf.
  destruct (field_index_exact n ft 0) as [k|] eqn:Ek; [|discriminate Hg].
  destruct (nth_error ft k) as [[[nk ok] tk]|] eqn:Etk; [|discriminate Hg].
  destruct (nth_error vs k) as [vk|] eqn:Evk; [|discriminate Hg].
  destruct (ag_fields_nth ft vs fs v0s ws i n o' st' Ha Ef) as [f0 [wi [Hf0 [Hwi Hfa]]]].
  unfold fld_ag, tfld, tval in Hfa. unfold field in *. rewrite Ek, Etk, Evk in Hfa. simpl in Hfa.
  rewrite !get_path_step. simpl as_struct. cbv iota. rewrite Ei, Ef, Hwi, Hf0.
  destruct rest as [| n2 rest2].
  - injection Hf as <- <-.
    assert (Es : st' = st) by (destruct fuel; simpl in Hs; now injection Hs). subst st'.
    assert (Ex : vk = x1) by (destruct fuel; simpl in Hg; now injection Hg). subst x1.
    exists wi, f0. split; [destruct fuel; reflexivity|]. split; [destruct fuel; reflexivity | exact Hfa].
  - (* an intermediate member is a struct: never empty, so never omitted *)
    destruct fuel as [| fuel']; [discriminate Hf|].
    assert (Hvk : exists vks, vk = VStruct vks).
    { rewrite get_path_step in Hg. destruct tk; try discriminate Hg. destruct vk; try discriminate Hg. eauto. }
    destruct Hvk as [vks ->].
    replace (ok && is_empty (VStruct vks)) with false in Hfa by (now rewrite andb_false_r).
    eapply IH; try eassumption. discriminate.
Qed.

(* the WRITER's side of a path: where it ends in the writer's schema and value.
   [Some None]: every member but the last exists and the writer's struct has no such last member;
   [Some (Some (omitempty, type, value))]: the member exists *)
Fixpoint wty (fuel : nat) (t : ty) (path : list string) : option (option (bool * ty)) :=
  match path with
  | [] => None
  | n :: rest =>
      match fuel with
      | O => None
      | S fuel' =>
          match t with
          | TStruct ft =>
              match field_index_exact n ft 0 with
              | None => match rest with [] => Some None | _ => None end
              | Some k => match nth_error ft k with
                          | Some (_, o, tq) => match rest with [] => Some (Some (o, tq)) | _ => wty fuel' tq rest end
                          | None => None
                          end
              end
          | _ => None
          end
      end
  end.
Fixpoint wget (fuel : nat) (t : ty) (path : list string) (v : val) : option (option (bool * ty * val)) :=
  match path with
  | [] => None
  | n :: rest =>
      match fuel with
      | O => None
      | S fuel' =>
          match t, v with
          | TStruct ft, VStruct vs =>
              match field_index_exact n ft 0 with
              | None => match rest with [] => Some None | _ => None end
              | Some k => match nth_error ft k, nth_error vs k with
                          | Some (_, o, tq), Some vk =>
                              match rest with [] => Some (Some (o, tq, vk)) | _ => wget fuel' tq rest vk end
                          | _, _ => None
                          end
              end
          | _, _ => None
          end
      end
  end.

Lemma wget_total : forall fuel t p v r,
  has_type t v = true -> wty fuel t p = Some r ->
  match r with
  | None => wget fuel t p v = Some None
  | Some (o, tq) => exists x1, wget fuel t p v = Some (Some (o, tq, x1))
  end.
Proof.
  induction fuel as [| fuel IH]; intros t [| n rest] v r Hv Hp; simpl in Hp; try discriminate Hp.
  destruct t as [| | | | | | ft | | | | | |]; try discriminate Hp.
  destruct v as [| | | | | | vs |]; try discriminate Hv.
  cbn [wget].
  destruct (field_index_exact n ft 0) as [k|].
  - destruct (nth_error ft k) as [[[nk ok] tk]|] eqn:Ek; [|discriminate Hp].
    rewrite has_type_struct in Hv. destruct (has_type_fields_nth ft vs Hv) as [Hl Hn].
    assert (Lk : (k < length vs)%nat) by (rewrite Hl; exact (nth_error_lt _ _ _ Ek)).
    destruct (nth_error_some_lt vs k Lk) as [vk Hvk]. rewrite Hvk.
    destruct rest as [| n2 rest2].
    + injection Hp as <-. eauto.
    + apply (IH tk (n2 :: rest2) vk r (Hn k nk ok tk vk Ek Hvk) Hp).
  - destruct rest; [|discriminate Hp]. injection Hp as <-. reflexivity.
Qed.

(* the decoded value at a path: the preset when the writer has no such member or omitted the (empty) member,
   else a value that agrees with the written one *)
Lemma ag_wget : forall fuel s t p v0 w v r st,
  ag s t v0 w v -> wget fuel t p v = Some r -> get_path_ty fuel s p = Some st ->
  exists xw x0, get_path fuel s p w = Some xw /\ get_path fuel s p v0 = Some x0 /\
                match r with
                | None => xw = x0
                | Some (o, tq, x1) => if o && is_empty x1 then xw = x0 else ag st tq x0 xw x1
                end.
Proof.
  induction fuel as [| fuel IH]; intros s t [| n rest] v0 w v r st Ha Hg Hs; try discriminate Hg.
  simpl in Hs. destruct s as [| | | | | | fs | | | | | |]; try discriminate Hs.
  cbn [wget] in Hg.
  destruct t as [| | | | | | ft | | | | | |]; try discriminate Hg.
  destruct v as [| | | | | | vs |]; try discriminate Hg.
  destruct v0 as [| | | | | | v0s |]; try (simpl in Ha; contradiction).
  destruct w as [| | | | | | ws |]; try (simpl in Ha; contradiction).
  rewrite ag_struct in Ha.
  destruct (field_index_exact n fs 0) as [i|] eqn:Ei; [|discriminate Hs].
  destruct (nth_error fs i) as [[[n' o'] st']|] eqn:Ef; [|discriminate Hs].
  destruct (field_index_exact_some fs 0 n i Ei) as [_ [o2 [st2 Hf2]]]. rewrite Nat.sub_0_r in Hf2.
  assert (E : Some (n', o', st') = Some (n, o2, st2)) by (exact (eq_trans (eq_sym Ef) Hf2)).
  injection E as En Eo Est. subst n' o2 st2.
  destruct (ag_fields_nth ft vs fs v0s ws i n o' st' Ha Ef) as [f0 [wi [Hf0 [Hwi Hfa]]]].
  unfold fld_ag, tfld, tval in Hfa. unfold field in *.
  rewrite !get_path_step. simpl as_struct. cbv iota. rewrite Ei, Ef, Hwi, Hf0.
  destruct (field_index_exact n ft 0) as [k|] eqn:Ek.
  - destruct (nth_error ft k) as [[[nk ok] tk]|] eqn:Etk; [|discriminate Hg].
    destruct (nth_error vs k) as [vk|] eqn:Evk; [|discriminate Hg].
    simpl in Hfa.
    destruct rest as [| n2 rest2].
    + injection Hg as <-.
      assert (Es : st' = st) by (destruct fuel; simpl in Hs; now injection Hs). subst st'.
      exists wi, f0. split; [destruct fuel; reflexivity|]. split; [destruct fuel; reflexivity | exact Hfa].
    + destruct fuel as [| fuel']; [discriminate Hg|].
      assert (Hvk : exists vks, vk = VStruct vks).
      { cbn [wget] in Hg. destruct tk; try discriminate Hg. destruct vk; try discriminate Hg. eauto. }
      destruct Hvk as [vks ->].
      replace (ok && is_empty (VStruct vks)) with false in Hfa by (now rewrite andb_false_r).
      eapply IH; eassumption.
  - destruct rest; [|discriminate Hg]. injection Hg as <-. subst wi.
    exists f0, f0. split; [destruct fuel; reflexivity|]. split; [destruct fuel; reflexivity | reflexivity].
Qed.

(* ---------- the shape of struct values (all that field access needs) ---------- *)
Fixpoint shape (t : ty) (v : val) {struct t} : bool :=
  match t with
  | TStruct fs =>
      match v with
      | VStruct vs =>
          (fix go (l : list field) (vs : list val) : bool :=
             match l, vs with
             | [], [] => true
             | (_, _, ft) :: r, x :: vr => shape ft x && go r vr
             | _, _ => false
             end) fs vs
      | _ => false
      end
  | _ => true
  end.
Fixpoint shape_fields (l : list field) (vs : list val) : bool :=
  match l, vs with
  | [], [] => true
  | (_, _, ft) :: r, x :: vr => shape ft x && shape_fields r vr
  | _, _ => false
  end.
Lemma shape_struct fs vs : shape (TStruct fs) (VStruct vs) = shape_fields fs vs.
Proof.
  cbn [shape]. revert vs. induction fs as [| [[n o] st] r IH]; intros [| x vr]; try reflexivity;
    cbn [shape_fields]; now rewrite <- IH.
Qed.

Lemma ag_shape : forall s t v0 w v, shape s v0 = true -> ag s t v0 w v -> shape s w = true.
Proof.
  induction s using ty_ind'; try (intros; reflexivity). intros t v0 w v Hs Ha.
  destruct t as [| | | | | | ft | | | | | |]; try (simpl in Ha; destruct v0, w, v; contradiction).
  destruct v0 as [| | | | | | v0s |]; try discriminate Hs.
  destruct w as [| | | | | | ws |]; try (simpl in Ha; destruct v; contradiction).
  destruct v as [| | | | | | vs |]; try (simpl in Ha; contradiction).
  rewrite ag_struct in Ha. rewrite shape_struct in Hs |- *.
  revert v0s ws Hs Ha. induction H as [| [[n o] st] r Hx Hr IH]; intros [| f0 r0] [| wi wr] Hs Ha;
    simpl in Hs, Ha; try discriminate; try contradiction; [reflexivity|].
  apply andb_true_iff in Hs as [Hs1 Hs2]. destruct Ha as [Ha1 Ha2].
  cbn [shape_fields]. rewrite (IH r0 wr Hs2 Ha2), andb_true_r.
  unfold fld_ag in Ha1. simpl in Hx.
  destruct (tfld n ft) as [[ot tq]|]; [|now subst wi].
  destruct (tval n ft vs) as [vk|]; [|contradiction].
  destruct (ot && is_empty vk); [now subst wi|]. eapply Hx; eassumption.
Qed.
