From JWT Require Import Model.DidSign.
Open Scope string_scope.

Lemma smem_In v l : smem v l = true <-> In v l.
Proof.
  unfold smem. rewrite existsb_exists. split.
  - intros [x [Hx E]]. apply String.eqb_eq in E. now subst.
  - intros H. exists v. split; [assumption|apply String.eqb_refl].
Qed.


Lemma acct_did_sign_spec : forall id keys c,
  acct_did_sign id keys (Some c) = true <-> acct_spec id keys c.
Proof.
  intros id keys c. unfold acct_did_sign, acct_spec.
  destruct (String.eqb_spec (sc_iss c) id) as [Hi|Hi].
  - split; [intros _; now left|reflexivity].
  - destruct (ckind_eqb (sc_kind c) KUser) eqn:Ku;
    destruct (String.eqb_spec (sc_issuer_account c) id) as [Ha|Ha]; simpl.
    + apply ckind_eqb_eq in Ku. rewrite smem_In. split.
      * intros H. right. repeat split; auto.
      * intros [H|[_ [_ H]]]; [contradiction|assumption].
    + destruct (ckind_eqb (sc_kind c) KActivation); simpl;
        (split; [discriminate|intros [H|[_ [H _]]]; contradiction]).
    + destruct (ckind_eqb (sc_kind c) KActivation) eqn:Ka; simpl.
      * apply ckind_eqb_eq in Ka. rewrite smem_In. split.
        -- intros H. right. repeat split; auto.
        -- intros [H|[_ [_ H]]]; [contradiction|assumption].
      * split; [discriminate|].
        intros [H|[[H|H] _]]; [contradiction| |].
        -- apply ckind_eqb_eq in H. congruence.
        -- apply ckind_eqb_eq in H. congruence.
    + destruct (ckind_eqb (sc_kind c) KActivation); simpl;
        (split; [discriminate|intros [H|[_ [H _]]]; contradiction]).
Qed.

Lemma op_did_sign_spec : forall id strict keys c,
  ~ (strict = true /\ sc_iss c = id /\ sc_sub c <> id /\ In id keys) ->
  (op_did_sign id strict keys (Some c) = true <-> op_spec id strict keys c).
Proof.
  intros id strict keys c G. unfold op_did_sign, op_spec.
  destruct (String.eqb_spec (sc_iss c) id) as [Hi|Hi].
  - destruct strict; simpl.
    + destruct (String.eqb_spec (sc_sub c) id) as [Hs|Hs].
      * split; [intros _; left; auto|reflexivity].
      * split; [discriminate|].
        intros [[_ H]|H]; [now specialize (H eq_refl)|].
        exfalso. apply G. rewrite Hi in H. auto.
    + split; [intros _; left; split; [assumption|discriminate]|reflexivity].
  - rewrite smem_In. split; [intros H; now right|intros [[H _]|H]; [contradiction|assumption]].
Qed.

Lemma op_did_sign_refuted : exists id strict keys c,
  op_spec id strict keys c /\ op_did_sign id strict keys (Some c) = false.
Proof.
  exists "O", true, ["O"], {| sc_kind := KAccount; sc_iss := "O"; sc_sub := "A"; sc_issuer_account := "" |}.
  split; [right; simpl; auto|reflexivity].
Qed.

Lemma did_sign_nil : forall id strict keys,
  op_did_sign id strict keys None = false /\ acct_did_sign id keys None = false.
Proof. intros; split; reflexivity. Qed.

(* the guarded corner is the only disagreement: outside it the code is the spec, inside it the code says no *)
Lemma op_did_sign_corner : forall id strict keys c,
  strict = true -> sc_iss c = id -> sc_sub c <> id -> op_did_sign id strict keys (Some c) = false.
Proof.
  intros id strict keys c -> Hi Hs. unfold op_did_sign. rewrite Hi, String.eqb_refl. simpl.
  now apply String.eqb_neq.
Qed.
