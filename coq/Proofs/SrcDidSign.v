(* Proofs/SrcDidSign.v — OperatorClaims.DidSign and AccountClaims.DidSign as translated from the Go source on this
   run (Gen/SrcDidSign.v) are the model's functions.  The claim handed in is an abstract value: the translation
   takes what the code observes of it (nil or not, Claims().Issuer, Claims().Subject, whether it is a *UserClaims /
   *ActivationClaims and that form's IssuerAccount) as parameters; the account's key set is observed through its
   Contains method only. *)
From JWT Require Import Base.GoSem Proofs.SrcBase Gen.SrcDidSign Model.DidSign.
Open Scope string_scope.
Open Scope list_scope.

Definition dcobody (p : string) (_ : Z) (t : string) (_ : unit) : ctl unit bool :=
  if (t =? p)%string then Ret true else Cont tt.
Lemma dcoloop p : forall (u : list string) (i : Z),
  match go_range (dcobody p) i u tt with inr r => r | inl _ => false end = smem p u.
Proof.
  induction u as [|t u IH]; intros i; [reflexivity|].
  cbn [go_range]. unfold dcobody at 1. unfold smem. cbn [existsb]. destruct (t =? p); [reflexivity|]. apply IH.
Qed.
Lemma src_keys_contains u p : V2.StringList_Contains u p = smem p u.
Proof. exact (dcoloop p u 0%Z). Qed.

Definition sc_nil (c : option sclaim) : bool := match c with None => true | Some _ => false end.
Definition sc_iss' (c : option sclaim) : string := match c with Some c => sc_iss c | None => "" end.
Definition sc_sub' (c : option sclaim) : string := match c with Some c => sc_sub c | None => "" end.
Definition sc_ia' (c : option sclaim) : string := match c with Some c => sc_issuer_account c | None => "" end.
Definition sc_is (k : ckind) (c : option sclaim) : bool := match c with Some c => ckind_eqb (sc_kind c) k | None => false end.

Lemma src_op_did_sign id strict keys c :
  V2.OperatorClaims_DidSign id keys strict (sc_iss' c) (sc_sub' c) (sc_nil c) = op_did_sign id strict keys c.
Proof.
  unfold V2.OperatorClaims_DidSign, op_did_sign. destruct c as [c|]; cbn [sc_nil sc_iss' sc_sub']; [|reflexivity].
  cbv zeta. rewrite src_keys_contains. reflexivity.
Qed.

Lemma src_acct_did_sign id keys c :
  V2.AccountClaims_DidSign (fun k => smem k keys) id (sc_iss' c) (sc_ia' c) (sc_ia' c) (sc_is KActivation c) (sc_is KUser c) (sc_nil c)
  = acct_did_sign id keys c.
Proof.
  unfold V2.AccountClaims_DidSign, acct_did_sign. destruct c as [c|]; cbn [sc_nil sc_iss' sc_ia' sc_is negb]; [|reflexivity].
  cbv zeta. destruct (sc_iss c =? id); [reflexivity|].
  destruct (ckind_eqb (sc_kind c) KUser && (sc_issuer_account c =? id)); [reflexivity|].
  destruct (ckind_eqb (sc_kind c) KActivation && (sc_issuer_account c =? id)); reflexivity.
Qed.

Print Assumptions src_op_did_sign.
Print Assumptions src_acct_did_sign.

(* ---------- SigningKeys.Keys / Contains / GetScope: the key set is a map from key to scope (an opaque value; nil for a
   plain key), read as an association list ---------- *)
Section SigningKeys.
  Context {V : Type} (vnil : V).
  Lemma src_sk_contains (sk : list (string * V)) (k : string) :
    V2.SigningKeys_Contains V vnil sk k = existsb (fun e => (fst e =? k)%string) sk.
  Proof.
    unfold V2.SigningKeys_Contains, go_pget.
    induction sk as [|[k' v] sk IH]; [reflexivity|]. cbn [go_plookup existsb fst].
    destruct (k' =? k)%string; [reflexivity|exact IH].
  Qed.
  Definition sk_keys_body (_ : Z) (e : string * V) (keys : list string) : ctl (list string) (list string) :=
    let '(k, _) := e in Cont (keys ++ [k]).
  Lemma src_sk_keys_loop : forall (sk : list (string * V)) (i : Z) (keys : list string),
    go_range (R:=list string) sk_keys_body i sk keys = inl (keys ++ map fst sk).
  Proof.
    induction sk as [|[k v] sk IH]; intros i keys; [cbn; now rewrite app_nil_r|].
    cbn [go_range map fst]. unfold sk_keys_body at 1. rewrite IH, <- app_assoc. reflexivity.
  Qed.
  Lemma src_sk_keys (sk : list (string * V)) : V2.SigningKeys_Keys V vnil sk = map fst sk.
  Proof.
    unfold V2.SigningKeys_Keys. cbv zeta.
    change (go_range _ 0%Z sk []) with (go_range (R:=list string) sk_keys_body 0%Z sk []).
    rewrite src_sk_keys_loop. reflexivity.
  Qed.
  Lemma src_sk_get_scope (sk : list (string * V)) (k : string) :
    V2.SigningKeys_GetScope V vnil sk k = match go_plookup sk k with Some v => (v, true) | None => (vnil, false) end.
  Proof. unfold V2.SigningKeys_GetScope, go_pget. destruct (go_plookup sk k); reflexivity. Qed.
End SigningKeys.

Lemma src_acct_did_sign_gen (contains : string -> bool) id keys c : (forall k, contains k = smem k keys) ->
  V2.AccountClaims_DidSign contains id (sc_iss' c) (sc_ia' c) (sc_ia' c) (sc_is KActivation c) (sc_is KUser c) (sc_nil c)
  = acct_did_sign id keys c.
Proof.
  intros H. unfold V2.AccountClaims_DidSign, acct_did_sign. destruct c as [c|]; cbn [sc_nil sc_iss' sc_ia' sc_is negb]; [|reflexivity].
  cbv zeta. destruct (sc_iss c =? id); [reflexivity|].
  destruct (ckind_eqb (sc_kind c) KUser && (sc_issuer_account c =? id)); [apply H|].
  destruct (ckind_eqb (sc_kind c) KActivation && (sc_issuer_account c =? id)); [apply H|reflexivity].
Qed.
Lemma smem_map_fst {V : Type} (sk : list (string * V)) (k : string) :
  existsb (fun e => (fst e =? k)%string) sk = smem k (map fst sk).
Proof. unfold smem. induction sk as [|[k' v] sk IH]; [reflexivity|]. cbn [existsb map fst]. rewrite IH. reflexivity. Qed.
Lemma src_acct_did_sign_keyset {V : Type} (vnil : V) (sk : list (string * V)) id (c : option sclaim) :
  V2.AccountClaims_DidSign (V2.SigningKeys_Contains V vnil sk) id (sc_iss' c) (sc_ia' c) (sc_ia' c) (sc_is KActivation c) (sc_is KUser c) (sc_nil c)
  = acct_did_sign id (map fst sk) c.
Proof. apply src_acct_did_sign_gen. intros k. rewrite src_sk_contains. apply smem_map_fst. Qed.
