(* Proofs/PipelineV1.v — a token of the version-1 ENCODER through the version-2 DECODER, inside the model:
   the v1 token text (v1 header, payload = what the v1compat claims type marshals, signature over the
   payload segment) is fed to the decoder of Model/Decode.v with its JSON-level oracles DEFINED from the
   codec (Model/Pipeline.v); the identifier and the issuer are read out of the v1 payload by the
   cross-decode theorem, the claims by the version-1 loaders (shadow decode + migrate). *)
From JWT Require Import Base.Codec Base.B64 Model.Claims Model.Migrate Model.Decode Model.Encode Model.Pipeline
                        Proofs.Codec Proofs.SubDecode Proofs.Claims Proofs.Decode Proofs.Pipeline
                        Proofs.CrossDecode Proofs.MigrateCross.
Open Scope string_scope.
Open Scope Z_scope.

(* what the version-1 Encode writes *)
Definition v1_header_json : json := JObj [("typ", JStr v1_token_type_jwt); ("alg", JStr v1_alg)].
Definition v1_token_of (jprint : json -> string) (sign : string -> string) (payload : json) : string :=
  let h := b64enc (jprint v1_header_json) in
  let p := b64enc (jprint payload) in
  h ++ "." ++ p ++ "." ++ b64enc (sign p).

Lemma v1_token_split jprint sign payload :
  split dot (v1_token_of jprint sign payload) =
  [b64enc (jprint v1_header_json); b64enc (jprint payload); b64enc (sign (b64enc (jprint payload)))].
Proof.
  unfold v1_token_of. cbv zeta.
  change (b64enc (jprint v1_header_json) ++ "." ++ b64enc (jprint payload) ++ "." ++ b64enc (sign (b64enc (jprint payload))))
    with (b64enc (jprint v1_header_json) ++ String dot (b64enc (jprint payload) ++ String dot (b64enc (sign (b64enc (jprint payload)))))).
  rewrite split_app_sep by apply b64enc_sep_free.
  rewrite split_app_sep by apply b64enc_sep_free.
  rewrite split_sep_free by apply b64enc_sep_free. reflexivity.
Qed.

Lemma rd_small k st : shadow_of k = Some st ->
  rd sch_identifier (sch1_of k) = true /\ rd sch_claims_data (sch1_of k) = true /\
  getp_ty sch_identifier ["type"] = Some TStr /\ getp_ty sch_claims_data ["iss"] = Some TStr /\
  wty 8 (sch1_of k) ["type"] = Some (Some (true, TStr)) /\ wty 8 (sch1_of k) ["iss"] = Some (Some (true, TStr)).
Proof.
  intros Hs. destruct k; simpl in Hs; try discriminate Hs; repeat split; vm_compute; reflexivity.
Qed.

Lemma load_claims_v1 k um :
  (k = KOperator \/ k = KAccount \/ k = KUser \/ k = KActivation) -> um k 1 = true ->
  forall nt nv, load_claims {| id_top_type := kind_name k; id_nats_type := nt; id_nats_version := nv |} um = Some (k, 1).
Proof.
  intros Hk Hu nt nv. destruct Hk as [-> | [-> | [-> | ->]]]; unfold load_claims, typed_loader; cbn; rewrite Hu; reflexivity.
Qed.

(* a scalar string read at a top-level path of a cross decode *)
Lemma cross_top_str s t w v n x :
  ag s t (zero_val s) w v -> getp_ty s [n] = Some TStr -> wty 8 t [n] = Some (Some (true, TStr)) ->
  has_type t v = true -> getp t [n] v = Some (VStr x) -> x <> "" ->
  get_str s [n] w = x.
Proof.
  intros Ha Hs Hw Ht Hg Hx.
  pose proof (wget_total 8 t [n] v (Some (true, TStr)) Ht Hw) as [x1 Hwg].
  destruct (ag_wget 8 s t [n] (zero_val s) w v (Some (true, TStr, x1)) TStr Ha Hwg Hs) as [xw [x0 [Hxw [_ Hrel]]]].
  (* the writer's value at the path is the one getp finds *)
  assert (Ex : x1 = VStr x).
  { unfold getp in Hg. destruct t as [| | | | | | ft | | | | | |]; try discriminate Hwg.
    destruct v as [| | | | | | vs |]; try discriminate Hwg.
    rewrite get_path_step in Hg. simpl as_struct in Hg. cbv iota in Hg. cbn [wget] in Hwg.
    destruct (field_index_exact n ft 0) as [k|]; [|discriminate Hg].
    destruct (nth_error ft k) as [[[nk ok] tk]|]; [|discriminate Hg].
    destruct (nth_error vs k) as [vk|]; [|discriminate Hg].
    simpl in Hg. injection Hg as ->. now injection Hwg as _ _ <-. }
  subst x1. simpl in Hrel.
  replace ((x =? "")%string) with false in Hrel by (symmetry; now apply String.eqb_neq).
  simpl in Hrel. apply canon_vstr_inv in Hrel. unfold get_str, getp. rewrite Hxw, Hrel. reflexivity.
Qed.

Section MainV1.
  Variable jparse : string -> option json.
  Variable jprint : json -> string.
  Hypothesis Hjp : forall j, jparse (jprint j) = Some j.
  Variable sign : string -> string.
  Variable verify : string -> string -> string -> bool.
  Variable role_of : string -> role.

  Lemma parse_header_v1 : p_parse_header jparse (jprint v1_header_json) = Some (v1_token_type_jwt, v1_alg).
  Proof. unfold p_parse_header. rewrite Hjp. vm_compute. reflexivity. Qed.

  (* every token the version-1 encoder writes for operator, account, user or activation claims [c1]
     (as it leaves them: kind stamped at the top level, issuer set) is accepted by the version-2 decoder,
     over the PAYLOAD segment, under that issuer, as claims of that kind reporting version 1, and what is
     loaded is the migration of the shadow value that agrees with [c1] *)
  Theorem v1_token_accepted : forall k st c1 j issuer,
    shadow_of k = Some st ->
    has_type (sch1_of k) c1 = true ->
    getp (sch1_of k) ["type"] c1 = Some (VStr (kind_name k)) ->
    getp (sch1_of k) ["iss"] c1 = Some (VStr issuer) -> issuer <> "" ->
    enc (sch1_of k) c1 = Some j ->
    (forall text, verify issuer text (sign text) = true) ->
    decode_role_ok (expected_prefixes k) (role_of issuer) = true ->
    exists a w,
      p_decode jparse verify role_of (v1_token_of jprint sign j) = Some a /\
      a_kind a = k /\ a_iss a = issuer /\ a_layout a = LV1 /\ a_version a = 1 /\
      dec st j (preset_v1 k) = Some w /\ ag st (sch1_of k) (preset_v1 k) w c1 /\
      p_loaded jparse (jprint j) k 1 = Some (migrate k w).
  Proof.
    intros k st c1 j issuer Hs Ht Gty Giss Hiss He Hver Hrole. pose proof (sch1_scopes_ok k st c1 Hs) as Hsc.
    assert (Hk : k = KOperator \/ k = KAccount \/ k = KUser \/ k = KActivation)
      by (destruct k; simpl in Hs; try discriminate Hs; auto).
    destruct (rd_small k st Hs) as (Hr1 & Hr2 & Hp1 & Hp2 & Hw1 & Hw2).
    destruct (rd_generated k st Hs) as (_ & _ & _ & Hwf & Hen & Hks).
    pose proof (W_intro _ _ Hwf Hen Hks Ht Hsc) as HW.
    destruct (v1_reaches_shadow k st c1 j Hs Ht He) as [w [Hd [Ha _]]].
    destruct (cross_decode sch_identifier (sch1_of k) (zero_val sch_identifier) c1 j Hr1 (pre_ok_zero _) HW He) as [wi [Hdi Hai]].
    destruct (cross_decode sch_claims_data (sch1_of k) (zero_val sch_claims_data) c1 j Hr2 (pre_ok_zero _) HW He) as [wc [Hdc Hac]].
    assert (Kne : kind_name k <> "") by (destruct k; discriminate).
    pose proof (cross_top_str _ _ wi c1 "type" (kind_name k) Hai Hp1 Hw1 Ht Gty Kne) as Etype.
    pose proof (cross_top_str _ _ wc c1 "iss" issuer Hac Hp2 Hw2 Ht Giss Hiss) as Eiss.
    set (h := b64enc (jprint v1_header_json)). set (p := b64enc (jprint j)). set (sg := b64enc (sign p)).
    assert (Hsplit : split dot (v1_token_of jprint sign j) = [h; p; sg]) by apply v1_token_split.
    assert (Eload : load_val k 1 j = Some (migrate k w)).
    { assert (E1 : load_v1 k j = Some (migrate k w)) by (unfold load_v1; now rewrite Hs, Hd).
      rewrite <- E1. destruct Hk as [-> | [-> | [-> | ->]]]; reflexivity. }
    assert (Eum : p_unmarshal_ok jparse (jprint j) k 1 = true).
    { unfold p_unmarshal_ok. rewrite Hjp.
      replace (match k with KOperator | KAccount | KUser | KActivation => 1 | _ => 2 end) with 1
        by (destruct Hk as [-> | [-> | [-> | ->]]]; reflexivity).
      now rewrite Eload. }
    exists {| a_kind := k; a_iss := issuer; a_version := 1; a_declared := kind_name k;
              a_typ := v1_token_type_jwt; a_alg := v1_alg; a_layout := LV1 |}, w.
    split; [|cbn [a_kind a_iss a_layout a_version]; repeat split; try assumption; unfold p_loaded; now rewrite Hjp].
    unfold p_decode, decode. rewrite Hsplit.
    unfold h at 1. rewrite b64dec_enc, parse_header_v1.
    replace (header_valid v1_token_type_jwt v1_alg) with true by (vm_compute; reflexivity). cbn [negb]. cbv iota.
    unfold p at 1. rewrite b64dec_enc.
    unfold p_parse_ident. rewrite Hjp, Hdi, Etype.
    rewrite (load_claims_v1 k (p_unmarshal_ok jparse (jprint j)) Hk Eum).
    unfold sg at 1. rewrite b64dec_enc.
    replace (ckind_eqb k KGeneric) with false by (destruct Hk as [-> | [-> | [-> | ->]]]; reflexivity).
    cbv zeta. replace (1 <=? 1) with true by reflexivity. cbv iota.
    unfold p_issuer_of. rewrite Hjp, Hdc, Eiss.
    rewrite (protected_text LV1 (v1_token_of jprint sign j) h p sg Hsplit). cbn [text_of].
    unfold sg. rewrite Hver. cbn [negb]. cbv iota. rewrite Hrole.
    unfold id_version, id_kind. cbn [id_top_type].
    replace (negb (kind_name k =? "")%string) with true by (destruct k; reflexivity).
    reflexivity.
  Qed.
End MainV1.
