(* Proofs/SrcBase.v — facts about the translator's vocabulary (Base/GoSem.v). *)
From JWT Require Import Base.GoSem.
Open Scope string_scope.
Open Scope list_scope.

(* ---------- generic facts about the vocabulary ---------- *)
Lemma go_llen_nonneg {A} (l : list A) : (0 <= go_llen l)%Z.
Proof. unfold go_llen; lia. Qed.

Lemma nth_length_last (r : list string) : forall y, nth (length r) (y :: r) "" = last (y :: r) "".
Proof. induction r as [|z r IH]; intros y; [reflexivity|]. exact (IH z). Qed.

Lemma go_idx_last (l : list string) : l <> [] -> go_idx l (go_llen l - 1) = last l "".
Proof.
  intros Hl. unfold go_idx, go_llen. destruct l as [|y r]; [congruence|].
  replace (Z.to_nat (Z.of_nat (length (y :: r)) - 1)) with (length r) by (cbn [length]; lia).
  apply nth_length_last.
Qed.

Lemma go_split_dot s : go_split s "." = split dot s.
Proof. reflexivity. Qed.
Lemma go_join_dot l : go_join l "." = join dot l.
Proof. reflexivity. Qed.

Lemma go_slice_prefix {A} (l : list A) (i : Z) : go_slice l 0 i = firstn (Z.to_nat i) l.
Proof. unfold go_slice. cbn [Z.to_nat skipn]. rewrite Nat.sub_0_r. reflexivity. Qed.

Lemma go_slice_suffix {A} (l : list A) (i : Z) : go_slice l i (go_llen l) = skipn (Z.to_nat i) l.
Proof.
  unfold go_slice, go_llen. rewrite Nat2Z.id. apply firstn_all2. rewrite skipn_length. lia.
Qed.

