(* Proofs/Encode.v — what Encode stamps, what it leaves alone, the id as a
   function of the standard fields, account list sorting (C12); the token as a
   function of the written tree (C13). *)
From JWT Require Import Base.Codec Model.Claims Model.Encode.
From JWT Require Import Proofs.CodecOrder.
From Coq Require Export Permutation Sorting.Sorted.
Open Scope string_scope.
Open Scope Z_scope.

(* identical copies of the definitions of Properties/C12.v (unified by conversion) *)
Definition all_paths (k : ckind) : list (list string) :=
  flat_map (fun f => match snd f with
                     | TStruct gs => if (fst (fst f) =? "nats")%string
                                     then map (fun g => ["nats"; fst (fst g)]) gs
                                     else [[fst (fst f)]]
                     | _ => [[fst (fst f)]]
                     end) (fields_of (schema_of k)).
Definition stamped_paths (k : ckind) : list (list string) :=
  [["iss"]; ["iat"]; ["jti"]] ++
  match k with
  | KGeneric => [["nats"]]
  | KAccount => [["nats"; "type"]; ["nats"; "version"]; ["nats"; "imports"]; ["nats"; "exports"]]
  | _ => [["nats"; "type"]; ["nats"; "version"]]
  end.
Definition path_eqb (a b : list string) : bool :=
  (fix go (a b : list string) := match a, b with
                                 | [], [] => true
                                 | x :: r, y :: s => (x =? y)%string && go r s
                                 | _, _ => false end) a b.

(* ====================================================================== *)
(* the shape of a typed value                                              *)
(* ====================================================================== *)
Lemma ht_struct_inv fs v :
  has_type (TStruct fs) v = true -> exists vs, v = VStruct vs /\ has_type (TStruct fs) (VStruct vs) = true.
Proof. destruct v; try (intros H; discriminate H). intros H. eauto. Qed.

Lemma ht_cons n o ft fr vs :
  has_type (TStruct ((n, o, ft) :: fr)) (VStruct vs) = true ->
  exists x r, vs = x :: r /\ has_type ft x = true /\ has_type (TStruct fr) (VStruct r) = true.
Proof.
  rewrite has_type_struct_o. destruct vs as [| x r]; simpl; [discriminate|].
  intros H. apply andb_true_iff in H as [H1 H2]. exists x, r. auto.
Qed.

Lemma ht_nil vs : has_type (TStruct []) (VStruct vs) = true -> vs = [].
Proof. destruct vs; [reflexivity | discriminate]. Qed.

Lemma ht_map_inv t v : has_type (TMap t) v = true -> exists m, v = VMap m.
Proof. destruct v; try (intros H; discriminate H). eauto. Qed.

Lemma ht_str_inv v : has_type TStr v = true -> exists s, v = VStr s.
Proof. destruct v; try (intros H; discriminate H). eauto. Qed.

Lemma ht_int_inv lo hi v : has_type (TInt lo hi) v = true -> exists z, v = VInt z.
Proof. destruct v; try (intros H; discriminate H). eauto. Qed.

Ltac hnf_ty H :=
  match type of H with
  | has_type ?T ?v = true => let T' := eval hnf in T in change (has_type T' v = true) in H
  end.

(* H : has_type <struct schema> v = true, v a variable: replace v by VStruct [x1; ...; xn],
   leaving one typing hypothesis per field *)
Ltac expose_struct H :=
  hnf_ty H;
  let vs := fresh "vs" in
  apply ht_struct_inv in H; destruct H as [vs [-> H]];
  repeat (let x := fresh "x" in let r := fresh "r" in let Hx := fresh "Hx" in
          apply ht_cons in H; destruct H as [x [r [-> [Hx H]]]]);
  apply ht_nil in H;
  match type of H with ?r = [] => subst r end.

Ltac clear_scalar_hyps :=
  repeat match goal with
         | Hx : has_type TStr _ = true |- _ => clear Hx
         | Hx : has_type (TInt _ _) _ = true |- _ => clear Hx
         end.
Ltac clear_ht_hyps :=
  repeat match goal with Hx : has_type _ _ = true |- _ => clear Hx end.

(* a claims value: nine fields, the last (nats) a struct one level deep, or the data map *)
Ltac expose_claims H :=
  expose_struct H; clear_scalar_hyps;
  match goal with
  | Hn : has_type ?T ?x = true |- _ =>
      hnf_ty Hn;
      first [ expose_struct Hn
            | let m := fresh "m" in apply ht_map_inv in Hn; destruct Hn as [m ->]; destruct m as [m|] ]
  end;
  clear_ht_hyps.

(* ====================================================================== *)
(* insertion sort of the account lists                                     *)
(* ====================================================================== *)
Lemma entry_le_total t a b : entry_le t a b = true \/ entry_le t b a = true.
Proof.
  unfold entry_le. destruct (entry_subject t a), (entry_subject t b); auto.
  apply String.leb_total.
Qed.

Lemma entry_le_trans t a b c :
  entry_le t a b = true -> entry_le t b c = true -> entry_le t a c = true.
Proof.
  unfold entry_le.
  destruct (entry_subject t a), (entry_subject t b), (entry_subject t c);
    try reflexivity; try discriminate. apply str_leb_trans.
Qed.

Lemma insert_entry_perm t e l : Permutation (e :: l) (insert_entry t e l).
Proof.
  induction l as [| x r IH]; simpl; [apply Permutation_refl|].
  destruct (entry_le t e x); [apply Permutation_refl|].
  eapply Permutation_trans; [apply perm_swap | apply perm_skip, IH].
Qed.

Lemma sort_entries_perm t l : Permutation l (fold_right (insert_entry t) [] l).
Proof.
  induction l as [| x r IH]; simpl; [constructor|].
  eapply Permutation_trans; [apply perm_skip, IH | apply insert_entry_perm].
Qed.

Lemma insert_entry_sorted t e l :
  StronglySorted (fun a b => entry_le t a b = true) l ->
  StronglySorted (fun a b => entry_le t a b = true) (insert_entry t e l).
Proof.
  induction l as [| x r IH]; intros Hs; simpl.
  - constructor; constructor.
  - inversion Hs as [| ? ? Hr Hx]; subst.
    destruct (entry_le t e x) eqn:E.
    + constructor; [exact Hs|]. constructor; [exact E|].
      eapply Forall_impl; [|exact Hx]. intros y Hy. simpl in *.
      eapply entry_le_trans; eassumption.
    + assert (Hxe : entry_le t x e = true)
        by (destruct (entry_le_total t e x) as [X|X]; congruence).
      constructor; [now apply IH|].
      eapply Permutation_Forall; [apply insert_entry_perm|].
      constructor; assumption.
Qed.

Lemma sort_entries_sorted t l :
  StronglySorted (fun a b => entry_le t a b = true) (fold_right (insert_entry t) [] l).
Proof. induction l as [| x r IH]; simpl; [constructor | now apply insert_entry_sorted]. Qed.

(* ====================================================================== *)
(* stamping                                                                *)
(* ====================================================================== *)
Definition fld (k : ckind) (v : val) (n : string) : val :=
  match getp (schema_of k) [n] v with Some x => x | None => VStr "" end.
(* the hashed ClaimsData: the standard fields with an empty id, the issuer and the second *)
Definition cd_of (k : ckind) (issuer : string) (now : Z) (v : val) : val :=
  VStruct [fld k v "aud"; fld k v "exp"; VStr ""; VInt now; VStr issuer;
           fld k v "name"; fld k v "nbf"; fld k v "sub"].

Section EncodeProofs.
  Variable H : string -> string.
  Variable jprint : json -> string.

  (* Hs : stamp H jprint K issuer now (VStruct [...]) = Some v', shape exposed:
     compute the hashed ClaimsData (leaving enc folded), split on its encoding *)
  Ltac open_stamp Hs jj Ej :=
    cbv beta zeta delta [stamp] in Hs;
    match type of Hs with
    | context [enc sch_claims_data ?c] =>
        let c' := eval vm_compute in c in
        let E := fresh "E" in
        assert (E : c = c') by (vm_compute; reflexivity);
        rewrite E in Hs; clear E
    end;
    match type of Hs with
    | context [enc sch_claims_data ?c] =>
        destruct (enc sch_claims_data c) as [jj|] eqn:Ej; [|discriminate Hs]
    end;
    injection Hs as Hs;
    match type of Hs with _ = ?v' => subst v' end.

  Lemma jti_of_stamp : forall k issuer now v v',
    has_type (schema_of k) v = true -> stamp H jprint k issuer now v = Some v' ->
    exists jj, enc sch_claims_data (cd_of k issuer now v) = Some jj /\
               getp (schema_of k) ["jti"] v' = Some (VStr (H (jprint jj))).
  Proof.
    intros k issuer now v v' Hty Hs.
    destruct k; expose_claims Hty; open_stamp Hs jj Ej; exists jj;
      (split; [rewrite <- Ej; f_equal; vm_compute; reflexivity | vm_compute; reflexivity]).
  Qed.

  Lemma stamp_fields : forall k issuer now v v',
    has_type (schema_of k) v = true -> stamp H jprint k issuer now v = Some v' ->
    getp (schema_of k) ["iss"] v' = Some (VStr issuer) /\
    getp (schema_of k) ["iat"] v' = Some (VInt now) /\
    (k <> KGeneric -> getp (schema_of k) ["nats"; "type"] v' = Some (VStr (kind_name k)) /\
                      getp (schema_of k) ["nats"; "version"] v' = Some (VInt 2)) /\
    exists j, enc sch_claims_data (claims_data_of k (setp (schema_of k) ["jti"] (VStr "") v')) = Some j /\
              getp (schema_of k) ["jti"] v' = Some (VStr (H (jprint j))).
  Proof.
    intros k issuer now v v' Hty Hs.
    destruct k; expose_claims Hty; open_stamp Hs jj Ej;
      (split; [vm_compute; reflexivity|]);
      (split; [vm_compute; reflexivity|]);
      (split; [try (intros _; split; vm_compute; reflexivity); intros X; now elim X|]);
      exists jj;
      (split; [rewrite <- Ej; f_equal; vm_compute; reflexivity | vm_compute; reflexivity]).
  Qed.

  Lemma id_function_of_fields : forall k k' issuer now v w v' w',
    has_type (schema_of k) v = true -> has_type (schema_of k') w = true ->
    stamp H jprint k issuer now v = Some v' -> stamp H jprint k' issuer now w = Some w' ->
    (forall n, In n ["aud"; "exp"; "name"; "nbf"; "sub"] -> getp (schema_of k) [n] v = getp (schema_of k') [n] w) ->
    getp (schema_of k) ["jti"] v' = getp (schema_of k') ["jti"] w'.
  Proof.
    intros k k' issuer now v w v' w' Hv Hw Sv Sw Hf.
    destruct (jti_of_stamp k issuer now v v' Hv Sv) as [j [Ej Gj]].
    destruct (jti_of_stamp k' issuer now w w' Hw Sw) as [j' [Ej' Gj']].
    assert (E : cd_of k issuer now v = cd_of k' issuer now w).
    { unfold cd_of, fld.
      rewrite (Hf "aud"), (Hf "exp"), (Hf "name"), (Hf "nbf"), (Hf "sub");
        [reflexivity | simpl; tauto ..]. }
    rewrite E in Ej. rewrite Ej' in Ej. injection Ej as <-. now rewrite Gj, Gj'.
  Qed.

  Lemma stamp_frame : forall k issuer now v v' p,
    has_type (schema_of k) v = true -> stamp H jprint k issuer now v = Some v' ->
    In p (all_paths k) -> existsb (path_eqb p) (stamped_paths k) = false ->
    getp (schema_of k) p v' = getp (schema_of k) p v.
  Proof.
    intros k issuer now v v' p Hty Hs Hin Hex.
    destruct k; expose_claims Hty; open_stamp Hs jj Ej;
      vm_compute in Hin;
      repeat (destruct Hin as [Hin|Hin];
              [subst p; first [ solve [vm_compute in Hex; discriminate Hex] | vm_compute; reflexivity ] |]);
      destruct Hin.
  Qed.

  Lemma account_lists_sorted : forall issuer now v v' p l,
    has_type sch_account v = true -> stamp H jprint KAccount issuer now v = Some v' ->
    p = ["nats"; "imports"] \/ p = ["nats"; "exports"] ->
    getp sch_account p v = Some (VList (Some l)) ->
    exists l', getp sch_account p v' = Some (VList (Some l')) /\ Permutation l l' /\
               StronglySorted (fun a b => entry_le (elem_ty sch_account p) a b = true) l'.
  Proof.
    intros issuer now v v' p l Hty Hs Hp Hg.
    expose_claims Hty.
    destruct Hp as [-> | ->]; vm_compute in Hg; injection Hg as ->; open_stamp Hs jj Ej.
    - exists (fold_right (insert_entry (elem_ty sch_account ["nats"; "imports"])) [] l).
      split; [vm_compute; reflexivity|].
      split; [apply sort_entries_perm | apply sort_entries_sorted].
    - exists (fold_right (insert_entry (elem_ty sch_account ["nats"; "exports"])) [] l).
      split; [vm_compute; reflexivity|].
      split; [apply sort_entries_perm | apply sort_entries_sorted].
  Qed.

  Lemma encode_fail_empty : forall sign k issuer now v,
    encode H jprint sign k false issuer now v = None.
  Proof. reflexivity. Qed.
End EncodeProofs.

(* ====================================================================== *)
(* the marshalled standard fields determine them                           *)
(* ====================================================================== *)
Definition scalar_ty (t : ty) : Prop := t = TStr \/ exists lo hi, t = TInt lo hi.

Lemma scalar_empty ft fv :
  scalar_ty ft -> has_type ft fv = true -> is_empty fv = true -> fv = zero_val ft.
Proof.
  intros [-> | [lo [hi ->]]] Ht He.
  - apply ht_str_inv in Ht as [s ->]. simpl in He. apply String.eqb_eq in He. now subst.
  - apply ht_int_inv in Ht as [z ->]. simpl in He. apply Z.eqb_eq in He. now subst.
Qed.

Lemma scalar_enc_inj ft fv fv' j :
  scalar_ty ft -> has_type ft fv = true -> has_type ft fv' = true ->
  enc ft fv = Some j -> enc ft fv' = Some j -> fv = fv'.
Proof.
  intros [-> | [lo [hi ->]]] Ht Ht' E E'.
  - apply ht_str_inv in Ht as [s ->]. apply ht_str_inv in Ht' as [s' ->].
    simpl in E, E'. congruence.
  - apply ht_int_inv in Ht as [z ->]. apply ht_int_inv in Ht' as [z' ->].
    simpl in E, E'. congruence.
Qed.

Definition fld_name (f : sfield) : string := fst (fst f).

Lemma enc_flds_keys : forall fs vs ms,
  enc_flds fs vs = Some ms -> incl (map fst ms) (map fld_name fs).
Proof.
  induction fs as [| [[n o] ft] fr IH]; intros [| fv vr] ms E; simpl in E; try discriminate E.
  - injection E as <-. intros x [].
  - destruct (enc_flds fr vr) as [rest|] eqn:Er; [|discriminate E].
    specialize (IH vr rest Er).
    destruct (o && is_empty fv).
    + injection E as <-. intros x Hx. right. now apply IH.
    + destruct (enc ft fv) as [j|]; [|discriminate E]. injection E as <-.
      intros x [<- | Hx]; [now left | right; now apply IH].
Qed.

Lemma enc_flds_scalar_inj : forall fs,
  Forall (fun f : sfield => snd (fst f) = true /\ scalar_ty (snd f)) fs ->
  NoDup (map fld_name fs) ->
  forall vs vs' ms, has_type_flds fs vs = true -> has_type_flds fs vs' = true ->
  enc_flds fs vs = Some ms -> enc_flds fs vs' = Some ms -> vs = vs'.
Proof.
  induction fs as [| [[n o] ft] fr IH]; intros Hsc Hnd [| fv vr] [| fv' vr'] ms Ht Ht' E E';
    simpl in Ht, Ht'; try discriminate Ht; try discriminate Ht'; [reflexivity|].
  inversion Hsc as [| ? ? [Ho Hft] Hsc']; subst. simpl in Ho, Hft. subst o.
  inversion Hnd as [| ? ? Hn Hnd']; subst.
  apply andb_true_iff in Ht as [T1 T2]. apply andb_true_iff in Ht' as [T1' T2'].
  simpl in E, E'.
  destruct (enc_flds fr vr) as [rest|] eqn:Er; [|discriminate E].
  destruct (enc_flds fr vr') as [rest'|] eqn:Er'; [|discriminate E'].
  pose proof (enc_flds_keys _ _ _ Er) as K. pose proof (enc_flds_keys _ _ _ Er') as K'.
  destruct (is_empty fv) eqn:Ee; destruct (is_empty fv') eqn:Ee'; simpl in E, E'.
  - injection E as <-. injection E' as <-.
    rewrite (scalar_empty ft fv Hft T1 Ee), (scalar_empty ft fv' Hft T1' Ee').
    f_equal. eapply IH; eassumption.
  - exfalso. injection E as <-. destruct (enc ft fv') as [j'|]; [|discriminate E'].
    injection E' as E'. apply Hn. apply K. rewrite <- E'. now left.
  - exfalso. injection E' as <-. destruct (enc ft fv) as [j|]; [|discriminate E].
    injection E as E. apply Hn. apply K'. rewrite <- E. now left.
  - destruct (enc ft fv) as [j|] eqn:Ej; [|discriminate E].
    destruct (enc ft fv') as [j'|] eqn:Ej'; [|discriminate E'].
    injection E as <-. injection E' as Ej2 Er2. subst j' rest'.
    f_equal; [eapply scalar_enc_inj; eassumption | eapply IH; eassumption].
Qed.

Lemma id_preimage_injective : forall cd cd' j,
  has_type sch_claims_data cd = true -> has_type sch_claims_data cd' = true ->
  enc sch_claims_data cd = Some j -> enc sch_claims_data cd' = Some j -> cd = cd'.
Proof.
  intros cd cd' j Ht Ht' E E'.
  hnf_ty Ht. hnf_ty Ht'.
  apply ht_struct_inv in Ht as [vs [-> Ht]]. apply ht_struct_inv in Ht' as [vs' [-> Ht']].
  rewrite has_type_struct_o in Ht, Ht'.
  match type of Ht with has_type_flds ?fs _ = true =>
    change (enc (TStruct fs) (VStruct vs) = Some j) in E;
    change (enc (TStruct fs) (VStruct vs') = Some j) in E'
  end.
  rewrite enc_struct_o in E, E'.
  destruct (enc_flds _ vs) as [ms|] eqn:F; [|discriminate E].
  destruct (enc_flds _ vs') as [ms'|] eqn:F'; [|discriminate E'].
  simpl in E, E'. injection E as <-. injection E' as E'. subst ms'.
  f_equal. eapply enc_flds_scalar_inj; [| | exact Ht | exact Ht' | exact F | exact F'].
  - repeat (constructor; [split; [reflexivity | first [left; reflexivity | right; eexists; eexists; reflexivity]]|]).
    constructor.
  - repeat (constructor; [simpl; intuition discriminate|]). constructor.
Qed.

(* ====================================================================== *)
(* C13: the token is a function of the tree                                *)
(* ====================================================================== *)
Lemma token_function : forall jprint sign (j j' : json),
  j = j' -> token_of jprint sign j = token_of jprint sign j'.
Proof. intros jprint sign j j' ->. reflexivity. Qed.
