(* Proofs/SrcDecode.v — jwt.Decode, loadClaims and parseHeaders as translated from the Go source on this run
   (Gen/SrcDecode.v) decide exactly as the model's [decode].  Values the code handles without looking inside
   (a *Header, an identifier, the loaded Claims) are of an opaque type; here that type is instantiated by [gv] and
   the unknown functions of the translation (base64 decoding, json.Unmarshal into each type, the kind loaders, what
   the claims answer to verify / ExpectedPrefixes / Claims().Issuer, nkeys' role tests) by the model's oracles. *)
From JWT Require Import Base.GoSem Proofs.SrcBase Gen.SrcDecode Model.Decode.
Open Scope string_scope.
Open Scope list_scope.

(* (GKey: the key pair nkeys.FromPublicKey makes of an issuer; GGen: the struct DecodeGeneric unmarshals the payload into -
   its text, whether a data map was made for it, the kind and the tags re-homed into that map) *)
Inductive gv := GNil | GHeader (typ alg : string) | GIdent (i : ident) | GClaims (k : ckind) (data : string)
  | GKey (k : string) | GGen (data : string) (made : bool) (ty : option string) (tags : option (list string)).

Definition role_code (r : role) : Z :=
  match r with RAccount => 0 | ROperator => 112 | RUser => 160 | RServer => 104 | RCluster => 16 | RCurve => 184 | RNone => 255 end.

Section Oracles.
  Variable b64dec : string -> option string.
  Variable parse_header : string -> option (string * string).
  Variable parse_ident : string -> option ident.
  Variable unmarshal_ok : string -> ckind -> Z -> bool.
  Variable issuer_of : string -> string.
  Variable verify : string -> string -> string -> bool.
  Variable role_of : string -> role.

  Definition e1 : option string := Some "e".
  Definition o_decodeString (s : string) : string * option string :=
    match b64dec s with Some d => (d, None) | None => ("", e1) end.
  Definition o_unm_header (h : string) : gv * option string :=
    match parse_header h with Some (typ, alg) => (GHeader typ alg, None) | None => (GNil, e1) end.
  Definition o_unm_ident (d : string) : gv * option string :=
    match parse_ident d with Some i => (GIdent i, None) | None => (GNil, e1) end.
  Definition o_hdr_alg (v : gv) : string := match v with GHeader _ a => a | _ => "" end.
  Definition o_hdr_typ (v : gv) : string := match v with GHeader t _ => t | _ => "" end.
  Definition o_id_top (v : gv) : string := match v with GIdent i => id_top_type i | _ => "" end.
  Definition o_id_ntype (v : gv) : string := match v with GIdent i => id_nats_type i | _ => "" end.
  Definition o_id_nver (v : gv) : Z := match v with GIdent i => id_nats_version i | _ => 0%Z end.
  (* the loaders of operator / account / user / activation: versions 1 and 2 only *)
  Definition o_load (k : ckind) (d : string) (v : Z) : gv * option string :=
    if ((v =? 1)%Z || (v =? 2)%Z) && unmarshal_ok d k v then (GClaims k d, None) else (GNil, e1).
  (* the authorization loaders also hold the claims' own kind and version against what was dispatched *)
  Definition o_load_auth (k : ckind) (d : string) (v : Z) : gv * option string :=
    match parse_ident d with
    | Some i => if unmarshal_ok d k v && (id_nats_type i =? kind_name k) && (id_nats_version i =? v)%Z
                then (GClaims k d, None) else (GNil, e1)
    | None => (GNil, e1)
    end.
  Definition o_unm_generic (d : string) : gv * option string :=
    match parse_ident d with
    | Some i => if unmarshal_ok d KGeneric (id_version i) then (GClaims KGeneric d, None) else (GNil, e1)
    | None => (GNil, e1)
    end.
  Definition o_kind (v : gv) : option ckind := match v with GClaims k _ => Some k | _ => None end.
  Definition o_data (v : gv) : string := match v with GClaims _ d => d | _ => "" end.
  Definition o_is_generic (v : gv) : bool := match v with GClaims KGeneric _ => true | _ => false end.
  Definition o_verify (v : gv) (text sig : string) : bool := verify (issuer_of (o_data v)) text sig.
  Definition o_issuer (v : gv) : string := issuer_of (o_data v).
  Definition o_prefixes (v : gv) : list Z :=
    match v with
    | GClaims k _ => match expected_prefixes k with Some ps => map role_code ps | None => [] end
    | _ => []
    end.
  Definition o_is (r : role) (s : string) : bool := role_eqb (role_of s) r.

  Definition src_decode (tok : string) : gv * option string :=
    V2.Decode gv GNil o_decodeString o_unm_generic o_unm_header o_unm_ident
      (o_load KAccount) (o_load KActivation) (o_load_auth KAuthRequest) (o_load_auth KAuthResponse) (o_load KOperator) (o_load KUser)
      (o_is RAccount) (o_is ROperator) (o_is RServer) (o_is RUser)
      o_issuer o_prefixes o_is_generic o_verify o_hdr_alg o_hdr_typ o_id_ntype o_id_nver o_id_top tok.
  Definition src_load_claims (d : string) : Z * gv * option string :=
    V2.loadClaims gv GNil o_unm_generic o_unm_ident
      (o_load KAccount) (o_load KActivation) (o_load_auth KAuthRequest) (o_load_auth KAuthResponse) (o_load KOperator) (o_load KUser)
      o_id_ntype o_id_nver o_id_top d.
  Definition src_parse_headers (s : string) : gv * option string :=
    V2.parseHeaders gv GNil o_decodeString o_unm_header o_hdr_alg o_hdr_typ s.

  (* ---------- parseHeaders ---------- *)
  Lemma header_valid_src typ alg : V2.Header_Valid alg typ = None <-> header_valid typ alg = true.
  Proof.
    unfold V2.Header_Valid, header_valid, Gen.Tables.token_type_jwt, Gen.Tables.alg_old, Gen.Tables.alg_new. cbv zeta.
    destruct ("JWT" =? to_upper typ); cbn [negb andb]; [|split; discriminate].
    destruct (has_prefix "ed25519" (to_lower alg)); cbn [negb andb]; [|split; discriminate].
    destruct ("ed25519" =? to_lower alg); destruct ("ed25519-nkey" =? to_lower alg); cbn; split; congruence.
  Qed.

  Lemma src_parse_headers_spec s :
    src_parse_headers s =
    match b64dec s with
    | None => (GNil, e1)
    | Some hj => match parse_header hj with
                 | None => (GNil, e1)
                 | Some (typ, alg) => if header_valid typ alg then (GHeader typ alg, None)
                                      else (GNil, V2.Header_Valid alg typ)
                 end
    end.
  Proof.
    unfold src_parse_headers, V2.parseHeaders, o_decodeString. destruct (b64dec s) as [hj|]; cbn [go_err_isnil negb]; [|reflexivity].
    unfold o_unm_header. destruct (parse_header hj) as [[typ alg]|]; cbn [go_err_isnil negb o_hdr_alg o_hdr_typ]; [|reflexivity].
    destruct (V2.Header_Valid alg typ) as [e|] eqn:E; cbn [go_err_isnil negb].
    - destruct (header_valid typ alg) eqn:H; [|reflexivity].
      apply header_valid_src in H. congruence.
    - apply header_valid_src in E. rewrite E. reflexivity.
  Qed.

  (* ---------- loadClaims ---------- *)
  Lemma src_load_claims_none d : parse_ident d = None -> snd (src_load_claims d) <> None.
  Proof.
    intros Hi. unfold src_load_claims, V2.loadClaims. cbv zeta. unfold o_unm_ident. rewrite Hi. cbn. discriminate.
  Qed.

  Lemma src_load_claims_spec d i : parse_ident d = Some i ->
    match load_claims i (unmarshal_ok d) with
    | Some (k, ver) => src_load_claims d = (ver, GClaims k d, None)
    | None => snd (src_load_claims d) <> None
    end.
  Proof.
    intros Hi. unfold src_load_claims, V2.loadClaims. cbv zeta. unfold o_unm_ident. rewrite Hi.
    cbn [go_err_isnil negb o_id_nver o_id_top o_id_ntype].
    change (V2.identifier_Version (id_nats_version i) (id_top_type i)) with (id_version i).
    change (V2.identifier_Kind (id_nats_type i) (id_top_type i)) with (id_kind i).
    unfold load_claims, Gen.Tables.lib_version. rewrite Z.gtb_ltb.
    destruct (2 <? id_version i)%Z; [cbn; discriminate|].
    unfold typed_loader, o_load, o_load_auth, o_unm_generic. rewrite Hi.
    cbn [kind_name].
    destruct (id_kind i =? "operator"); [destruct ((id_version i =? 1)%Z || (id_version i =? 2)%Z); cbn [andb]; [destruct (unmarshal_ok d KOperator (id_version i))|]; cbn; try reflexivity; discriminate|].
    destruct (id_kind i =? "account"); [destruct ((id_version i =? 1)%Z || (id_version i =? 2)%Z); cbn [andb]; [destruct (unmarshal_ok d KAccount (id_version i))|]; cbn; try reflexivity; discriminate|].
    destruct (id_kind i =? "user"); [destruct ((id_version i =? 1)%Z || (id_version i =? 2)%Z); cbn [andb]; [destruct (unmarshal_ok d KUser (id_version i))|]; cbn; try reflexivity; discriminate|].
    destruct (id_kind i =? "activation"); [destruct ((id_version i =? 1)%Z || (id_version i =? 2)%Z); cbn [andb]; [destruct (unmarshal_ok d KActivation (id_version i))|]; cbn; try reflexivity; discriminate|].
    destruct (id_kind i =? "authorization_request").
    { destruct (unmarshal_ok d KAuthRequest (id_version i) && (id_nats_type i =? "authorization_request") && (id_nats_version i =? id_version i)%Z); cbn; try reflexivity; discriminate. }
    destruct (id_kind i =? "authorization_response").
    { destruct (unmarshal_ok d KAuthResponse (id_version i) && (id_nats_type i =? "authorization_response") && (id_nats_version i =? id_version i)%Z); cbn; try reflexivity; discriminate. }
    destruct (id_kind i =? "cluster"); [cbn; discriminate|].
    destruct (id_kind i =? "server"); [cbn; discriminate|].
    destruct (unmarshal_ok d KGeneric (id_version i)); cbn; try reflexivity; discriminate.
  Qed.
  (* ---------- Decode ---------- *)
  Lemma go_substr_prefix (tok : string) (n : nat) : go_substr tok 0%Z (Z.of_nat n) = substring 0 n tok.
  Proof. unfold go_substr. cbn [Z.to_nat]. rewrite Nat2Z.id, Nat.sub_0_r. reflexivity. Qed.

  Lemma err_some_not_nil (e : option string) : e <> None -> go_err_isnil e = false.
  Proof. destruct e; [reflexivity|congruence]. Qed.

  Theorem src_decode_spec (tok : string) :
    match decode b64dec parse_header parse_ident unmarshal_ok issuer_of verify role_of tok with
    | Some a => exists d, src_decode tok = (GClaims (a_kind a) d, None) /\ issuer_of d = a_iss a
    | None => snd (src_decode tok) <> None
    end.
  Proof.
    unfold src_decode, V2.Decode, decode. cbv zeta. rewrite go_split_dot.
    destruct (split dot tok) as [|c0 [|c1 [|c2 [|c3 r]]]]; try (cbn; discriminate).
    2:{ assert (H : (go_llen (c0 :: c1 :: c2 :: c3 :: r) =? 3)%Z = false) by (apply Z.eqb_neq; unfold go_llen; cbn [length]; lia).
        rewrite H. cbn. discriminate. }
    change (go_llen [c0; c1; c2] =? 3)%Z with true. cbn [negb].
    change (go_idx [c0; c1; c2] 0%Z) with c0. change (go_idx [c0; c1; c2] 1%Z) with c1. change (go_idx [c0; c1; c2] 2%Z) with c2.
    change (V2.parseHeaders gv GNil o_decodeString o_unm_header o_hdr_alg o_hdr_typ c0) with (src_parse_headers c0).
    rewrite src_parse_headers_spec.
    destruct (b64dec c0) as [hj|]; [|cbn; discriminate].
    destruct (parse_header hj) as [[typ alg]|]; [|cbn; discriminate].
    destruct (header_valid typ alg) eqn:Hv; cbn [negb].
    2:{ destruct (V2.Header_Valid alg typ) as [e|] eqn:E; [cbn; discriminate|].
        apply header_valid_src in E. congruence. }
    cbn [go_err_isnil negb]. unfold o_decodeString.
    destruct (b64dec c1) as [data|]; [|cbn; discriminate]. cbn [go_err_isnil negb].
    change (V2.loadClaims gv GNil o_unm_generic o_unm_ident (o_load KAccount) (o_load KActivation) (o_load_auth KAuthRequest)
              (o_load_auth KAuthResponse) (o_load KOperator) (o_load KUser) o_id_ntype o_id_nver o_id_top data) with (src_load_claims data).
    destruct (parse_ident data) as [i|] eqn:Hi.
    2:{ pose proof (src_load_claims_none data Hi) as Hn. destruct (src_load_claims data) as [[ver claim] err]. cbn [snd] in Hn.
        rewrite (err_some_not_nil err Hn). cbn. exact Hn. }
    pose proof (src_load_claims_spec data i Hi) as Hl.
    destruct (load_claims i (unmarshal_ok data)) as [[k ver]|].
    2:{ destruct (src_load_claims data) as [[ver claim] err]. cbn [snd] in Hl. rewrite (err_some_not_nil err Hl). cbn. exact Hl. }
    rewrite Hl. cbn [go_err_isnil negb].
    destruct (b64dec c2) as [sig|]; [|cbn; discriminate]. cbn [go_err_isnil negb].
    cbn [o_hdr_alg]. unfold o_verify, o_issuer. cbn [o_data].
    unfold Gen.Tables.alg_old, Gen.Tables.lib_version.
    assert (Hg : o_is_generic (GClaims k data) = ckind_eqb k KGeneric) by (destruct k; reflexivity).
    rewrite Hg.
    set (ver' := if ckind_eqb k KGeneric then if (alg =? "ed25519")%string then 1%Z else 2%Z else ver).
    assert (Hsub : go_substr tok 0%Z (go_slen c0 + go_slen c1 + 1) = substring 0 (String.length c0 + String.length c1 + 1) tok).
    { unfold go_slen. rewrite <- (go_substr_prefix tok (String.length c0 + String.length c1 + 1)). f_equal. lia. }
    rewrite Hsub. unfold protected.
    destruct (ver' <=? 1)%Z.
    - destruct (verify (issuer_of data) c1 sig); cbn [negb]; [|cbn; discriminate].
      destruct k; cbn; unfold o_is; destruct (role_of (issuer_of data)); cbn; try discriminate; eexists; split; reflexivity.
    - destruct (verify (issuer_of data) (substring 0 (String.length c0 + String.length c1 + 1) tok) sig); cbn [negb]; [|cbn; discriminate].
      destruct k; cbn; unfold o_is; destruct (role_of (issuer_of data)); cbn; try discriminate; eexists; split; reflexivity.
  Qed.
  (* ---------- the typed decoders ---------- *)
  Definition o_is_kind (k : ckind) (v : gv) : bool := match v with GClaims k' _ => ckind_eqb k' k | _ => false end.
  Definition src_decode_Operator (tok : string) : gv * option string :=
    V2.DecodeOperatorClaims gv GNil o_decodeString o_unm_generic o_unm_header o_unm_ident (o_load KAccount) (o_load KActivation) (o_load_auth KAuthRequest) (o_load_auth KAuthResponse) (o_load KOperator) (o_load KUser) (o_is RAccount) (o_is ROperator) (o_is RServer) (o_is RUser) o_issuer o_prefixes o_is_generic (o_is_kind KOperator) o_verify o_hdr_alg o_hdr_typ o_id_ntype o_id_nver o_id_top tok.
  Definition src_decode_Account (tok : string) : gv * option string :=
    V2.DecodeAccountClaims gv GNil o_decodeString o_unm_generic o_unm_header o_unm_ident (o_load KAccount) (o_load KActivation) (o_load_auth KAuthRequest) (o_load_auth KAuthResponse) (o_load KOperator) (o_load KUser) (o_is RAccount) (o_is ROperator) (o_is RServer) (o_is RUser) o_issuer o_prefixes (o_is_kind KAccount) o_is_generic o_verify o_hdr_alg o_hdr_typ o_id_ntype o_id_nver o_id_top tok.
  Definition src_decode_User (tok : string) : gv * option string :=
    V2.DecodeUserClaims gv GNil o_decodeString o_unm_generic o_unm_header o_unm_ident (o_load KAccount) (o_load KActivation) (o_load_auth KAuthRequest) (o_load_auth KAuthResponse) (o_load KOperator) (o_load KUser) (o_is RAccount) (o_is ROperator) (o_is RServer) (o_is RUser) o_issuer o_prefixes o_is_generic (o_is_kind KUser) o_verify o_hdr_alg o_hdr_typ o_id_ntype o_id_nver o_id_top tok.
  Definition src_decode_Activation (tok : string) : gv * option string :=
    V2.DecodeActivationClaims gv GNil o_decodeString o_unm_generic o_unm_header o_unm_ident (o_load KAccount) (o_load KActivation) (o_load_auth KAuthRequest) (o_load_auth KAuthResponse) (o_load KOperator) (o_load KUser) (o_is RAccount) (o_is ROperator) (o_is RServer) (o_is RUser) o_issuer o_prefixes (o_is_kind KActivation) o_is_generic o_verify o_hdr_alg o_hdr_typ o_id_ntype o_id_nver o_id_top tok.
  Definition src_decode_AuthorizationRequest (tok : string) : gv * option string :=
    V2.DecodeAuthorizationRequestClaims gv GNil o_decodeString o_unm_generic o_unm_header o_unm_ident (o_load KAccount) (o_load KActivation) (o_load_auth KAuthRequest) (o_load_auth KAuthResponse) (o_load KOperator) (o_load KUser) (o_is RAccount) (o_is ROperator) (o_is RServer) (o_is RUser) o_issuer o_prefixes (o_is_kind KAuthRequest) o_is_generic o_verify o_hdr_alg o_hdr_typ o_id_ntype o_id_nver o_id_top tok.
  Definition src_decode_AuthorizationResponse (tok : string) : gv * option string :=
    V2.DecodeAuthorizationResponseClaims gv GNil o_decodeString o_unm_generic o_unm_header o_unm_ident (o_load KAccount) (o_load KActivation) (o_load_auth KAuthRequest) (o_load_auth KAuthResponse) (o_load KOperator) (o_load KUser) (o_is RAccount) (o_is ROperator) (o_is RServer) (o_is RUser) o_issuer o_prefixes (o_is_kind KAuthResponse) o_is_generic o_verify o_hdr_alg o_hdr_typ o_id_ntype o_id_nver o_id_top tok.

  Ltac typed_decoder k :=
    intros tok; pose proof (src_decode_spec tok) as Hd; unfold decode_typed;
    match goal with |- context [V2.Decode _ _ _ _ _ _ _ _ _ _ _ _ _ _ _ _ _ _ _ _ _ _ _ _ _ ?t] => change (V2.Decode gv GNil o_decodeString o_unm_generic o_unm_header o_unm_ident
      (o_load KAccount) (o_load KActivation) (o_load_auth KAuthRequest) (o_load_auth KAuthResponse) (o_load KOperator) (o_load KUser)
      (o_is RAccount) (o_is ROperator) (o_is RServer) (o_is RUser)
      o_issuer o_prefixes o_is_generic o_verify o_hdr_alg o_hdr_typ o_id_ntype o_id_nver o_id_top t) with (src_decode t) end;
    destruct (decode b64dec parse_header parse_ident unmarshal_ok issuer_of verify role_of tok) as [a|];
    [ destruct Hd as [d [Hd Hiss]]; rewrite Hd; cbn [go_err_isnil negb o_is_kind];
      destruct (ckind_eqb (a_kind a) k) eqn:Ek; cbn [negb];
      [ apply ckind_eqb_eq in Ek; exists d; split; [rewrite <- Ek; reflexivity|exact Hiss] | cbn; discriminate ]
    | destruct (src_decode tok) as [v e]; cbn [snd] in Hd; rewrite (err_some_not_nil e Hd); cbn; exact Hd ].
  Theorem src_decode_Operator_spec : forall tok,
    match decode_typed b64dec parse_header parse_ident unmarshal_ok issuer_of verify role_of KOperator tok with
    | Some a => exists d, src_decode_Operator tok = (GClaims KOperator d, None) /\ issuer_of d = a_iss a
    | None => snd (src_decode_Operator tok) <> None
    end.
  Proof. unfold src_decode_Operator, V2.DecodeOperatorClaims. typed_decoder KOperator. Qed.
  Theorem src_decode_Account_spec : forall tok,
    match decode_typed b64dec parse_header parse_ident unmarshal_ok issuer_of verify role_of KAccount tok with
    | Some a => exists d, src_decode_Account tok = (GClaims KAccount d, None) /\ issuer_of d = a_iss a
    | None => snd (src_decode_Account tok) <> None
    end.
  Proof. unfold src_decode_Account, V2.DecodeAccountClaims. typed_decoder KAccount. Qed.
  Theorem src_decode_User_spec : forall tok,
    match decode_typed b64dec parse_header parse_ident unmarshal_ok issuer_of verify role_of KUser tok with
    | Some a => exists d, src_decode_User tok = (GClaims KUser d, None) /\ issuer_of d = a_iss a
    | None => snd (src_decode_User tok) <> None
    end.
  Proof. unfold src_decode_User, V2.DecodeUserClaims. typed_decoder KUser. Qed.
  Theorem src_decode_Activation_spec : forall tok,
    match decode_typed b64dec parse_header parse_ident unmarshal_ok issuer_of verify role_of KActivation tok with
    | Some a => exists d, src_decode_Activation tok = (GClaims KActivation d, None) /\ issuer_of d = a_iss a
    | None => snd (src_decode_Activation tok) <> None
    end.
  Proof. unfold src_decode_Activation, V2.DecodeActivationClaims. typed_decoder KActivation. Qed.
  Theorem src_decode_AuthorizationRequest_spec : forall tok,
    match decode_typed b64dec parse_header parse_ident unmarshal_ok issuer_of verify role_of KAuthRequest tok with
    | Some a => exists d, src_decode_AuthorizationRequest tok = (GClaims KAuthRequest d, None) /\ issuer_of d = a_iss a
    | None => snd (src_decode_AuthorizationRequest tok) <> None
    end.
  Proof. unfold src_decode_AuthorizationRequest, V2.DecodeAuthorizationRequestClaims. typed_decoder KAuthRequest. Qed.
  Theorem src_decode_AuthorizationResponse_spec : forall tok,
    match decode_typed b64dec parse_header parse_ident unmarshal_ok issuer_of verify role_of KAuthResponse tok with
    | Some a => exists d, src_decode_AuthorizationResponse tok = (GClaims KAuthResponse d, None) /\ issuer_of d = a_iss a
    | None => snd (src_decode_AuthorizationResponse tok) <> None
    end.
  Proof. unfold src_decode_AuthorizationResponse, V2.DecodeAuthorizationResponseClaims. typed_decoder KAuthResponse. Qed.
End Oracles.

(* ---------- ClaimsData.verify ---------- *)
(* accepted exactly when: the issuer text is a public key (nkeys.FromPublicKey), it decodes to a key of 32 bytes, and that
   key verifies the signature over exactly the text handed in *)
Lemma src_verify_spec (V : Type) (vnil : V) (iss : string)
  (decode_key : Z -> string -> string * option string) (from_public : string -> V * option string) (prefix : string -> Z)
  (kp_verify : V -> string -> string -> option string) (payload sig : string) :
  V2.ClaimsData_verify V vnil iss decode_key from_public prefix kp_verify payload sig = true <->
  snd (from_public iss) = None /\ snd (decode_key (prefix iss) iss) = None /\
  go_slen (fst (decode_key (prefix iss) iss)) = 32%Z /\ kp_verify (fst (from_public iss)) payload sig = None.
Proof.
  unfold V2.ClaimsData_verify.
  destruct (from_public iss) as [kp e1']; cbn [fst snd]. destruct e1' as [x|]; cbn [go_err_isnil negb]; [split; [discriminate|intros [H _]; discriminate]|].
  destruct (decode_key (prefix iss) iss) as [raw e2]; cbn [fst snd]. destruct e2 as [x|]; cbn [go_err_isnil negb orb]; [split; [discriminate|intros [_ [H _]]; discriminate]|].
  destruct (Z.eqb_spec (go_slen raw) 32) as [El|El]; cbn [negb].
  - destruct (kp_verify kp payload sig) as [x|]; cbn [go_err_isnil negb]; split; try discriminate; try tauto.
    intros [_ [_ [_ H]]]; discriminate.
  - split; [discriminate|intros [_ [_ [H _]]]; congruence].
Qed.

Print Assumptions src_parse_headers_spec.
Print Assumptions src_load_claims_spec.
Print Assumptions src_decode_spec.
Print Assumptions src_decode_Operator_spec.
Print Assumptions src_verify_spec.

(* ---------- DecodeGeneric ----------
   The payload is unmarshalled into a struct of the function's own (the generic claims and the version-1 fields side
   by side): an opaque local.  verify is the translated ClaimsData.verify, fed nkeys functions instantiated so that it
   answers the model's [verify] of the issuer; the stores that re-home a version-1 kind and tags into the data map
   rebind the local - here they are recorded in the value, so the theorem says what was re-homed. *)
Section GenericOracles.
  Variable b64dec : string -> option string.
  Variable parse_header : string -> option (string * string).
  Variable issuer_of : string -> string.
  Variable gunm_ok : string -> bool.
  Variable verify : string -> string -> string -> bool.
  Variable g_data_nil : string -> bool.        (* the payload has no nats section *)
  Variable g_type : string -> string.          (* its top-level (version-1) type *)
  Variable g_tags : string -> list string.     (* its top-level (version-1) tags *)

  Definition og_unm (d : string) : gv * option string := if gunm_ok d then (GGen d false None None, None) else (GNil, e1).
  Definition og_data (v : gv) : string := match v with GGen d _ _ _ => d | _ => "" end.
  Definition og_issuer (v : gv) : string := issuer_of (og_data v).
  Definition og_claims (v : gv) : gv := v.
  Definition og_data_isnil (v : gv) : bool := match v with GGen d made _ _ => negb made && g_data_nil d | _ => true end.
  Definition og_type (v : gv) : string := g_type (og_data v).
  Definition og_tags (v : gv) : list string := g_tags (og_data v).
  Definition og_set_make (v : gv) : gv := match v with GGen d _ t g => GGen d true t g | _ => v end.
  Definition og_set_str (v : gv) (k s : string) : gv :=
    match v with GGen d m t g => if (k =? "type")%string then GGen d m (Some s) g else v | _ => v end.
  Definition og_set_list (v : gv) (k : string) (l : list string) : gv :=
    match v with GGen d m t g => if (k =? "tags")%string then GGen d m t (Some l) else v | _ => v end.
  Definition thirty_two : string := "01234567890123456789012345678901".
  Definition og_decode_key (_ : Z) (_ : string) : string * option string := (thirty_two, None).
  Definition og_from_public (iss : string) : gv * option string := (GKey iss, None).
  Definition og_prefix (_ : string) : Z := 0%Z.
  Definition og_kp_verify (v : gv) (text sig : string) : option string :=
    match v with GKey k => if verify k text sig then None else e1 | _ => e1 end.

  Definition src_decode_generic (tok : string) : gv * option string :=
    V2.DecodeGeneric gv GNil (o_decodeString b64dec) (o_unm_header parse_header) og_unm og_decode_key og_from_public og_prefix
      o_hdr_alg o_hdr_typ og_kp_verify og_claims og_data_isnil og_tags og_type og_issuer og_set_list og_set_str og_set_make tok.

  (* what DecodeGeneric hands back for a payload text: as unmarshalled when the token is in the version-2 layout; with a data
     map made if there was none, the kind and the tags re-homed if there are any, when it is in the version-1 layout *)
  Definition generic_result (l : layout) (d : string) : gv :=
    match l with
    | LV2 => GGen d false None None
    | LV1 => GGen d (g_data_nil d) (if (g_type d =? "")%string then None else Some (g_type d))
                 (match g_tags d with [] => None | t => Some t end)
    end.

  Lemma set_type d m t g s : og_set_str (GGen d m t g) "type" s = GGen d m (Some s) g.
  Proof. reflexivity. Qed.
  Lemma set_tags d m t g l : og_set_list (GGen d m t g) "tags" l = GGen d m t (Some l).
  Proof. reflexivity. Qed.
  Lemma og_verify_spec (iss text sig : string) :
    V2.ClaimsData_verify gv GNil iss og_decode_key og_from_public og_prefix og_kp_verify text sig = verify iss text sig.
  Proof.
    destruct (verify iss text sig) eqn:Ev.
    - apply src_verify_spec. cbn. rewrite Ev. repeat split; reflexivity.
    - destruct (V2.ClaimsData_verify gv GNil iss og_decode_key og_from_public og_prefix og_kp_verify text sig) eqn:E; [|reflexivity].
      apply src_verify_spec in E. destruct E as [_ [_ [_ E]]]. cbn in E. rewrite Ev in E. discriminate.
  Qed.

  Theorem src_decode_generic_spec (tok : string) :
    match decode_generic b64dec parse_header issuer_of gunm_ok verify tok with
    | Some a => exists d, src_decode_generic tok = (generic_result (a_layout a) d, None) /\ issuer_of d = a_iss a /\ a_kind a = KGeneric
    | None => snd (src_decode_generic tok) <> None
    end.
  Proof.
    unfold src_decode_generic, V2.DecodeGeneric, decode_generic. cbv zeta. rewrite go_split_dot.
    destruct (split dot tok) as [|c0 [|c1 [|c2 [|c3 r]]]]; try (cbn; discriminate).
    2:{ assert (H : (go_llen (c0 :: c1 :: c2 :: c3 :: r) =? 3)%Z = false) by (apply Z.eqb_neq; unfold go_llen; cbn [length]; lia).
        rewrite H. cbn. discriminate. }
    change (go_llen [c0; c1; c2] =? 3)%Z with true. cbn [negb].
    change (go_idx [c0; c1; c2] 0%Z) with c0. change (go_idx [c0; c1; c2] 1%Z) with c1. change (go_idx [c0; c1; c2] 2%Z) with c2.
    change (V2.parseHeaders gv GNil (o_decodeString b64dec) (o_unm_header parse_header) o_hdr_alg o_hdr_typ c0) with (src_parse_headers b64dec parse_header c0).
    rewrite src_parse_headers_spec.
    destruct (b64dec c0) as [hj|]; [|cbn; discriminate].
    destruct (parse_header hj) as [[typ alg]|]; [|cbn; discriminate].
    destruct (header_valid typ alg) eqn:Hv; cbn [negb].
    2:{ destruct (V2.Header_Valid alg typ) as [e|] eqn:E; [cbn; discriminate|].
        apply header_valid_src in E. congruence. }
    cbn [go_err_isnil negb]. unfold o_decodeString.
    destruct (b64dec c1) as [data|]; [|cbn; discriminate]. cbn [go_err_isnil negb].
    unfold og_unm. destruct (gunm_ok data); cbn [negb go_err_isnil]; [|cbn; discriminate].
    destruct (b64dec c2) as [sig|]; [|cbn; discriminate]. cbn [go_err_isnil negb].
    cbn [o_hdr_alg]. unfold og_issuer. cbn [og_data]. rewrite !og_verify_spec.
    unfold Gen.Tables.alg_old.
    assert (Hsub : go_substr tok 0%Z (go_slen c0 + go_slen c1 + 1) = substring 0 (String.length c0 + String.length c1 + 1) tok).
    { unfold go_slen. rewrite <- (go_substr_prefix tok (String.length c0 + String.length c1 + 1)). f_equal. lia. }
    rewrite Hsub. unfold protected.
    destruct (alg =? "ed25519")%string.
    - destruct (verify (issuer_of data) c1 sig); cbn [negb]; [|cbn; discriminate].
      exists data. cbn [a_layout a_iss a_kind generic_result]. split; [|split; reflexivity].
      unfold og_claims, og_type, og_tags. cbn [og_data_isnil negb andb og_data].
      assert (Hmake : (if g_data_nil data then og_set_make (GGen data false None None) else GGen data false None None)
                      = GGen data (g_data_nil data) None None) by (destruct (g_data_nil data); reflexivity).
      rewrite Hmake. cbn [og_data].
      destruct (g_type data =? "")%string; cbn [negb]; rewrite ?set_type; cbn [og_data];
        (destruct (g_tags data) as [|t ts];
         [reflexivity|
          replace (go_llen (t :: ts) =? 0)%Z with false by (symmetry; apply Z.eqb_neq; unfold go_llen; cbn [length]; lia);
          cbn [negb]; rewrite set_tags; reflexivity]).
    - destruct (verify (issuer_of data) (substring 0 (String.length c0 + String.length c1 + 1) tok) sig); cbn [negb]; [|cbn; discriminate].
      exists data. cbn [a_layout a_iss a_kind generic_result]. repeat split; reflexivity.
  Qed.
End GenericOracles.


(* ---------- the four loaders with a version-1 form: loadOperator, loadAccount, loadUser, loadActivation ----------
   Each is a switch on the version handed in by loadClaims: 1 - the payload is unmarshalled into the version-1 shadow
   struct (for users and activations after the "no limit" presets, and nothing else, were stored into it) and migrated;
   2 - it is unmarshalled into the claims struct (an account's key set made beforehand, its flat JetStream limits cleared
   exactly when tiers are present); anything else is refused before the payload is looked at.  The structs are fresh
   opaque locals; json.Unmarshal, the stores and Migrate are unknown functions - the statements hold whatever they are. *)
Section Loaders.
  Context {V : Type} (vnil : V).
  Definition refuse_version : V * option string := (vnil, Some "library supports version %d or less - received %d").
  Definition after_unmarshal (r : V * option string) (k : V -> V * option string) : V * option string :=
    if negb (go_err_isnil (snd r)) then (vnil, snd r) else k (fst r).

  Lemma src_load_operator unm2 unm1 migrate (data : string) (version : Z) :
    V2.loadOperator V vnil unm2 unm1 migrate data version
    = if (version =? 1)%Z then after_unmarshal (unm1 data) migrate
      else if (version =? 2)%Z then after_unmarshal (unm2 data) (fun v => (v, None))
      else refuse_version.
  Proof.
    unfold V2.loadOperator, after_unmarshal, refuse_version. cbv zeta.
    destruct (version =? 1)%Z; [destruct (unm1 data) as [v e]; reflexivity|].
    destruct (version =? 2)%Z; [destruct (unm2 data) as [v e]; reflexivity|reflexivity].
  Qed.
  Lemma src_load_account unm2into unm1 (tiers : V -> list (string * V)) clear_flat make_keys migrate (data : string) (version : Z) :
    V2.loadAccount V vnil unm2into unm1 tiers clear_flat make_keys migrate data version
    = if (version =? 1)%Z then after_unmarshal (unm1 data) migrate
      else if (version =? 2)%Z
           then after_unmarshal (unm2into (make_keys vnil) data)
                  (fun v => (if (go_llen (tiers v) >? 0)%Z then clear_flat v else v, None))
      else refuse_version.
  Proof.
    unfold V2.loadAccount, after_unmarshal, refuse_version. cbv zeta.
    destruct (version =? 1)%Z; [destruct (unm1 data) as [v e]; reflexivity|].
    destruct (version =? 2)%Z; [destruct (unm2into (make_keys vnil) data) as [v e]; reflexivity|reflexivity].
  Qed.
  Lemma src_load_user unm2 unm1into migrate set_nolimits (set_max : V -> Z -> V) (data : string) (version : Z) :
    V2.loadUser V vnil unm2 unm1into migrate set_nolimits set_max data version
    = if (version =? 1)%Z then after_unmarshal (unm1into (set_max (set_nolimits vnil) (-1)%Z) data) migrate
      else if (version =? 2)%Z then after_unmarshal (unm2 data) (fun v => (v, None))
      else refuse_version.
  Proof.
    unfold V2.loadUser, after_unmarshal, refuse_version. cbv zeta.
    destruct (version =? 1)%Z; [destruct (unm1into (set_max (set_nolimits vnil) (-1)%Z) data) as [v e]; reflexivity|].
    destruct (version =? 2)%Z; [destruct (unm2 data) as [v e]; reflexivity|reflexivity].
  Qed.
  Lemma src_load_activation unm2 unm1into migrate (set_max set_payload : V -> Z -> V) (data : string) (version : Z) :
    V2.loadActivation V vnil unm2 unm1into migrate set_max set_payload data version
    = if (version =? 1)%Z then after_unmarshal (unm1into (set_payload (set_max vnil (-1)%Z) (-1)%Z) data) migrate
      else if (version =? 2)%Z then after_unmarshal (unm2 data) (fun v => (v, None))
      else refuse_version.
  Proof.
    unfold V2.loadActivation, after_unmarshal, refuse_version. cbv zeta.
    destruct (version =? 1)%Z; [destruct (unm1into (set_payload (set_max vnil (-1)%Z) (-1)%Z) data) as [v e]; reflexivity|].
    destruct (version =? 2)%Z; [destruct (unm2 data) as [v e]; reflexivity|reflexivity].
  Qed.

  (* the version rule of the four kinds, at the code: any version but 1 and 2 is refused, whatever the payload holds *)
  Lemma neq_eqb (a b : Z) : a <> b -> (a =? b)%Z = false.
  Proof. intros H. now apply Z.eqb_neq. Qed.
  Lemma src_loaders_refuse_other_versions (data : string) (version : Z) : version <> 1%Z -> version <> 2%Z ->
    (forall unm2 unm1 migrate, V2.loadOperator V vnil unm2 unm1 migrate data version = refuse_version) /\
    (forall unm2into unm1 tiers clear_flat make_keys migrate, V2.loadAccount V vnil unm2into unm1 tiers clear_flat make_keys migrate data version = refuse_version) /\
    (forall unm2 unm1into migrate set_nolimits set_max, V2.loadUser V vnil unm2 unm1into migrate set_nolimits set_max data version = refuse_version) /\
    (forall unm2 unm1into migrate set_max set_payload, V2.loadActivation V vnil unm2 unm1into migrate set_max set_payload data version = refuse_version).
  Proof.
    intros H1 H2. repeat split; intros.
    - rewrite src_load_operator, (neq_eqb _ _ H1), (neq_eqb _ _ H2). reflexivity.
    - rewrite src_load_account, (neq_eqb _ _ H1), (neq_eqb _ _ H2). reflexivity.
    - rewrite src_load_user, (neq_eqb _ _ H1), (neq_eqb _ _ H2). reflexivity.
    - rewrite src_load_activation, (neq_eqb _ _ H1), (neq_eqb _ _ H2). reflexivity.
  Qed.
End Loaders.

(* ---------- the version-1 migrations: v1OperatorClaims / v1AccountClaims / v1UserClaims / v1ActivationClaims .migrateV1 ----------
   Each builds the version-2 claims in a struct of its own by a sequence of stores.  The opaque type is instantiated
   by the LOG of those stores ([line]s: which field, from what), the values of the version-1 struct that are themselves
   opaque by one-line logs naming them: the theorems say which field receives what, in order, and that nothing else
   is written. *)
Inductive line :=
  | LSrc (name : string)                              (* an opaque value of the version-1 struct, by name *)
  | LCopy (field : string) (from : list line)         (* field := that opaque value *)
  | LCopyAll (field : string) (from : list (list line))
  | LStr (field : string) (v : string) | LList (field : string) (v : list string) | LZ (field : string) (z : Z)
  | LBool (field : string) (b : bool) | LRevs (field : string) (l : list (string * Z))
  | LMake (field : string)                            (* field := a new empty map *)
  | LZero (field : string)                            (* field := the zero struct *)
  | LCall (field meth : string) (arg : string).       (* field.meth(arg) *)
Definition mlog := list line.
Definition wr (l : line) (a : mlog) : mlog := a ++ [l].

Lemma src_migrate_activation (cd : mlog) (ia : string) (tags : list string) (ty subj : string) (kind : Z) :
  V2.v1ActivationClaims_migrateV1 mlog [] cd ia tags ty subj kind
    (fun a v => wr (LStr "Activation.IssuerAccount" v) a) (fun a v => wr (LList "Activation.Tags" v) a) (fun a v => wr (LStr "Activation.Type" v) a)
    (fun a v => wr (LCopy "ClaimsData" v) a) (fun a v => wr (LStr "ImportSubject" v) a) (fun a v => wr (LZ "ImportType" v) a) (fun a v => wr (LZ "Version" v) a)
  = ([LCopy "ClaimsData" cd; LStr "Activation.Type" ty; LList "Activation.Tags" tags; LStr "Activation.IssuerAccount" ia;
      LStr "ImportSubject" subj; LZ "ImportType" kind; LZ "Version" 1%Z], None).
Proof. reflexivity. Qed.

Lemma src_migrate_user (cd : mlog) (ia : string) (tags : list string) (ty : string) (bearer : bool) (limits perms : mlog) :
  V2.v1UserClaims_migrateV1 mlog [] cd ia tags ty bearer limits perms
    (fun a v => wr (LCopy "ClaimsData" v) a) (fun a v => wr (LBool "User.BearerToken" v) a) (fun a v => wr (LStr "User.IssuerAccount" v) a)
    (fun a v => wr (LCopy "User.Limits" v) a) (fun a v => wr (LCopy "User.Permissions" v) a) (fun a v => wr (LList "User.Tags" v) a)
    (fun a v => wr (LStr "User.Type" v) a) (fun a v => wr (LZ "Version" v) a)
  = ([LCopy "ClaimsData" cd; LStr "User.Type" ty; LList "User.Tags" tags; LStr "User.IssuerAccount" ia;
      LCopy "User.Permissions" perms; LCopy "User.Limits" limits; LBool "User.BearerToken" bearer; LZ "Version" 1%Z], None).
Proof. reflexivity. Qed.

Lemma src_migrate_operator (cd : mlog) (tags : list string) (ty url : string) (urls keys : list string) (sys : string) :
  V2.v1OperatorClaims_migrateV1 mlog [] cd tags ty url urls keys sys
    (fun a v => wr (LCopy "ClaimsData" v) a) (fun a v => wr (LStr "Operator.AccountServerURL" v) a) (fun a v => wr (LList "Operator.OperatorServiceURLs" v) a)
    (fun a v => wr (LList "Operator.SigningKeys" v) a) (fun a v => wr (LStr "Operator.SystemAccount" v) a) (fun a v => wr (LList "Operator.Tags" v) a)
    (fun a v => wr (LStr "Operator.Type" v) a) (fun a v => wr (LZ "Version" v) a)
  = ([LCopy "ClaimsData" cd; LStr "Operator.Type" ty; LList "Operator.Tags" tags; LList "Operator.SigningKeys" keys;
      LStr "Operator.AccountServerURL" url; LList "Operator.OperatorServiceURLs" urls; LStr "Operator.SystemAccount" sys; LZ "Version" 1%Z], None).
Proof. reflexivity. Qed.

Lemma add_keys_loop : forall (keys : list string) (i : Z) (a : mlog),
  go_range (R:=mlog * option string) (fun (_ : Z) (v : string) (go_st : mlog) => Cont (wr (LCall "Account.SigningKeys" "Add" v) go_st)) i keys a
  = inl (a ++ map (LCall "Account.SigningKeys" "Add") keys).
Proof.
  induction keys as [|k keys IH]; intros i a; [cbn; now rewrite app_nil_r|].
  cbn [go_range map]. rewrite IH. unfold wr. rewrite <- app_assoc. reflexivity.
Qed.

Lemma src_migrate_account (cd : mlog) (tags : list string) (ty : string) (exports imports : list mlog) (alim nlim : mlog)
    (revs : list (string * Z)) (keys : list string) :
  V2.v1AccountClaims_migrateV1 mlog [] cd tags ty exports imports alim nlim revs keys
    (fun a v => wr (LCall "Account.SigningKeys" "Add" v) a)
    (fun a v => wr (LCopyAll "Account.Exports" v) a) (fun a v => wr (LCopyAll "Account.Imports" v) a)
    (fun a v => wr (LCopy "Account.Limits.AccountLimits" v) a) (fun a => wr (LZero "Account.Limits.JetStreamLimits") a)
    (fun a v => wr (LCopy "Account.Limits.NatsLimits" v) a) (fun a v => wr (LRevs "Account.Revocations" v) a)
    (fun a => wr (LMake "Account.SigningKeys") a) (fun a v => wr (LList "Account.Tags" v) a) (fun a v => wr (LStr "Account.Type" v) a)
    (fun a v => wr (LCopy "ClaimsData" v) a) (fun a v => wr (LZ "Version" v) a)
  = ([LCopy "ClaimsData" cd; LStr "Account.Type" ty; LList "Account.Tags" tags; LCopyAll "Account.Imports" imports; LCopyAll "Account.Exports" exports;
      LCopy "Account.Limits.AccountLimits" alim; LCopy "Account.Limits.NatsLimits" nlim; LZero "Account.Limits.JetStreamLimits"; LMake "Account.SigningKeys"]
     ++ map (LCall "Account.SigningKeys" "Add") keys ++ [LRevs "Account.Revocations" revs; LZ "Version" 1%Z], None).
Proof.
  unfold V2.v1AccountClaims_migrateV1. cbv zeta.
  match goal with |- context [go_range ?B 0%Z keys ?a0] =>
    change (go_range B 0%Z keys a0) with (go_range (R:=mlog * option string) (fun (_ : Z) (v : string) (go_st : mlog) => Cont (wr (LCall "Account.SigningKeys" "Add" v) go_st)) 0%Z keys a0) end.
  rewrite add_keys_loop. cbv iota beta. unfold wr. cbn [app]. rewrite <- !app_assoc. reflexivity.
Qed.

(* ---------- the authorization loaders (no version-1 form): the payload unmarshalled, then the claims' own kind and the
   claims' OWN version held against what loadClaims dispatched on - the version that also selects the signed text (the F7
   repair); the claims are handed back as unmarshalled ---------- *)
Section AuthLoaders.
  Context {V : Type} (vnil : V).
  Lemma src_load_auth_request (unm : string -> V * option string) (ty : V -> string) (ver : V -> Z) (data : string) (version : Z) :
    V2.loadAuthorizationRequest V vnil unm ty ver data version
    = match snd (unm data) with
      | Some e => (vnil, Some e)
      | None => if negb (ty (fst (unm data)) =? "authorization_request")%string then (vnil, Some "not an authorization request claim")
                else if negb (ver (fst (unm data)) =? version)%Z then (vnil, Some "authorization request claim version mismatch")
                else (fst (unm data), None)
      end.
  Proof. unfold V2.loadAuthorizationRequest. cbv zeta. destruct (unm data) as [v [e|]]; reflexivity. Qed.
  Lemma src_load_auth_response (unm : string -> V * option string) (ty : V -> string) (ver : V -> Z) (data : string) (version : Z) :
    V2.loadAuthorizationResponse V vnil unm ty ver data version
    = match snd (unm data) with
      | Some e => (vnil, Some e)
      | None => if negb (ty (fst (unm data)) =? "authorization_response")%string then (vnil, Some "not an authorization response claim")
                else if negb (ver (fst (unm data)) =? version)%Z then (vnil, Some "authorization response claim version mismatch")
                else (fst (unm data), None)
      end.
  Proof. unfold V2.loadAuthorizationResponse. cbv zeta. destruct (unm data) as [v [e|]]; reflexivity. Qed.
  (* accepted claims report the version that was dispatched on - and are what was unmarshalled, untouched *)
  Lemma src_load_auth_response_version unm ty ver data version v :
    V2.loadAuthorizationResponse V vnil unm ty ver data version = (v, None) -> v = fst (unm data) /\ ver v = version.
  Proof.
    rewrite src_load_auth_response. destruct (unm data) as [u [e|]]; cbn [fst snd]; [discriminate|].
    destruct (negb (ty u =? "authorization_response")%string); [discriminate|].
    destruct (ver u =? version)%Z eqn:E; cbn [negb]; [|discriminate].
    intros H. inversion H. subst. split; [reflexivity|now apply Z.eqb_eq].
  Qed.
  Lemma src_load_auth_request_version unm ty ver data version v :
    V2.loadAuthorizationRequest V vnil unm ty ver data version = (v, None) -> v = fst (unm data) /\ ver v = version.
  Proof.
    rewrite src_load_auth_request. destruct (unm data) as [u [e|]]; cbn [fst snd]; [discriminate|].
    destruct (negb (ty u =? "authorization_request")%string); [discriminate|].
    destruct (ver u =? version)%Z eqn:E; cbn [negb]; [|discriminate].
    intros H. inversion H. subst. split; [reflexivity|now apply Z.eqb_eq].
  Qed.
End AuthLoaders.
