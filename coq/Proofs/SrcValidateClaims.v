(* Proofs/SrcValidateClaims.v — the claims-level Validate methods translated from the Go source on this run
   (Gen/SrcValidateClaims.v): what each appends to the validation results is the model's issue list.  Judgements of
   nkeys and of the time package are unknown functions in the translation; the theorems instantiate them by the
   model's Section variables (key roles, clock-time syntax). *)
From JWT Require Import Base.GoSem Proofs.SrcBase Gen.SrcSubject Proofs.SrcSubject Gen.SrcValidateClaims Model.Subject Model.Validate.
Open Scope string_scope.
Open Scope list_scope.

Definition goi (i : issue) : go_issue :=
  match i with Blocking => GoError | Warning => GoWarning | TimeCheck => GoTimeCheck end.
Lemma map_when (b : bool) (i : issue) : map goi (when b i) = if b then [goi i] else [].
Proof. destruct b; reflexivity. Qed.
Lemma if_app2 {A} (b : bool) (X l1 l2 : list A) : (if b then X ++ l1 else X ++ l2) = X ++ (if b then l1 else l2).
Proof. destruct b; reflexivity. Qed.
Lemma if_app_l {A} (b : bool) (X l : list A) : (if b then X ++ l else X) = X ++ (if b then l else []).
Proof. destruct b; [reflexivity|now rewrite app_nil_r]. Qed.
Lemma if_app_r {A} (b : bool) (X l : list A) : (if b then X else X ++ l) = X ++ (if b then [] else l).
Proof. destruct b; [now rewrite app_nil_r|reflexivity]. Qed.
Ltac factor_reports := repeat first [rewrite <- app_assoc | rewrite if_app2 | rewrite if_app_l | rewrite if_app_r].

(* ---------- ClaimsData.Validate, Subject.Validate (this group's copies) ---------- *)
Lemma vc_claims_data now (c : claims_data) (vr : list go_issue) :
  V2.ClaimsData_Validate (cd_exp c) (cd_nbf c) now vr = vr ++ map goi (v_claims_data now c).
Proof.
  unfold V2.ClaimsData_Validate, v_claims_data. cbv zeta. rewrite map_app, !map_when, !Z.gtb_ltb.
  factor_reports. reflexivity.
Qed.

Lemma go_sbyte_first (s : string) : (go_sbyte s 0 =? 46)%Z = is_dot (str_first s).
Proof.
  destruct s as [|c r]; [reflexivity|]. unfold go_sbyte. cbn [Z.to_nat go_sbyte_nat str_first is_dot].
  unfold dot. destruct (Ascii.eqb_spec c "."%char) as [->|Hne]; [reflexivity|].
  apply Z.eqb_neq. intros H. apply Hne. apply (f_equal Z.to_nat) in H. rewrite Nat2Z.id in H.
  change (Z.to_nat 46) with (nat_of_ascii "."%char) in H.
  rewrite <- (ascii_nat_embedding c), <- (ascii_nat_embedding "."%char). now f_equal.
Qed.
Lemma go_sbyte_nat_last : forall (s : string), s <> "" ->
  go_sbyte_nat s (String.length s - 1) = match str_last s with Some c => Z.of_nat (nat_of_ascii c) | None => 0%Z end.
Proof.
  assert (Hrev : forall s c, srev (String c s) = (srev s ++ String c "")%string).
  { intros s c. unfold srev. cbn [srev_acc]. rewrite (srev_acc_app s (String c "")). reflexivity. }
  assert (Hfirst : forall a b, a <> "" -> str_first (a ++ b)%string = str_first a).
  { intros a b Ha. destruct a; [congruence|reflexivity]. }
  assert (Hne : forall s, s <> "" -> srev s <> "").
  { intros s Hs Hr. apply Hs. rewrite <- (srev_involutive s), Hr. reflexivity. }
  assert (Hgen : forall r c, go_sbyte_nat (String c r) (String.length r) =
            match str_last (String c r) with Some c => Z.of_nat (nat_of_ascii c) | None => 0%Z end).
  { induction r as [|c' r' IH]; intros c; [reflexivity|].
    change (go_sbyte_nat (String c (String c' r')) (String.length (String c' r'))) with (go_sbyte_nat (String c' r') (String.length r')).
    rewrite IH.
    unfold str_last. rewrite (Hrev (String c' r') c). rewrite Hfirst by (apply Hne; discriminate). reflexivity. }
  intros s Hs. destruct s as [|c r]; [congruence|].
  replace (String.length (String c r) - 1)%nat with (String.length r) by (cbn [String.length]; lia).
  apply Hgen.
Qed.
Lemma go_sbyte_last (s : string) : s <> "" -> (go_sbyte s (go_slen s - 1) =? 46)%Z = is_dot (str_last s).
Proof.
  intros Hs. unfold go_sbyte, go_slen.
  replace (Z.to_nat (Z.of_nat (String.length s) - 1)) with (String.length s - 1)%nat by lia.
  rewrite go_sbyte_nat_last by exact Hs.
  destruct (str_last s) as [c|] eqn:E; cbn [is_dot]; [|reflexivity].
  unfold dot. destruct (Ascii.eqb_spec c "."%char) as [->|Hne]; [reflexivity|].
  apply Z.eqb_neq. intros H. apply Hne. apply (f_equal Z.to_nat) in H. rewrite Nat2Z.id in H.
  change (Z.to_nat 46) with (nat_of_ascii "."%char) in H.
  rewrite <- (ascii_nat_embedding c), <- (ascii_nat_embedding "."%char). now f_equal.
Qed.
Lemma vc_subject (s : string) (vr : list go_issue) : V2.Subject_Validate s vr = vr ++ map goi (v_subject s).
Proof.
  unfold V2.Subject_Validate, v_subject. cbv zeta.
  destruct (s =? "") eqn:Es; [reflexivity|].
  assert (Hs : s <> "") by (intros ->; discriminate).
  rewrite go_sbyte_first, go_sbyte_last by exact Hs.
  rewrite !map_app, !map_when. factor_reports. reflexivity.
Qed.

Section Oracles.
  Variable role_of : string -> role.
  Variable hhmmss_ok : string -> bool.
  Definition is_acct (k : string) : bool := is_role role_of RAccount k.
  Definition is_user (k : string) : bool := is_role role_of RUser k.
  Definition is_server (k : string) : bool := is_role role_of RServer k.
  Definition parse_err (_ s : string) : option string := if hhmmss_ok s then None else Some "".

  (* ---------- Activation.Validate, ActivationClaims.validateWithTimeChecks / Validate ---------- *)
  Lemma vc_activation_claims now (tc : bool) (cd : claims_data) (a : activation) (vr : list go_issue) :
    V2.ActivationClaims_validateWithTimeChecks (at_subject a) (at_type a) (at_issuer_account a) (cd_exp cd) (cd_nbf cd) is_acct now vr tc
    = vr ++ map goi (v_activation_claims now role_of tc cd a).
  Proof.
    unfold V2.ActivationClaims_validateWithTimeChecks, V2.Activation_Validate, V2.Activation_IsService, V2.Activation_IsStream,
      v_activation_claims, v_activation. cbv zeta.
    fold (is_service (at_type a)). fold (is_stream (at_type a)).
    rewrite !vc_subject. destruct tc; rewrite ?vc_claims_data; rewrite !map_app, !map_when; factor_reports; reflexivity.
  Qed.
  Lemma vc_activation_validate now (cd : claims_data) (a : activation) (vr : list go_issue) :
    V2.ActivationClaims_Validate (at_subject a) (at_type a) (at_issuer_account a) (cd_exp cd) (cd_nbf cd) is_acct now vr
    = vr ++ map goi (v_activation_claims now role_of true cd a).
  Proof. exact (vc_activation_claims now true cd a vr). Qed.

  (* ---------- authorization request / response, generic ---------- *)
  Lemma vc_auth_request now (cd : claims_data) (k : string) (vr : list go_issue) :
    V2.AuthorizationRequestClaims_Validate k (cd_exp cd) (cd_nbf cd) is_user now vr = vr ++ map goi (v_auth_request now role_of cd k).
  Proof.
    unfold V2.AuthorizationRequestClaims_Validate, v_auth_request. cbv zeta. rewrite vc_claims_data.
    destruct (k =? ""); rewrite !map_app, ?map_when; factor_reports; reflexivity.
  Qed.
  Lemma vc_auth_response now (cd : claims_data) (r : auth_response) (vr : list go_issue) :
    V2.AuthorizationResponseClaims_Validate (ar_error r) (ar_issuer_account r) (ar_jwt r) (cd_aud cd) (cd_exp cd) (cd_nbf cd) (cd_sub cd)
      is_acct is_server is_user now vr
    = vr ++ map goi (v_auth_response now role_of cd r).
  Proof.
    unfold V2.AuthorizationResponseClaims_Validate, v_auth_response. cbv zeta. rewrite vc_claims_data.
    rewrite !map_app, !map_when. factor_reports. reflexivity.
  Qed.
  Lemma vc_generic now (cd : claims_data) (vr : list go_issue) :
    V2.GenericClaims_Validate (cd_exp cd) (cd_nbf cd) now vr = vr ++ map goi (v_generic now cd).
  Proof. exact (vc_claims_data now cd vr). Qed.

  (* ---------- TimeRange.Validate ---------- *)
  Lemma vc_time_range (t : time_range) (vr : list go_issue) :
    V2.TimeRange_Validate parse_err (tr_end t) (tr_start t) vr = vr ++ map goi (v_time_range hhmmss_ok t).
  Proof.
    unfold V2.TimeRange_Validate, v_time_range, parse_err. cbv zeta.
    destruct (tr_start t =? ""); destruct (tr_end t =? ""); destruct (hhmmss_ok (tr_start t)); destruct (hhmmss_ok (tr_end t));
      cbn; rewrite <- ?app_assoc, ?app_nil_r; reflexivity.
  Qed.

  (* ---------- Import.Validate: the binding of an embedded activation token (C10); Imports.Validate ----------
     The imports of the list and the activation a token decodes to are opaque values in the translation (one type of
     values, known through what the code reads off them); here they are [gvi]: nil, an import of the model, an
     activation view of the model.  DecodeActivationClaims is an unknown function of the token text: the model's [act_of],
     nil when decoding fails. *)
  Variable act_of : string -> option act_view.
  (* (the further shapes are the other opaque values Account.Validate meets: an export of the list, the scope filed
     under a signing key - known by its own key -, what url.Parse returns) *)
  Inductive gvi := IVnil | IVimport (i : import) | IVact (av : act_view) | IVexport (e : export) | IVscope (key : string) | IVurl (u : url_view).
  Definition o_decode_act (tok : string) : gvi * option string :=
    match act_of tok with Some av => (IVact av, None) | None => (IVnil, Some "invalid activation token") end.
  Definition o_act {A} (f : act_view -> A) (d : A) (v : gvi) : A := match v with IVact av => f av | _ => d end.
  Definition o_imp {A} (f : import -> A) (d : A) (v : gvi) : A := match v with IVimport i => f i | _ => d end.
  Definition imp_of (v : gvi) : option import := match v with IVimport i => Some i | _ => None end.
  Definition gv_of (oi : option import) : gvi := match oi with Some i => IVimport i | None => IVnil end.

  Lemma vc_contained s o : SrcValidateClaims.V2.Subject_IsContainedIn s o = is_contained_in s o.
  Proof. exact (src_is_contained_in s o). Qed.

  Definition src_import_validate now (act_pub : string) (v : gvi) (vr : list go_issue) : list go_issue :=
    SrcValidateClaims.V2.Import_Validate gvi IVnil o_decode_act is_acct now (o_imp im_account "" v) (o_imp im_allow_trace false v) (o_imp im_local "" v)
      (o_imp (fun i from => map goi (v_renaming (im_local i) from)) (fun _ => []) v) (o_imp im_share false v) (o_imp im_subject "" v)
      (o_imp im_to "" v) (o_imp im_token "" v) (o_imp im_type 0%Z v) (o_imp (fun _ => false) true v)
      (o_act (fun av => at_subject (av_act av)) "") (o_act (fun av => at_type (av_act av)) 0%Z)
      (o_act (fun av => at_issuer_account (av_act av)) "") (o_act (fun av => cd_exp (av_cd av)) 0%Z)
      (o_act (fun av => cd_iss (av_cd av)) "") (o_act (fun av => cd_nbf (av_cd av)) 0%Z)
      (o_act (fun av => cd_sub (av_cd av)) "") (o_act (fun _ => false) true) act_pub vr.

  Lemma vc_import now (act_pub : string) (oi : option import) (vr : list go_issue) :
    src_import_validate now act_pub (gv_of oi) vr = vr ++ map goi (v_import role_of act_of act_pub oi).
  Proof.
    unfold src_import_validate. destruct oi as [i|]; [|reflexivity]. cbn [gv_of o_imp].
    unfold SrcValidateClaims.V2.Import_Validate, SrcValidateClaims.V2.Import_IsService, SrcValidateClaims.V2.Import_IsStream, SrcValidateClaims.V2.Import_GetTo, v_import, v_import_token.
    cbv zeta. fold (is_service (im_type i)). fold (is_stream (im_type i)).
    rewrite !vc_subject.
    unfold o_decode_act.
    destruct (im_token i =? "") eqn:Et; cbn [negb].
    - cbn [o_act]. rewrite !map_app, !map_when. rewrite app_nil_r.
      destruct (negb (im_local i =? "")); rewrite ?map_app, ?map_when; cbn [map]; factor_reports; rewrite ?app_nil_r; reflexivity.
    - destruct (act_of (im_token i)) as [av|]; cbn [go_err_isnil negb o_act].
      + rewrite (vc_activation_claims now false (av_cd av) (av_act av)). unfold v_activation_claims.
        rewrite vc_contained. rewrite !map_app, !map_when. cbn [app].
        destruct (negb (im_local i =? "")); rewrite ?map_app, ?map_when; cbn [map]; factor_reports; rewrite ?app_nil_r; reflexivity.
      + rewrite !map_app, !map_when. cbn [map].
        destruct (negb (im_local i =? "")); rewrite ?map_app, ?map_when; cbn [map]; factor_reports; rewrite ?app_nil_r; reflexivity.
  Qed.

  (* Imports.Validate: the list walked once, the subjects service imports are delivered on collected in a set, every
     new one compared with all collected ones *)
  Definition src_imports_validate now (act_pub : string) (l : list (option import)) (vr : list go_issue) : list go_issue :=
    SrcValidateClaims.V2.Imports_Validate gvi IVnil o_decode_act is_acct now
      (o_act (fun av => at_subject (av_act av)) "") (o_act (fun av => at_type (av_act av)) 0%Z)
      (o_act (fun av => at_issuer_account (av_act av)) "") (o_act (fun av => cd_exp (av_cd av)) 0%Z)
      (o_act (fun av => cd_iss (av_cd av)) "") (o_act (fun av => cd_nbf (av_cd av)) 0%Z)
      (o_act (fun av => cd_sub (av_cd av)) "") (o_act (fun _ => false) true)
      (o_imp im_account "") (o_imp im_allow_trace false) (o_imp im_local "") (o_imp (fun i => to_subject (im_local i)) "")
      (o_imp (fun i from => map goi (v_renaming (im_local i) from)) (fun _ => [])) (o_imp im_share false) (o_imp im_subject "")
      (o_imp im_to "") (o_imp im_token "") (o_imp im_type 0%Z) (o_imp (fun _ => false) true)
      (map gv_of l) act_pub vr.

  Definition ovl_body (sub : string) (_ : Z) (k : string) (vr : list go_issue) : ctl (list go_issue) (list go_issue) :=
    Cont (if SrcValidateClaims.V2.Subject_IsContainedIn sub k || SrcValidateClaims.V2.Subject_IsContainedIn k sub then vr ++ [GoError] else vr).
  Lemma ovl_loop sub : forall (ts : list string) (i : Z) (vr : list go_issue),
    go_range (ovl_body sub) i ts vr
    = inl (vr ++ map goi (flat_map (fun k => when (is_contained_in sub k || is_contained_in k sub) Blocking) ts)).
  Proof.
    induction ts as [|k ts IH]; intros i vr; [cbn; now rewrite app_nil_r|].
    cbn [go_range flat_map]. unfold ovl_body at 1. rewrite IH, !vc_contained, map_app, map_when.
    destruct (is_contained_in sub k || is_contained_in k sub); cbn [app]; rewrite <- ?app_assoc; reflexivity.
  Qed.

  Local Set Warnings "-variable-collision".
  Lemma smem_existsb (ts : list string) (sub : string) : go_smem ts sub = existsb (fun k => (k =? sub)%string) ts.
  Proof. unfold go_smem. induction ts as [|k ts IH]; [reflexivity|]. cbn [existsb]. rewrite IH, String.eqb_sym. reflexivity. Qed.

  Lemma vc_imports now (act_pub : string) (l : list (option import)) (vr : list go_issue) :
    src_imports_validate now act_pub l vr = vr ++ map goi (v_imports role_of act_of act_pub l).
  Proof.
    unfold src_imports_validate, SrcValidateClaims.V2.Imports_Validate, v_imports. cbv zeta.
    match goal with |- context [go_range ?B 0%Z _ _] => set (body := B) end.
    assert (Hloop : forall (l : list (option import)) (i : Z) (vr : list go_issue) (ts : list string),
              exists ts', go_range body i (map gv_of l) (vr, ts) = inl (vr ++ map goi (v_imports_loop role_of act_of act_pub l ts), ts')).
    { clear l vr. induction l as [|oi l IH]; intros i vr ts; [exists ts; cbn; now rewrite app_nil_r|].
      cbn [map go_range]. unfold body at 1. cbv beta zeta.
      destruct oi as [im|]; cbn [gv_of o_imp v_imports_loop].
      - fold (is_service (im_type im)).
        change (SrcValidateClaims.V2.Import_Validate gvi IVnil o_decode_act is_acct now (im_account im) (im_allow_trace im) (im_local im)
                  (fun from => map goi (v_renaming (im_local im) from)) (im_share im) (im_subject im) (im_to im) (im_token im) (im_type im) false
                  (o_act (fun av => at_subject (av_act av)) "") (o_act (fun av => at_type (av_act av)) 0%Z)
                  (o_act (fun av => at_issuer_account (av_act av)) "") (o_act (fun av => cd_exp (av_cd av)) 0%Z)
                  (o_act (fun av => cd_iss (av_cd av)) "") (o_act (fun av => cd_nbf (av_cd av)) 0%Z)
                  (o_act (fun av => cd_sub (av_cd av)) "") (o_act (fun _ => false) true) act_pub)
          with (src_import_validate now act_pub (gv_of (Some im))).
        destruct (is_service (im_type im)).
        + set (sub := if ((if (im_to im =? "") then to_subject (im_local im) else im_to im) =? "") then im_subject im
                      else (if (im_to im =? "") then to_subject (im_local im) else im_to im)).
          assert (Hsub : sub = service_key im).
          { unfold sub, service_key. destruct (im_to im =? "") eqn:Et; cbn [negb].
            - destruct (to_subject (im_local im) =? ""); reflexivity.
            - rewrite Et. reflexivity. }
          change (go_range _ 0%Z ts vr) with (go_range (ovl_body sub) 0%Z ts vr). rewrite ovl_loop.
          rewrite vc_import, smem_existsb. unfold go_sadd. rewrite smem_existsb. rewrite Hsub.
          destruct (IH (i + 1)%Z ((vr ++ map goi (flat_map (fun k => when (is_contained_in (service_key im) k || is_contained_in k (service_key im)) Blocking) ts)
                                   ++ (if existsb (fun k => (k =? service_key im)%string) ts then [GoError] else []))
                                   ++ map goi (v_import role_of act_of act_pub (Some im)))
                      (if existsb (fun k => (k =? service_key im)%string) ts then ts else ts ++ [service_key im])) as [ts' Hts].
          exists ts'. rewrite !map_app, map_when.
          destruct (existsb (fun k => (k =? service_key im)%string) ts); rewrite ?app_nil_r in *; rewrite <- ?app_assoc in *; cbn [app] in *; rewrite Hts; rewrite <- ?app_assoc; reflexivity.
        + rewrite vc_import. destruct (IH (i + 1)%Z (vr ++ map goi (v_import role_of act_of act_pub (Some im))) ts) as [ts' Hts].
          exists ts'. rewrite Hts, map_app, <- app_assoc. reflexivity.
      - destruct (IH (i + 1)%Z (vr ++ [GoError]) ts) as [ts' Hts]. exists ts'. rewrite Hts. cbn [map goi]. rewrite <- app_assoc. reflexivity. }
    destruct (Hloop l 0%Z vr []) as [ts' Hts]. rewrite Hts. reflexivity.
  Qed.
End Oracles.

(* ---------- Mapping.Validate: every source and target subject validated, the weights of one source summed ----------
   (in the integer type the code sums them in: a sum in a narrower type would be translated with its wrap-around) *)
Definition wm_of (t : string * Z * string) : wmapping := {| wm_subject := fst (fst t); wm_weight := snd (fst t) |}.
Definition mapping_of (m : list (string * list (string * Z * string))) : list (string * list wmapping) :=
  map (fun e => (fst e, map wm_of (snd e))) m.

Lemma vc_mappings (m : list (string * list (string * Z * string))) (vr : list go_issue) :
  V2.Mapping_Validate m vr = vr ++ map goi (v_mappings (mapping_of m)).
Proof.
  unfold V2.Mapping_Validate, v_mappings.
  assert (Hin : forall (l : list (string * Z * string)) (i : Z) (vr : list go_issue) (total : Z),
    go_range (A:=(string * Z * string)) (S:=(list go_issue * Z)) (R:=list go_issue)
      (fun (_ : Z) (wm_1 : string * Z * string) (go_st : list go_issue * Z) =>
         let '(vr, total) := go_st in
         let vr := V2.Subject_Validate (let '(go_f0, go_f1, go_f2) := wm_1 in go_f0) vr in
         let total := (total + V2.WeightedMapping_GetWeight (let '(go_f0, go_f1, go_f2) := wm_1 in go_f1))%Z in
         Cont (vr, total)) i l (vr, total)
    = inl (vr ++ map goi (flat_map (fun w => v_subject (wm_subject w)) (map wm_of l)),
           fold_left (fun acc w => (acc + eff_weight w)%Z) (map wm_of l) total)).
  { induction l as [|[[s w] c] l IH]; intros i vr0 total; [cbn; now rewrite app_nil_r|].
    cbn [go_range map flat_map fold_left]. cbv zeta. rewrite vc_subject, IH.
    unfold wm_of at 1 3. cbn [fst snd wm_subject]. rewrite map_app, <- app_assoc.
    unfold eff_weight, V2.WeightedMapping_GetWeight, wm_of. cbn [wm_weight fst snd]. reflexivity. }
  match goal with |- context [go_range ?B 0%Z m vr] => set (body := B) end.
  assert (Hout : forall (m : list (string * list (string * Z * string))) (i : Z) (vr : list go_issue),
    go_range body i m vr = inl (vr ++ map goi (flat_map (fun e : string * list wmapping =>
      (v_subject (fst e) ++ flat_map (fun w => v_subject (wm_subject w)) (snd e) ++
       when (100 <? fold_left (fun acc w => (acc + eff_weight w)%Z) (snd e) 0%Z)%Z Blocking)%list) (mapping_of m)))).
  { clear m vr. induction m as [|[from wms] m IH]; intros i vr; [cbn; now rewrite app_nil_r|].
    cbn [go_range mapping_of map flat_map fst snd]. unfold body at 1. cbv beta zeta. rewrite vc_subject, Hin.
    rewrite Z.gtb_ltb. fold (mapping_of m). rewrite !map_app, map_when.
    destruct (100 <? fold_left (fun acc w => (acc + eff_weight w)%Z) (map wm_of wms) 0)%Z; rewrite IH; rewrite <- ?app_assoc; cbn [app]; rewrite ?app_nil_r; reflexivity. }
  rewrite Hout. reflexivity.
Qed.

(* ---------- OperatorLimits.Validate: tiers and flat JetStream limits are mutually exclusive; no blank tier name ----------
   The limits are an abstract value: the code asks whether the flat limits equal the zero struct, how many tiers there
   are, and whether a tier is named "". *)
Lemma vc_op_limits (o : op_limits) (vr : list go_issue) :
  V2.OperatorLimits_Validate (js_zero (ol_js o)) (fun k => existsb (fun t => (fst t =? k)%string) (ol_tiers o))
    (Z.of_nat (List.length (ol_tiers o))) vr
  = vr ++ map goi (v_op_limits o).
Proof.
  unfold V2.OperatorLimits_Validate, v_op_limits. cbv zeta.
  destruct (ol_tiers o) as [|t ts] eqn:E; [cbn; now rewrite app_nil_r|].
  replace (Z.of_nat (List.length (t :: ts)) >? 0)%Z with true by (symmetry; apply Z.gtb_lt; cbn [List.length]; lia).
  cbn [is_nil]. rewrite map_app, !map_when. factor_reports. reflexivity.
Qed.

(* ---------- checkPermission, Permission.Validate, Permissions.Validate ---------- *)
Lemma vc_check_permission (subj : string) (pq : bool) (vr : list go_issue) :
  V2.checkPermission vr subj pq = vr ++ map goi (v_check_permission subj pq).
Proof.
  unfold V2.checkPermission, v_check_permission. cbv zeta. change (go_split subj " ") with (split space subj).
  destruct (split space subj) as [|a [|b [|c r]]].
  - reflexivity.
  - cbn. rewrite vc_subject. reflexivity.
  - cbn. rewrite !vc_subject, !map_app, map_when. factor_reports. reflexivity.
  - assert (H1 : (go_llen (a :: b :: c :: r) =? 1)%Z = false) by (apply Z.eqb_neq; unfold go_llen; cbn [length]; lia).
    assert (H2 : (go_llen (a :: b :: c :: r) =? 2)%Z = false) by (apply Z.eqb_neq; unfold go_llen; cbn [length]; lia).
    rewrite H1, H2. reflexivity.
Qed.

Definition permbody (pq : bool) (_ : Z) (subj : string) (vr : list go_issue) : ctl (list go_issue) (list go_issue) :=
  Cont (V2.checkPermission vr subj pq).
Lemma permloop pq : forall (l : list string) (i : Z) (vr : list go_issue),
  go_range (R:=list go_issue) (permbody pq) i l vr = inl (vr ++ map goi (flat_map (fun s => v_check_permission s pq) l)).
Proof.
  induction l as [|s l IH]; intros i vr; [cbn; now rewrite app_nil_r|].
  cbn [go_range flat_map]. unfold permbody at 1. rewrite IH, vc_check_permission, map_app, <- app_assoc. reflexivity.
Qed.
Lemma vc_permission (p : permission) (pq : bool) (vr : list go_issue) :
  V2.Permission_Validate (p_allow p) (p_deny p) vr pq = vr ++ map goi (v_permission p pq).
Proof.
  unfold V2.Permission_Validate, v_permission.
  change (go_range _ 0%Z (p_allow p) vr) with (go_range (R:=list go_issue) (permbody pq) 0%Z (p_allow p) vr).
  rewrite permloop. cbv zeta beta iota.
  change (go_range _ 0%Z (p_deny p) ?v) with (go_range (R:=list go_issue) (permbody pq) 0%Z (p_deny p) v).
  rewrite permloop, map_app, <- app_assoc. reflexivity.
Qed.
Lemma vc_permissions (p : permissions) (resp_nil : bool) (vr : list go_issue) :
  V2.Permissions_Validate (p_allow (perm_pub p)) (p_deny (perm_pub p)) resp_nil (p_allow (perm_sub p)) (p_deny (perm_sub p)) vr
  = vr ++ map goi (v_permissions p).
Proof.
  unfold V2.Permissions_Validate, V2.ResponsePermission_Validate, v_permissions. cbv zeta.
  replace (if negb resp_nil then vr else vr) with vr by (destruct resp_nil; reflexivity).
  rewrite !vc_permission, map_app, <- app_assoc. reflexivity.
Qed.

(* ---------- Limits.Validate, User.Validate, UserClaims.Validate ----------
   The time ranges of the list and the network net.ParseCIDR returns are opaque values: [gvl].  net.ParseCIDR and
   time.LoadLocation are unknown functions of their text - here the model's judgements [cidr_ok] and [tz_ok]. *)
Section UserLimits.
  Variable role_of : string -> role.
  Variables cidr_ok hhmmss_ok tz_ok : string -> bool.
  Inductive gvl := LNil | LNet | LRange (t : time_range).
  Definition o_parse_cidr (c : string) : string * gvl * option string :=
    if cidr_ok c then ("", LNet, None) else ("", LNil, Some "invalid CIDR address").
  Definition o_load_location (l : string) : option string := if tz_ok l then None else Some "unknown time zone".
  Definition o_net_isnil (v : gvl) : bool := match v with LNet => false | _ => true end.
  Definition o_tr {A} (f : time_range -> A) (d : A) (v : gvl) : A := match v with LRange t => f t | _ => d end.

  Definition src_limits_validate (l : user_limits) (vr : list go_issue) : list go_issue :=
    V2.Limits_Validate gvl LNil o_parse_cidr o_load_location (parse_err hhmmss_ok) (ul_locale l) (ul_src l) (map LRange (ul_times l))
      (is_nil (ul_times l)) o_net_isnil (o_tr tr_end "") (o_tr tr_start "") vr.

  Lemma vc_limits (l : user_limits) (vr : list go_issue) :
    src_limits_validate l vr = vr ++ map goi (v_user_limits cidr_ok hhmmss_ok tz_ok l).
  Proof.
    unfold src_limits_validate, V2.Limits_Validate, v_user_limits. cbv zeta.
    assert (Hsrc : forall (cs : list string) (i : Z) (vr : list go_issue),
      go_range (A:=string) (S:=list go_issue) (R:=list go_issue)
        (fun (_ : Z) (cidr : string) (go_st : list go_issue) =>
           let vr := go_st in let '(_, ipNet, err_1) := o_parse_cidr cidr in
           let vr := (if negb (go_err_isnil err_1) || o_net_isnil ipNet then vr ++ [GoError] else vr) in Cont vr) i cs vr
      = inl (vr ++ map goi (flat_map (fun c => when (negb (cidr_ok c)) Blocking) cs))).
    { induction cs as [|c cs IH]; intros i vr0; [cbn; now rewrite app_nil_r|].
      cbn [go_range flat_map]. unfold o_parse_cidr at 1. destruct (cidr_ok c); cbn [go_err_isnil negb orb o_net_isnil when app map goi];
        rewrite IH; rewrite <- ?app_assoc; reflexivity. }
    assert (Htimes : forall (ts : list time_range) (i : Z) (vr : list go_issue),
      go_range (A:=gvl) (S:=list go_issue) (R:=list go_issue)
        (fun (_ : Z) (t : gvl) (go_st : list go_issue) =>
           let vr := go_st in let vr := V2.TimeRange_Validate (parse_err hhmmss_ok) (o_tr tr_end "" t) (o_tr tr_start "" t) vr in Cont vr) i (map LRange ts) vr
      = inl (vr ++ map goi (flat_map (v_time_range hhmmss_ok) ts))).
    { induction ts as [|t ts IH]; intros i vr0; [cbn; now rewrite app_nil_r|].
      cbn [go_range flat_map map o_tr]. rewrite vc_time_range, IH, map_app, <- app_assoc. reflexivity. }
    assert (Hloc : forall vr : list go_issue,
      (if negb (ul_locale l =? "")
       then (if negb (go_err_isnil (o_load_location (ul_locale l))) then vr ++ [GoError] else vr) else vr)
      = vr ++ map goi (when (negb (ul_locale l =? "") && negb (tz_ok (ul_locale l))) Blocking)).
    { intros vr0. unfold o_load_location. destruct (ul_locale l =? ""); cbn [negb andb when map]; [now rewrite app_nil_r|].
      destruct (tz_ok (ul_locale l)); cbn [go_err_isnil negb when map goi]; [now rewrite app_nil_r|reflexivity]. }
    assert (Hk1 : forall vr : list go_issue,
      (if negb (is_nil (ul_times l)) && (go_llen (map LRange (ul_times l)) >? 0)%Z
       then match go_range (A:=gvl) (S:=list go_issue) (R:=list go_issue)
              (fun (_ : Z) (t : gvl) (go_st : list go_issue) =>
                 let vr := go_st in let vr := V2.TimeRange_Validate (parse_err hhmmss_ok) (o_tr tr_end "" t) (o_tr tr_start "" t) vr in Cont vr)
              0%Z (map LRange (ul_times l)) vr
            with inr go_r => go_r
               | inl go_st => (if negb (ul_locale l =? "")
                               then (if negb (go_err_isnil (o_load_location (ul_locale l))) then go_st ++ [GoError] else go_st) else go_st) end
       else (if negb (ul_locale l =? "")
             then (if negb (go_err_isnil (o_load_location (ul_locale l))) then vr ++ [GoError] else vr) else vr))
      = vr ++ map goi (flat_map (v_time_range hhmmss_ok) (ul_times l) ++
                       when (negb (ul_locale l =? "") && negb (tz_ok (ul_locale l))) Blocking)).
    { intros vr0. destruct (ul_times l) as [|t ts] eqn:Et.
      - cbn [is_nil negb andb flat_map app]. apply Hloc.
      - replace (negb (is_nil (t :: ts)) && (go_llen (map LRange (t :: ts)) >? 0)%Z) with true
          by (cbn [is_nil negb andb]; symmetry; apply Z.gtb_lt; unfold go_llen; cbn [map List.length]; lia).
        rewrite Htimes, Hloc, map_app, <- app_assoc. reflexivity. }
    destruct (ul_src l) as [|c cs] eqn:Es.
    - cbn [go_llen List.length Z.of_nat Z.eqb negb flat_map app]. apply Hk1.
    - replace (negb (go_llen (c :: cs) =? 0)%Z) with true
        by (symmetry; apply negb_true_iff, Z.eqb_neq; unfold go_llen; cbn [List.length]; lia).
      rewrite Hsrc. rewrite Hk1, !map_app, <- !app_assoc. reflexivity.
  Qed.

  Definition src_user_claims_validate now (cd : claims_data) (u : user) (resp_nil : bool) (vr : list go_issue) : list go_issue :=
    V2.UserClaims_Validate gvl LNil o_parse_cidr (is_acct role_of) now o_load_location (parse_err hhmmss_ok) o_net_isnil (o_tr tr_end "") (o_tr tr_start "")
      (cd_exp cd) (cd_nbf cd) (us_issuer_account u) (ul_locale (us_limits u)) (ul_src (us_limits u)) (map LRange (ul_times (us_limits u)))
      (is_nil (ul_times (us_limits u)))
      (p_allow (perm_pub (us_perms u))) (p_deny (perm_pub (us_perms u))) resp_nil (p_allow (perm_sub (us_perms u))) (p_deny (perm_sub (us_perms u))) vr.

  Lemma vc_user_claims now (cd : claims_data) (u : user) (resp_nil : bool) (vr : list go_issue) :
    src_user_claims_validate now cd u resp_nil vr = vr ++ map goi (v_user_claims now role_of cidr_ok hhmmss_ok tz_ok cd u).
  Proof.
    unfold src_user_claims_validate, V2.UserClaims_Validate, V2.User_Validate, v_user_claims. cbv zeta.
    rewrite vc_claims_data, vc_permissions.
    change (V2.Limits_Validate gvl LNil o_parse_cidr o_load_location (parse_err hhmmss_ok) (ul_locale (us_limits u)) (ul_src (us_limits u))
              (map LRange (ul_times (us_limits u))) (is_nil (ul_times (us_limits u))) o_net_isnil (o_tr tr_end "") (o_tr tr_start ""))
      with (src_limits_validate (us_limits u)).
    rewrite vc_limits, !map_app, map_when. factor_reports. reflexivity.
  Qed.
End UserLimits.

(* ---------- ExternalAuthorization.Validate ---------- *)
Section ExtAuth.
  Variable role_of : string -> role.
  Definition is_curve (k : string) : bool := is_role role_of RCurve k.

  Definition eaubody (_ : Z) (u : string) (vr : list go_issue) : ctl (list go_issue) (list go_issue) :=
    Cont (if negb (is_user role_of u) then vr ++ [GoError] else vr).
  Lemma eauloop : forall (l : list string) (i : Z) (vr : list go_issue),
    go_range (R:=list go_issue) eaubody i l vr =
    inl (vr ++ map goi (flat_map (fun u => when (negb (is_role role_of RUser u)) Blocking) l)).
  Proof.
    induction l as [|u l IH]; intros i vr; [cbn; now rewrite app_nil_r|].
    cbn [go_range flat_map]. unfold eaubody at 1. rewrite IH, map_app, map_when. unfold is_user.
    destruct (negb (is_role role_of RUser u)); cbn [goi app]; rewrite <- ?app_assoc; reflexivity.
  Qed.

  Definition eaabody (all : list string) (_ : Z) (a : string) (vr : list go_issue) : ctl (list go_issue) (list go_issue) :=
    if ((a =? "*")%string && (go_llen all >? 1)%Z) then Cont (vr ++ [GoError])
    else if (a =? "*")%string then Cont vr
    else Cont (if negb (is_acct role_of a) then vr ++ [GoError] else vr).
  Lemma eaaloop all : forall (l : list string) (i : Z) (vr : list go_issue),
    go_range (R:=list go_issue) (eaabody all) i l vr =
    inl (vr ++ map goi (flat_map (fun x => if (x =? "*")%string then when (Nat.ltb 1 (List.length all)) Blocking
                                           else when (negb (is_role role_of RAccount x)) Blocking) l)).
  Proof.
    assert (Hgt : (go_llen all >? 1)%Z = Nat.ltb 1 (length all)).
    { unfold go_llen. rewrite Z.gtb_ltb. destruct (Nat.ltb_spec 1 (length all)); [apply Z.ltb_lt|apply Z.ltb_ge]; lia. }
    induction l as [|a l IH]; intros i vr; [cbn; now rewrite app_nil_r|].
    cbn [go_range flat_map]. unfold eaabody at 1. rewrite Hgt, map_app. unfold is_acct.
    destruct (a =? "*"); cbn [andb].
    - destruct (Nat.ltb 1 (length all)); rewrite IH; cbn [when map goi app]; rewrite <- ?app_assoc; reflexivity.
    - rewrite IH, map_when. destruct (negb (is_role role_of RAccount a)); cbn [goi app]; rewrite <- ?app_assoc; reflexivity.
  Qed.

  Lemma vc_ext_auth (a : ext_auth) (vr : list go_issue) :
    V2.ExternalAuthorization_Validate (ea_accounts a) (ea_users a) (ea_xkey a) (is_acct role_of) is_curve (is_user role_of) vr
    = vr ++ map goi (v_ext_auth role_of a).
  Proof.
    unfold V2.ExternalAuthorization_Validate, v_ext_auth.
    change (go_range _ 0%Z (ea_users a) ?v) with (go_range (R:=list go_issue) eaubody 0%Z (ea_users a) v).
    rewrite eauloop. cbv zeta beta iota.
    change (go_range _ 0%Z (ea_accounts a) ?v) with (go_range (R:=list go_issue) (eaabody (ea_accounts a)) 0%Z (ea_accounts a) v).
    rewrite eaaloop. cbv zeta beta iota.
    rewrite !map_app, !map_when. unfold is_curve.
    assert (H1 : ((go_llen (ea_accounts a) >? 0)%Z && (go_llen (ea_users a) =? 0)%Z) = (negb (is_nil (ea_accounts a)) && is_nil (ea_users a))).
    { unfold go_llen. destruct (ea_accounts a); destruct (ea_users a); reflexivity. }
    rewrite H1. factor_reports. reflexivity.
  Qed.
End ExtAuth.

Print Assumptions vc_activation_claims.
Print Assumptions vc_auth_response.
Print Assumptions vc_permissions.
Print Assumptions vc_user_claims.
Print Assumptions vc_ext_auth.
