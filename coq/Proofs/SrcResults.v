(* Proofs/SrcResults.v — the validation results themselves (validation.go of both packages), translated on this run
   (Gen/SrcResults.v): a results object is its list of issues, an issue the tuple of its text and its two flags.
   Every other translated Validate method reads `vr.AddError(..)` as "append an error to the list of issues so far"
   and the model reads "blocking" as "some issue is an error": here that reading is proved of the code of Add,
   AddError, AddWarning, AddTimeCheck, IsBlocking, IsEmpty, Errors and Warnings as it stands. *)
From JWT Require Import Base.GoSem Gen.SrcResults.
Open Scope string_scope.
Open Scope list_scope.

Definition issue := (string * bool * bool)%type.
Definition i_text (i : issue) : string := fst (fst i).
Definition i_blocking (i : issue) : bool := snd (fst i).
Definition i_timecheck (i : issue) : bool := snd i.

Lemma proj_blocking (i : issue) : (let '(go_f0, go_f1, go_f2) := i in go_f1) = i_blocking i.
Proof. destruct i as [[a b] c]. reflexivity. Qed.
Lemma proj_timecheck (i : issue) : (let '(go_f0, go_f1, go_f2) := i in go_f2) = i_timecheck i.
Proof. destruct i as [[a b] c]. reflexivity. Qed.
Lemma proj_text (i : issue) : (let '(go_f0, go_f1, go_f2) := i in go_f0) = i_text i.
Proof. destruct i as [[a b] c]. reflexivity. Qed.


Lemma src_create : V2.CreateValidationResults = [] /\ V1.CreateValidationResults = [].
Proof. split; reflexivity. Qed.

Section V2Results.
  Variable sprintf : string -> string.   (* fmt.Sprintf(format, args...) for the arguments of this call *)

  Lemma src_add (v : list issue) (vi : issue) : V2.ValidationResults_Add v vi = v ++ [vi].
  Proof. reflexivity. Qed.
  Lemma src_add_error (v : list issue) (format : string) : V2.ValidationResults_AddError sprintf v format = v ++ [(sprintf format, true, false)].
  Proof. reflexivity. Qed.
  Lemma src_add_time_check (v : list issue) (format : string) : V2.ValidationResults_AddTimeCheck sprintf v format = v ++ [(sprintf format, false, true)].
  Proof. reflexivity. Qed.
  Lemma src_add_warning (v : list issue) (format : string) : V2.ValidationResults_AddWarning sprintf v format = v ++ [(sprintf format, false, false)].
  Proof. reflexivity. Qed.
End V2Results.

Definition blocks (inc : bool) (i : issue) : bool := i_blocking i || (inc && i_timecheck i).

Lemma src_is_blocking (v : list issue) (inc : bool) : V2.ValidationResults_IsBlocking v inc = existsb (blocks inc) v.
Proof.
  unfold V2.ValidationResults_IsBlocking.
  assert (H : forall (l : list issue) (i : Z),
    match go_range (A:=issue) (S:=unit) (R:=bool)
      (fun (_ : Z) (i : issue) (_ : unit) =>
         if (let '(go_f0, go_f1, go_f2) := i in go_f1) then Ret true
         else if (inc && (let '(go_f0, go_f1, go_f2) := i in go_f2)) then Ret true else Cont tt) i l tt
    with inr r => r | inl _ => false end = existsb (blocks inc) l).
  { induction l as [|x l IH]; intros i; [reflexivity|]. cbn [go_range existsb]. rewrite proj_blocking, proj_timecheck. unfold blocks at 1.
    destruct (i_blocking x); [reflexivity|]. cbn [orb]. destruct (inc && i_timecheck x); [reflexivity|]. apply IH. }
  apply H.
Qed.
Lemma src_is_empty (v : list issue) : V2.ValidationResults_IsEmpty v = match v with [] => true | _ => false end.
Proof. unfold V2.ValidationResults_IsEmpty, go_llen. destruct v; [reflexivity|]. cbn [List.length]. apply Z.eqb_neq. lia. Qed.
Lemma src_errors (v : list issue) : V2.ValidationResults_Errors v = map (fun _ => Some "error") (filter i_blocking v).
Proof.
  unfold V2.ValidationResults_Errors. cbv zeta.
  assert (H : forall (l : list issue) (i : Z) (acc : list (option string)),
    go_range (A:=issue) (S:=list (option string)) (R:=list (option string))
      (fun (_ : Z) (x : issue) (st : list (option string)) =>
         Cont (if (let '(go_f0, go_f1, go_f2) := x in go_f1) then st ++ [Some "error"] else st)) i l acc
    = inl (acc ++ map (fun _ => Some "error") (filter i_blocking l))).
  { induction l as [|x l IH]; intros i acc; [cbn; now rewrite app_nil_r|]. cbn [go_range filter]. rewrite IH, proj_blocking.
    destruct (i_blocking x); cbn [map]; rewrite <- ?app_assoc; reflexivity. }
  rewrite H. reflexivity.
Qed.
Lemma src_warnings (v : list issue) : V2.ValidationResults_Warnings v = map i_text (filter (fun i => negb (i_blocking i)) v).
Proof.
  unfold V2.ValidationResults_Warnings. cbv zeta.
  assert (H : forall (l : list issue) (i : Z) (acc : list string),
    go_range (A:=issue) (S:=list string) (R:=list string)
      (fun (_ : Z) (x : issue) (st : list string) =>
         Cont (if negb (let '(go_f0, go_f1, go_f2) := x in go_f1) then st ++ [(let '(go_f0, go_f1, go_f2) := x in go_f0)] else st)) i l acc
    = inl (acc ++ map i_text (filter (fun i => negb (i_blocking i)) l))).
  { induction l as [|x l IH]; intros i acc; [cbn; now rewrite app_nil_r|]. cbn [go_range filter]. rewrite IH, proj_blocking, proj_text.
    destruct (i_blocking x); cbn [negb map]; rewrite <- ?app_assoc; reflexivity. }
  rewrite H. reflexivity.
Qed.

(* the same of the bundled version-1 library's copy *)
Lemma src_v1_results_same :
  V1.ValidationResults_Add = V2.ValidationResults_Add /\ V1.ValidationResults_AddError = V2.ValidationResults_AddError /\
  V1.ValidationResults_AddTimeCheck = V2.ValidationResults_AddTimeCheck /\ V1.ValidationResults_AddWarning = V2.ValidationResults_AddWarning /\
  V1.ValidationResults_IsBlocking = V2.ValidationResults_IsBlocking /\ V1.ValidationResults_IsEmpty = V2.ValidationResults_IsEmpty /\
  V1.ValidationResults_Errors = V2.ValidationResults_Errors /\ V1.ValidationResults_Warnings = V2.ValidationResults_Warnings.
Proof. repeat split; reflexivity. Qed.

(* the reading every other translation uses: an issue is an error, a warning or a time check ([go_issue_of]); adding
   one appends it; "blocking" is "some issue is an error" (with time checks: "some issue is not a mere warning") *)
Lemma issue_of_error s : go_issue_of (s, true, false) = GoError. Proof. reflexivity. Qed.
Lemma issue_of_time_check s : go_issue_of (s, false, true) = GoTimeCheck. Proof. reflexivity. Qed.
Lemma issue_of_warning s : go_issue_of (s, false, false) = GoWarning. Proof. reflexivity. Qed.
Definition g_is_error (g : go_issue) : bool := match g with GoError => true | _ => false end.
Definition g_not_warning (g : go_issue) : bool := match g with GoWarning => false | _ => true end.
Lemma src_blocking_abstract (v : list issue) :
  V2.ValidationResults_IsBlocking v false = existsb g_is_error (map go_issue_of v) /\
  V2.ValidationResults_IsBlocking v true = existsb g_not_warning (map go_issue_of v).
Proof.
  rewrite !src_is_blocking. split; induction v as [|[[s b] tc] v IH]; try reflexivity; cbn [existsb map]; rewrite IH; f_equal;
    unfold blocks, i_blocking, i_timecheck, go_issue_of; cbn [fst snd]; destruct b, tc; reflexivity.
Qed.
Lemma src_added_abstract (sprintf : string -> string) (v : list issue) (format : string) :
  map go_issue_of (V2.ValidationResults_AddError sprintf v format) = map go_issue_of v ++ [GoError] /\
  map go_issue_of (V2.ValidationResults_AddWarning sprintf v format) = map go_issue_of v ++ [GoWarning] /\
  map go_issue_of (V2.ValidationResults_AddTimeCheck sprintf v format) = map go_issue_of v ++ [GoTimeCheck].
Proof. rewrite src_add_error, src_add_warning, src_add_time_check, !map_app. repeat split. Qed.

Print Assumptions src_is_blocking.
Print Assumptions src_blocking_abstract.
Print Assumptions src_added_abstract.
