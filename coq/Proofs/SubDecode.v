(* Proofs/SubDecode.v — reading a SUB-TREE of what another type wrote.
   encoding/json decodes the same payload into several Go types: the whole
   claims type, but also the small [identifier] (kind and version), [ClaimsData]
   (issuer) and the version-1 shadow structs.  This file proves, for any writer
   schema [t] and any reader schema [s] built from strings, integers, string
   lists and nested structs whose fields are (by exact JSON name) a subset of
   [t]'s:  dec s (enc t v) (zero s)  succeeds and agrees with [v] on every field
   [s] shares with [t]; fields [s] has and [t] lacks stay zero.  *)
From JWT Require Import Base.Codec Proofs.Codec.
From Coq Require Import Permutation Lia.
Open Scope string_scope.
Open Scope Z_scope.

(* ---------- the reader/writer relation (decidable, evaluated on the generated schemas) ---------- *)
Definition tfield (n : string) (ft : list field) : option ty :=
  match field_index_exact n ft 0 with
  | Some k => match nth_error ft k with Some f => Some (snd f) | None => None end
  | None => None
  end.
Definition tval (n : string) (ft : list field) (vs : list val) : option val :=
  match field_index_exact n ft 0 with Some k => nth_error vs k | None => None end.

(* a member name of the writer selects the same reader field by exact match and by Go's case-folding fallback *)
Definition fold_compat (fs ft : list field) : bool :=
  forallb (fun n => match field_index n fs, field_index_exact n fs 0 with
                    | Some a, Some b => Nat.eqb a b
                    | None, None => true
                    | _, _ => false
                    end) (map fname ft).

Fixpoint sub_ok (s t : ty) {struct s} : bool :=
  match s with
  | TStr => match t with TStr => true | _ => false end
  | TInt lo hi => match t with TInt lo' hi' => (lo <=? lo') && (hi' <=? hi) | _ => false end
  | TList s' => match s', t with TStr, TList TStr => true | _, _ => false end
  | TStruct fs =>
      match t with
      | TStruct ft =>
          names_nodup (map fname fs) && fold_compat fs ft &&
          (fix go (l : list field) : bool :=
             match l with
             | [] => true
             | (n, _, st) :: r => match tfield n ft with None => true | Some tq => sub_ok st tq end && go r
             end) fs
      | _ => false
      end
  | _ => false
  end.

Fixpoint sub_fields (ft : list field) (l : list field) : bool :=
  match l with
  | [] => true
  | (n, _, st) :: r => match tfield n ft with None => true | Some tq => sub_ok st tq end && sub_fields ft r
  end.
Lemma sub_ok_struct fs ft :
  sub_ok (TStruct fs) (TStruct ft) = names_nodup (map fname fs) && fold_compat fs ft && sub_fields ft fs.
Proof.
  cbn [sub_ok]. f_equal.
  induction fs as [| [[n o] st] r IH]; [reflexivity|]. cbn [sub_fields]. now rewrite <- IH.
Qed.

(* what the decoded reader value [w] has to do with the written value [v] *)
Fixpoint agree (s t : ty) (w v : val) {struct s} : Prop :=
  match s with
  | TStr | TInt _ _ => w = v
  | TStruct fs =>
      match t, w, v with
      | TStruct ft, VStruct ws, VStruct vs =>
          (fix go (l : list field) (ws : list val) : Prop :=
             match l, ws with
             | [], [] => True
             | (n, _, st) :: r, wi :: wr =>
                 match tfield n ft, tval n ft vs with
                 | Some tq, Some vk => agree st tq wi vk
                 | Some _, None => False
                 | None, _ => wi = zero_val st
                 end /\ go r wr
             | _, _ => False
             end) fs ws
      | _, _, _ => False
      end
  | _ => True
  end.
Definition field_agree (ft : list field) (vs : list val) (n : string) (st : ty) (wi : val) : Prop :=
  match tfield n ft, tval n ft vs with
  | Some tq, Some vk => agree st tq wi vk
  | Some _, None => False
  | None, _ => wi = zero_val st
  end.
Fixpoint agree_fields (ft : list field) (vs : list val) (l : list field) (ws : list val) : Prop :=
  match l, ws with
  | [], [] => True
  | (n, _, st) :: r, wi :: wr => field_agree ft vs n st wi /\ agree_fields ft vs r wr
  | _, _ => False
  end.
Lemma agree_struct fs ft ws vs :
  agree (TStruct fs) (TStruct ft) (VStruct ws) (VStruct vs) = agree_fields ft vs fs ws.
Proof.
  cbn [agree]. revert ws.
  induction fs as [| [[n o] st] r IH]; intros [| wi wr]; try reflexivity.
  cbn [agree_fields]. now rewrite <- IH.
Qed.

(* ---------- small facts ---------- *)
Lemma nth_error_lt {A} (l : list A) i x : nth_error l i = Some x -> (i < length l)%nat.
Proof. intros H. apply nth_error_Some. rewrite H. discriminate. Qed.

Lemma field_index_exact_some (fs : list field) : forall k n i,
  field_index_exact n fs k = Some i ->
  (k <= i)%nat /\ exists o ft, nth_error fs (i - k) = Some (n, o, ft).
Proof.
  induction fs as [| [[n0 o0] ft0] fr IH]; intros k n i H; simpl in H; [discriminate|].
  destruct (n0 =? n)%string eqn:E.
  - injection H as <-. apply String.eqb_eq in E. subst n0. split; [lia|].
    rewrite Nat.sub_diag. simpl. eauto.
  - destruct (IH (S k) n i H) as [Hle [o [ft Hn]]]. split; [lia|].
    replace (i - k)%nat with (S (i - S k)) by lia. simpl. eauto.
Qed.

Lemma field_index_exact_none (fs : list field) : forall k n,
  field_index_exact n fs k = None -> ~ In n (map fname fs).
Proof.
  induction fs as [| [[n0 o0] ft0] fr IH]; intros k n H; simpl in *; [tauto|].
  destruct (n0 =? n)%string eqn:E; [discriminate|].
  apply String.eqb_neq in E. intros [Hx|Hx]; [unfold fname in Hx; simpl in Hx; congruence|]. eapply IH; eassumption.
Qed.

Lemma find_at_beyond target j vs : forall fs' k,
  (k + length fs' <= target)%nat -> find_at target j vs fs' k = Some vs.
Proof.
  induction fs' as [| [[n0 o0] ft0] r IH]; intros k H; simpl; [reflexivity|].
  simpl in H. destruct (Nat.eqb k target) eqn:E; [apply Nat.eqb_eq in E; lia|].
  apply IH. lia.
Qed.

Lemma tfield_nth ft k n o tq :
  NoDup (map fname ft) -> nth_error ft k = Some (n, o, tq) -> tfield n ft = Some tq.
Proof.
  intros Hnd Hk. unfold tfield.
  rewrite (field_index_exact_nth ft k 0 n o tq Hnd Hk). simpl. now rewrite Hk.
Qed.
Lemma tval_nth ft vs k n o tq :
  NoDup (map fname ft) -> nth_error ft k = Some (n, o, tq) -> tval n ft vs = nth_error vs k.
Proof.
  intros Hnd Hk. unfold tval. now rewrite (field_index_exact_nth ft k 0 n o tq Hnd Hk).
Qed.

Lemma sub_fields_nth ft : forall (l : list field) i n o st,
  sub_fields ft l = true -> nth_error l i = Some (n, o, st) ->
  match tfield n ft with None => True | Some tq => sub_ok st tq = true end.
Proof.
  induction l as [| [[n0 o0] st0] r IH]; intros [|i] n o st H Hn; simpl in Hn; try discriminate.
  - injection Hn as -> -> ->. simpl in H. apply andb_true_iff in H as [H _].
    destruct (tfield n ft); [exact H | exact I].
  - simpl in H. apply andb_true_iff in H as [_ H]. eapply IH; eassumption.
Qed.

(* an omitted (empty) field of the writer reads as the reader's zero value *)
Lemma agree_zero_of_empty : forall s t v,
  sub_ok s t = true -> has_type t v = true -> is_empty v = true -> agree s t (zero_val s) v.
Proof.
  intros s t v Hs Ht He. destruct s; simpl in Hs; try discriminate Hs; try exact I.
  - (* TInt *) destruct t; try discriminate Hs. destruct v; try discriminate Ht. simpl in He |- *.
    apply Z.eqb_eq in He. now subst.
  - (* TStr *) destruct t; try discriminate Hs. destruct v; try discriminate Ht. simpl in He |- *.
    apply String.eqb_eq in He. now subst.
  - (* TStruct: a struct value is never empty *)
    destruct t; try discriminate Hs. destruct v; try discriminate Ht. discriminate He.
Qed.

Lemma agree_fields_build ft vs : forall (l : list field) ws,
  length ws = length l ->
  (forall i n o st wi, nth_error l i = Some (n, o, st) -> nth_error ws i = Some wi -> field_agree ft vs n st wi) ->
  agree_fields ft vs l ws.
Proof.
  induction l as [| [[n0 o0] st0] r IH]; intros [| w0 wr] Hl H; simpl in Hl; try discriminate; simpl; [exact I|].
  split.
  - apply (H 0%nat n0 o0 st0 w0); reflexivity.
  - apply IH; [lia|]. intros i n o st wi Hn Hw. apply (H (S i) n o st wi); assumption.
Qed.

Lemma agree_fields_nth ft vs : forall (l : list field) ws i n o st,
  agree_fields ft vs l ws -> nth_error l i = Some (n, o, st) ->
  exists wi, nth_error ws i = Some wi /\ field_agree ft vs n st wi.
Proof.
  induction l as [| [[n0 o0] st0] r IH]; intros [| w0 wr] [|i] n o st H Hn; simpl in H, Hn;
    try discriminate; try contradiction.
  - injection Hn as -> -> ->. exists w0. split; [reflexivity | apply H].
  - destruct H as [_ H]. apply (IH wr i n o st H Hn).
Qed.

Lemma zero_fields_length fs : length (zero_fields fs) = length fs.
Proof. induction fs as [| [[n o] t] r IH]; simpl; congruence. Qed.
Lemma zero_fields_nth (fs : list field) : forall i n o st, nth_error fs i = Some (n, o, st) ->
  nth_error (zero_fields fs) i = Some (zero_val st).
Proof.
  induction fs as [| [[n0 o0] t0] r IH]; intros [|i] n o st H; simpl in H; try discriminate.
  - now injection H as -> -> ->.
  - simpl. eapply IH; eassumption.
Qed.

(* ---------- string lists ---------- *)
Lemma strlist_dec : forall l js,
  forallb (has_type TStr) l = true -> map_opt (enc TStr) l = Some js ->
  exists l', map_opt (fun e => dec TStr e (zero_val TStr)) js = Some l'.
Proof.
  induction l as [| x r IH]; intros js Ht He.
  - cbn [map_opt] in He. injection He as <-. exists []. reflexivity.
  - cbn [forallb] in Ht. apply andb_true_iff in Ht as [Hx Hr].
    destruct x; try discriminate Hx. cbn [map_opt] in He. change (enc TStr (VStr s)) with (Some (JStr s)) in He. cbv iota in He.
    destruct (map_opt (enc TStr) r) as [jr|] eqn:Er; [|discriminate He]. injection He as <-.
    destruct (IH jr Hr eq_refl) as [l' Hl']. cbn [map_opt]. change (dec TStr (JStr s) (zero_val TStr)) with (Some (VStr s)). cbv iota. rewrite Hl'. eauto.
Qed.

(* ====================================================================== *)
(* the theorem                                                             *)
(* ====================================================================== *)
Definition SD (s : ty) : Prop := forall t v j,
  sub_ok s t = true -> wf_ty t = true -> has_type t v = true -> enc t v = Some j ->
  exists w, dec s j (zero_val s) = Some w /\ agree s t w v.

Section StructCase.
  Variables (fs ft : list field) (vs : list val).
  Hypothesis IHf : Forall (fun f : field => SD (snd f)) fs.
  Hypothesis Hnds : NoDup (map fname fs).
  Hypothesis Hndt : NoDup (map fname ft).
  Hypothesis Hfc : fold_compat fs ft = true.
  Hypothesis Hsub : sub_fields ft fs = true.
  Hypothesis Hwf : wf_fields ft = true.
  Hypothesis Hty : has_type_fields ft vs = true.

  (* the state of the fold: fields whose member is still to come hold zero, the others agree *)
  Definition inv (rest : list (string * json)) (cur : list val) : Prop :=
    length cur = length fs /\
    forall i n o st c, nth_error fs i = Some (n, o, st) -> nth_error cur i = Some c ->
      (In n (map fst rest) /\ c = zero_val st) \/ (~ In n (map fst rest) /\ field_agree ft vs n st c).

  Lemma fold_sub : forall ms cur,
    NoDup (map fst ms) ->
    (forall n j, In (n, j) ms ->
       exists k o tq vk, nth_error ft k = Some (n, o, tq) /\ nth_error vs k = Some vk /\ enc tq vk = Some j) ->
    inv ms cur ->
    exists res, fold_left (sstep fs) ms (Some cur) = Some res /\ inv [] res.
  Proof.
    induction ms as [| [n j] ms' IH]; intros cur Hnd Hm Hinv.
    - exists cur. split; [reflexivity | exact Hinv].
    - simpl in Hnd. inversion Hnd as [| ? ? Hnot Hnd']; subst.
      destruct (Hm n j (or_introl eq_refl)) as [k [o [tq [vk [Hk [Hvk Hej]]]]]].
      assert (Hin_t : In n (map fname ft)).
      { apply in_map_iff. exists (n, o, tq). split; [reflexivity|]. eapply nth_error_In; eassumption. }
      pose proof (proj1 (forallb_forall _ _) Hfc n Hin_t) as Hc. cbv beta in Hc.
      destruct Hinv as [Hlen Hinv].
      cbn [fold_left].
      destruct (field_index_exact n fs 0) as [i|] eqn:Ex.
      + (* the reader has this field *)
        destruct (field_index n fs) as [a|] eqn:Ea; [|discriminate Hc].
        apply Nat.eqb_eq in Hc. subst a.
        destruct (field_index_exact_some fs 0 n i Ex) as [_ [o' [st Hfi]]]. rewrite Nat.sub_0_r in Hfi.
        assert (Li : (i < length cur)%nat) by (rewrite Hlen; exact (nth_error_lt _ _ _ Hfi)).
        destruct (nth_error_some_lt cur i Li) as [c Hci].
        assert (Ec : c = zero_val st).
        { destruct (Hinv i n o' st c Hfi Hci) as [[_ H]|[H _]]; [exact H|]. exfalso. apply H. now left. }
        subst c.
        pose proof (sub_fields_nth ft fs i n o' st Hsub Hfi) as Hs. rewrite (tfield_nth ft k n o tq Hndt Hk) in Hs.
        assert (Hsd : SD st).
        { rewrite Forall_forall in IHf. apply (IHf (n, o', st)). eapply nth_error_In; eassumption. }
        destruct (Hsd tq vk j Hs
                    (wf_fields_In ft (n, o, tq) Hwf (nth_error_In _ _ Hk))
                    (proj2 (has_type_fields_nth ft vs Hty) k n o tq vk Hk Hvk) Hej) as [x [Hdx Hax]].
        assert (Estep : sstep fs (Some cur) (n, j) = Some (set_nth_val i x cur)).
        { unfold sstep. simpl fst. simpl snd. rewrite Ea.
          rewrite (find_at_spec i j cur fs 0%nat i n o' st Hfi eq_refl).
          rewrite (nth_error_nth' cur i (zero_val st) (zero_val st) Hci). now rewrite Hdx. }
        rewrite Estep. apply IH; [exact Hnd' | intros n' j' Hin; apply Hm; now right |].
        split; [now rewrite set_nth_val_length|].
        intros i' n' o'' st' c' Hf' Hc'.
        destruct (Nat.eq_dec i i') as [<-|Hne].
        * rewrite Hfi in Hf'. injection Hf' as <- <- <-.
          rewrite set_nth_val_same in Hc' by lia. injection Hc' as <-.
          right. split; [exact Hnot|]. unfold field_agree.
          rewrite (tfield_nth ft k n o tq Hndt Hk), (tval_nth ft vs k n o tq Hndt Hk), Hvk. exact Hax.
        * rewrite set_nth_val_other in Hc' by exact Hne.
          assert (Hnn : n' <> n).
          { intros ->. apply Hne. eapply (fname_inj fs i i'); try eassumption. reflexivity. }
          destruct (Hinv i' n' o'' st' c' Hf' Hc') as [[Hin He]|[Hin He]].
          -- left. split; [|exact He]. simpl in Hin. destruct Hin as [Hin|Hin]; [congruence | exact Hin].
          -- right. split; [|exact He]. intros Hin'. apply Hin. now right.
      + (* the reader does not know this member: ignored *)
        destruct (field_index n fs) as [a|] eqn:Ea; [discriminate Hc|].
        assert (Estep : sstep fs (Some cur) (n, j) = Some cur).
        { unfold sstep. simpl fst. simpl snd. rewrite Ea. apply find_at_beyond. simpl. lia. }
        rewrite Estep. apply IH; [exact Hnd' | intros n' j' Hin; apply Hm; now right |].
        split; [exact Hlen|].
        intros i' n' o'' st' c' Hf' Hc'.
        assert (Hnn : n' <> n).
        { intros ->. apply (field_index_exact_none fs 0 n Ex).
          apply in_map_iff. exists (n, o'', st'). split; [reflexivity|]. eapply nth_error_In; eassumption. }
        destruct (Hinv i' n' o'' st' c' Hf' Hc') as [[Hin He]|[Hin He]].
        * left. split; [|exact He]. simpl in Hin. destruct Hin as [Hin|Hin]; [congruence | exact Hin].
        * right. split; [|exact He]. intros Hin'. apply Hin. now right.
  Qed.
End StructCase.

Theorem sub_decode : forall s, SD s.
Proof.
  induction s using ty_ind'; unfold SD; intros t v j Hs Hw Ht He; try (simpl in Hs; discriminate Hs).
  - (* TInt *)
    simpl in Hs. destruct t; try discriminate Hs. destruct v; try discriminate Ht. simpl in He. injection He as <-.
    simpl in Ht. apply andb_true_iff in Hs as [H1 H2]. apply andb_true_iff in Ht as [H3 H4].
    exists (VInt z). split; [|reflexivity]. simpl.
    replace ((lo <=? z) && (z <=? hi)) with true; [reflexivity|]. symmetry. apply andb_true_iff. split; lia.
  - (* TStr *)
    simpl in Hs. destruct t; try discriminate Hs. destruct v; try discriminate Ht. simpl in He. injection He as <-.
    exists (VStr s). split; reflexivity.
  - (* TList TStr *)
    simpl in Hs. destruct s; try discriminate Hs. destruct t; try discriminate Hs. destruct t; try discriminate Hs.
    destruct v as [| | | [l|] | | | |]; try discriminate Ht.
    + change (enc (TList TStr) (VList (Some l))) with (option_map JArr (map_opt (enc TStr) l)) in He.
      change (has_type (TList TStr) (VList (Some l))) with (forallb (has_type TStr) l) in Ht.
      destruct (map_opt (enc TStr) l) as [js|] eqn:Ej; [|discriminate He]. injection He as <-.
      destruct (strlist_dec l js Ht Ej) as [l' Hl']. exists (VList (Some l')). split; [|exact I].
      change (dec (TList TStr) (JArr js) (zero_val (TList TStr)))
        with (option_map (fun x => VList (Some x)) (map_opt (fun e => dec TStr e (zero_val TStr)) js)).
      now rewrite Hl'.
    + simpl in He. injection He as <-. exists (VList None). split; [reflexivity | exact I].
  - (* TStruct *)
    destruct t as [| | | | | | ft | | | | | |]; try (simpl in Hs; discriminate Hs).
    destruct v as [| | | | | | vs |]; try discriminate Ht.
    rewrite sub_ok_struct in Hs.
    apply andb_true_iff in Hs as [Hs Hsub]. apply andb_true_iff in Hs as [Hnn Hfc].
    rewrite wf_ty_struct in Hw. apply andb_true_iff in Hw as [Hwn Hwf].
    rewrite has_type_struct in Ht. rewrite enc_struct in He.
    destruct (enc_fields ft vs) as [ms|] eqn:Ems; [|discriminate He]. injection He as <-.
    pose proof (names_nodup_NoDup _ Hnn) as Hnds. pose proof (names_nodup_NoDup _ Hwn) as Hndt.
    rewrite zero_val_struct, dec_struct_obj.
    destruct (fold_sub fs ft vs H Hnds Hndt Hfc Hsub Hwf Ht ms (zero_fields fs)) as [res [Hres [Hlr Hir]]].
    + eapply enc_fields_nodup; eassumption.
    + intros n j Hin. destruct (enc_fields_members ft vs ms Ems n j Hin) as [k [o [tq [vk [H1 [H2 [_ H4]]]]]]].
      exists k, o, tq, vk. auto.
    + split; [apply zero_fields_length|].
      intros i n o st c Hf Hc. rewrite (zero_fields_nth fs i n o st Hf) in Hc. injection Hc as <-.
      destruct (in_dec string_dec n (map fst ms)) as [Hin|Hin]; [left; now split|].
      right. split; [exact Hin|]. unfold field_agree.
      pose proof (sub_fields_nth ft fs i n o st Hsub Hf) as Hs.
      destruct (tfield n ft) as [tq|] eqn:Etf; [|reflexivity].
      unfold tfield in Etf. unfold tval.
      destruct (field_index_exact n ft 0) as [k|] eqn:Ek; [|discriminate Etf].
      destruct (field_index_exact_some ft 0 n k Ek) as [_ [o' [tq' Hk]]]. rewrite Nat.sub_0_r in Hk.
      rewrite Hk in Etf. simpl in Etf. injection Etf as <-.
      assert (Lk : (k < length vs)%nat).
      { rewrite (enc_fields_length ft vs ms Ems). exact (nth_error_lt _ _ _ Hk). }
      destruct (nth_error_some_lt vs k Lk) as [vk Hvk]. rewrite Hvk.
      pose proof (proj2 (has_type_fields_nth ft vs Ht) k n o' tq' vk Hk Hvk) as Htk.
      destruct (o' && is_empty vk) eqn:Eo.
      * apply andb_true_iff in Eo as [_ Eo]. now apply agree_zero_of_empty.
      * exfalso. apply Hin. eapply enc_fields_cover; eassumption.
    + rewrite Hres. exists (VStruct res). split; [reflexivity|].
      rewrite agree_struct. apply agree_fields_build; [exact Hlr|].
      intros i n o st wi Hn Hwi. destruct (Hir i n o st wi Hn Hwi) as [[[] _]|[_ Ha]]. exact Ha.
Qed.
