(* Proofs/CodecOrder.v — marshalling does not see the order of a map's entries:
   [enc] of a value and of its sorted representative [norm_maps] coincide, and
   every permutation of a map's entries has the same representative. *)
From JWT Require Import Base.Codec Model.Claims.
From Coq Require Export Permutation Sorting.Sorted.
Open Scope string_scope.
Open Scope Z_scope.

(* ====================================================================== *)
(* String.leb is a total order                                             *)
(* ====================================================================== *)
Lemma ascii_compare_refl c : Ascii.compare c c = Eq.
Proof. unfold Ascii.compare. apply N.compare_refl. Qed.

Lemma ascii_compare_lt_trans a b c :
  Ascii.compare a b = Lt -> Ascii.compare b c = Lt -> Ascii.compare a c = Lt.
Proof. unfold Ascii.compare. rewrite !N.compare_lt_iff. apply N.lt_trans. Qed.

Lemma str_compare_le_trans : forall a b c,
  String.compare a b <> Gt -> String.compare b c <> Gt -> String.compare a c <> Gt.
Proof.
  induction a as [| x a IH]; intros [| y b] [| z c]; simpl; intros H1 H2; try congruence.
  destruct (Ascii.compare x y) eqn:Exy; try congruence;
    destruct (Ascii.compare y z) eqn:Eyz; try congruence.
  - apply Ascii.compare_eq_iff in Exy. apply Ascii.compare_eq_iff in Eyz. subst.
    rewrite ascii_compare_refl. now apply (IH b c).
  - apply Ascii.compare_eq_iff in Exy. subst. rewrite Eyz. congruence.
  - apply Ascii.compare_eq_iff in Eyz. subst. rewrite Exy. congruence.
  - rewrite (ascii_compare_lt_trans _ _ _ Exy Eyz). congruence.
Qed.

Lemma str_leb_trans a b c :
  String.leb a b = true -> String.leb b c = true -> String.leb a c = true.
Proof.
  unfold String.leb. intros H1 H2.
  pose proof (str_compare_le_trans a b c) as T.
  destruct (String.compare a b); destruct (String.compare b c); destruct (String.compare a c);
    try reflexivity; try discriminate; exfalso; apply T; congruence.
Qed.

(* ====================================================================== *)
(* sort_by_key                                                             *)
(* ====================================================================== *)
Definition key_le {A} (x y : string * A) : Prop := String.leb (fst x) (fst y) = true.
Definition ksorted {A} (l : list (string * A)) : Prop := StronglySorted key_le l.

Lemma ins_perm {A} (e : string * A) l : Permutation (insert_by_key e l) (e :: l).
Proof.
  induction l as [| x r IH]; simpl; [apply Permutation_refl|].
  destruct (String.leb (fst e) (fst x)); [apply Permutation_refl|].
  eapply Permutation_trans; [apply perm_skip, IH | apply perm_swap].
Qed.

Lemma srt_perm {A} (l : list (string * A)) : Permutation (sort_by_key l) l.
Proof.
  induction l as [| x r IH]; simpl; [constructor|].
  eapply Permutation_trans; [apply ins_perm | now apply perm_skip].
Qed.

Lemma ins_sorted {A} (e : string * A) l : ksorted l -> ksorted (insert_by_key e l).
Proof.
  induction l as [| x r IH]; intros Hs; simpl.
  - constructor; constructor.
  - inversion Hs as [| ? ? Hr Hx]; subst.
    destruct (String.leb (fst e) (fst x)) eqn:E.
    + constructor; [exact Hs|]. constructor; [exact E|].
      eapply Forall_impl; [|exact Hx]. intros y Hy. unfold key_le in *.
      eapply str_leb_trans; eassumption.
    + assert (Hxe : String.leb (fst x) (fst e) = true)
        by (destruct (String.leb_total (fst e) (fst x)) as [H|H]; congruence).
      constructor; [now apply IH|].
      eapply Permutation_Forall; [apply Permutation_sym, ins_perm|].
      constructor; assumption.
Qed.

Lemma srt_sorted {A} (l : list (string * A)) : ksorted (sort_by_key l).
Proof. induction l as [| x r IH]; simpl; [constructor | now apply ins_sorted]. Qed.

Lemma srt_id {A} (l : list (string * A)) : ksorted l -> sort_by_key l = l.
Proof.
  induction l as [| x r IH]; intros Hs; [reflexivity|].
  inversion Hs as [| ? ? Hr Hx]; subst. simpl. fold (sort_by_key r). rewrite (IH Hr).
  destruct r as [| y r']; simpl; [reflexivity|].
  inversion Hx as [| ? ? Hy _]; subst. unfold key_le in Hy. now rewrite Hy.
Qed.

Lemma srt_idem {A} (l : list (string * A)) : sort_by_key (sort_by_key l) = sort_by_key l.
Proof. apply srt_id, srt_sorted. Qed.

Definition on_val {A B} (f : A -> B) (kv : string * A) : string * B := (fst kv, f (snd kv)).

Lemma ins_map {A B} (f : A -> B) e l :
  insert_by_key (on_val f e) (map (on_val f) l) = map (on_val f) (insert_by_key e l).
Proof.
  induction l as [| x r IH]; simpl; [reflexivity|].
  destruct (String.leb (fst e) (fst x)); simpl; [reflexivity|]. now rewrite IH.
Qed.

Lemma srt_map {A B} (f : A -> B) l :
  sort_by_key (map (on_val f) l) = map (on_val f) (sort_by_key l).
Proof.
  induction l as [| x r IH]; simpl; [reflexivity|].
  fold (sort_by_key (map (on_val f) r)). fold (sort_by_key r). now rewrite IH, ins_map.
Qed.

Lemma ins_not_nil {A} (e : string * A) l : insert_by_key e l <> [].
Proof. destruct l as [| x r]; simpl; [discriminate|]. destruct (String.leb _ _); discriminate. Qed.

Lemma srt_in {A} (l : list (string * A)) x : In x (sort_by_key l) -> In x l.
Proof. apply Permutation_in, srt_perm. Qed.

Lemma keys_nodup_NoDup_o {A} (l : list (string * A)) : keys_nodup l = true -> NoDup (map fst l).
Proof.
  induction l as [| [k a] r IH]; simpl; intros H; [constructor|].
  apply andb_true_iff in H as [H1 H2]. constructor; [|now apply IH].
  intros Hin. apply in_map_iff in Hin as [[k' a'] [Hk Hin]]. simpl in Hk. subst k'.
  apply negb_true_iff in H1.
  assert (X : existsb (fun e : string * A => (fst e =? k)%string) r = true).
  { apply existsb_exists. exists (k, a'). split; [exact Hin | apply String.eqb_refl]. }
  congruence.
Qed.

(* a list with distinct keys has exactly one sorted arrangement *)
Lemma sorted_perm_eq {A} : forall (l l' : list (string * A)),
  ksorted l -> ksorted l' -> NoDup (map fst l) -> Permutation l l' -> l = l'.
Proof.
  induction l as [| x r IH]; intros l' Hs Hs' Hnd Hp.
  - apply Permutation_nil in Hp. now subst.
  - destruct l' as [| y s].
    + apply Permutation_sym, Permutation_nil in Hp. discriminate Hp.
    + inversion Hs as [| ? ? Hr Hx]; subst. inversion Hs' as [| ? ? Hsr Hy]; subst.
      inversion Hnd as [| ? ? Hnx Hndr]; subst.
      assert (Exy : x = y).
      { assert (Hxin : In x (y :: s)) by (eapply Permutation_in; [exact Hp | now left]).
        assert (Hyin : In y (x :: r))
          by (eapply Permutation_in; [apply Permutation_sym; exact Hp | now left]).
        destruct Hxin as [E|Hxs]; [now subst|]. destruct Hyin as [E|Hyr]; [now subst|].
        exfalso. apply Hnx.
        rewrite Forall_forall in Hx, Hy. pose proof (Hx y Hyr) as L1. pose proof (Hy x Hxs) as L2.
        unfold key_le in L1, L2. rewrite (String.leb_antisym _ _ L1 L2).
        now apply in_map. }
      subst y. f_equal. apply IH; try assumption. eapply Permutation_cons_inv; exact Hp.
Qed.

Lemma srt_perm_unique {A} (l l' : list (string * A)) :
  NoDup (map fst l) -> Permutation l l' -> sort_by_key l = sort_by_key l'.
Proof.
  intros Hnd Hp. apply sorted_perm_eq; try apply srt_sorted.
  - eapply Permutation_NoDup; [|exact Hnd]. apply Permutation_map, Permutation_sym, srt_perm.
  - eapply Permutation_trans; [apply srt_perm|].
    eapply Permutation_trans; [exact Hp | apply Permutation_sym, srt_perm].
Qed.

(* ====================================================================== *)
(* map_opt                                                                 *)
(* ====================================================================== *)
Lemma map_opt_map {A B C} (f : B -> option C) (g : A -> B) l :
  map_opt f (map g l) = map_opt (fun x => f (g x)) l.
Proof. induction l as [| x r IH]; simpl; [reflexivity|]. now rewrite IH. Qed.

Lemma map_opt_ext_in {A B} (f g : A -> option B) l :
  (forall x, In x l -> f x = g x) -> map_opt f l = map_opt g l.
Proof.
  induction l as [| x r IH]; intros H; simpl; [reflexivity|].
  rewrite (H x (or_introl eq_refl)), IH; [reflexivity|]. intros y Hy. apply H. now right.
Qed.

(* ====================================================================== *)
(* induction over schemas; the nested fixpoints as functions               *)
(* ====================================================================== *)
Definition sfield := (string * bool * ty)%type.

Section TyInd.
  Variable P : ty -> Prop.
  Hypothesis Hbool : P TBool.
  Hypothesis Hint : forall lo hi, P (TInt lo hi).
  Hypothesis Hstr : P TStr.
  Hypothesis Hlist : forall t, P t -> P (TList t).
  Hypothesis Hmap : forall t, P t -> P (TMap t).
  Hypothesis Hptr : forall t, P t -> P (TPtr t).
  Hypothesis Hstruct : forall fs, Forall (fun f : sfield => P (snd f)) fs -> P (TStruct fs).
  Hypothesis Hany : P TAny.
  Hypothesis Henum : forall tbl, P (TEnum tbl).
  Hypothesis Hsampling : P TSampling.
  Hypothesis Hcidr : P TCidr.
  Hypothesis Hkeyset : forall st p ki, P st -> P (TKeySet st p ki).
  Hypothesis Hbad : forall w, P (TBad w).
  Fixpoint ty_ind_o (t : ty) : P t :=
    match t with
    | TBool => Hbool
    | TInt lo hi => Hint lo hi
    | TStr => Hstr
    | TList t' => Hlist t' (ty_ind_o t')
    | TMap t' => Hmap t' (ty_ind_o t')
    | TPtr t' => Hptr t' (ty_ind_o t')
    | TStruct fs =>
        Hstruct fs ((fix go (fs : list sfield) : Forall (fun f : sfield => P (snd f)) fs :=
                       match fs with
                       | [] => Forall_nil _
                       | f :: r => Forall_cons _ (ty_ind_o (snd f)) (go r)
                       end) fs)
    | TAny => Hany
    | TEnum tbl => Henum tbl
    | TSampling => Hsampling
    | TCidr => Hcidr
    | TKeySet st p ki => Hkeyset st p ki (ty_ind_o st)
    | TBad w => Hbad w
    end.
End TyInd.

Fixpoint enc_flds (fs : list sfield) (vs : list val) : option (list (string * json)) :=
  match fs, vs with
  | [], [] => Some []
  | (name, omit, ft) :: fr, fv :: vr =>
      match enc_flds fr vr with
      | None => None
      | Some rest =>
          if omit && is_empty fv then Some rest
          else match enc ft fv with
               | None => None
               | Some j => Some ((name, j) :: rest)
               end
      end
  | _, _ => None
  end.
Lemma enc_struct_o fs vs : enc (TStruct fs) (VStruct vs) = option_map JObj (enc_flds fs vs).
Proof. reflexivity. Qed.

Fixpoint has_type_flds (fs : list sfield) (vs : list val) : bool :=
  match fs, vs with
  | [], [] => true
  | (_, _, ft) :: fr, fv :: vr => has_type ft fv && has_type_flds fr vr
  | _, _ => false
  end.
Lemma has_type_struct_o fs vs : has_type (TStruct fs) (VStruct vs) = has_type_flds fs vs.
Proof. reflexivity. Qed.

(* ====================================================================== *)
(* norm_maps                                                               *)
(* ====================================================================== *)
Lemma norm_maps_map m :
  norm_maps (VMap (Some m)) = VMap (Some (sort_by_key (map (on_val norm_maps) m))).
Proof. reflexivity. Qed.

Lemma is_empty_norm v : is_empty (norm_maps v) = is_empty v.
Proof.
  destruct v as [| | | [[| x r]|] | [[| x r]|] | [x|] | |]; try reflexivity.
  rewrite norm_maps_map. simpl.
  destruct (insert_by_key _ _) eqn:E; [|reflexivity]. now apply ins_not_nil in E.
Qed.

Lemma norm_maps_strs l :
  forallb (fun x => match x with VStr _ => true | _ => false end) l = true -> map norm_maps l = l.
Proof.
  induction l as [| x r IH]; simpl; intros H; [reflexivity|].
  apply andb_true_iff in H as [H1 H2]. rewrite (IH H2).
  destruct x; try discriminate H1. reflexivity.
Qed.

Definition map_encf (t : ty) (kv : string * val) : option (string * json) :=
  option_map (fun j => (fst kv, j)) (enc t (snd kv)).
Definition keyset_encf_o (st : ty) (kv : string * val) : option json :=
  match snd kv with
  | VPtr None => Some (JStr (fst kv))
  | VPtr (Some s) => enc st s
  | _ => None
  end.
Lemma enc_map_o t m :
  enc (TMap t) (VMap (Some m)) = option_map JObj (map_opt (map_encf t) (sort_by_key m)).
Proof. reflexivity. Qed.
Lemma enc_keyset_o st p ki m :
  enc (TKeySet st p ki) (VMap (Some m)) = option_map JArr (map_opt (keyset_encf_o st) (sort_by_key m)).
Proof. reflexivity. Qed.
Lemma enc_list_o t l : enc (TList t) (VList (Some l)) = option_map JArr (map_opt (enc t) l).
Proof. reflexivity. Qed.

(* the order of a map's entries is invisible to [enc]; no well-formedness of the schema is needed *)
Lemma enc_norm : forall (t : ty) (v : val), has_type t v = true -> enc t (norm_maps v) = enc t v.
Proof.
  induction t as [| lo hi | | t IH | t IH | t IH | fs IH | | tbl | | | st p ki IH | w] using ty_ind_o;
    intros v Hv.
  - destruct v; simpl in Hv; try discriminate Hv; reflexivity.
  - destruct v; simpl in Hv; try discriminate Hv; reflexivity.
  - destruct v; simpl in Hv; try discriminate Hv; reflexivity.
  - (* list *)
    destruct v as [| | | [l|] | | | |]; simpl in Hv; try discriminate Hv; [|reflexivity].
    change (norm_maps (VList (Some l))) with (VList (Some (map norm_maps l))).
    rewrite !enc_list_o, map_opt_map. f_equal. apply map_opt_ext_in. intros x Hx.
    apply IH. rewrite forallb_forall in Hv. now apply Hv.
  - (* map *)
    destruct v as [| | | | [m|] | | |]; simpl in Hv; try discriminate Hv; [|reflexivity].
    apply andb_true_iff in Hv as [_ Hv].
    rewrite norm_maps_map, !enc_map_o, srt_idem, srt_map, map_opt_map. f_equal.
    apply map_opt_ext_in. intros [k x] Hx. unfold map_encf, on_val. simpl.
    rewrite IH; [reflexivity|]. rewrite forallb_forall in Hv. apply (Hv (k, x)). now apply srt_in.
  - (* pointer *)
    destruct v as [| | | | | [x|] | |]; simpl in Hv; try discriminate Hv; [|reflexivity].
    change (enc t (norm_maps x) = enc t x). now apply IH.
  - (* struct *)
    destruct v as [| | | | | | vs |]; simpl in Hv; try discriminate Hv.
    change (has_type_flds fs vs = true) in Hv.
    change (norm_maps (VStruct vs)) with (VStruct (map norm_maps vs)).
    rewrite !enc_struct_o. f_equal. revert vs Hv.
    induction IH as [| [[n o] ft] fr Hf _ IHfr]; intros [| fv vr] Hv; try reflexivity.
    simpl in Hv. apply andb_true_iff in Hv as [H1 H2]. simpl in Hf.
    simpl. rewrite (IHfr vr H2), is_empty_norm, (Hf fv H1). reflexivity.
  - destruct v; simpl in Hv; try discriminate Hv; reflexivity.
  - destruct v; simpl in Hv; try discriminate Hv; reflexivity.
  - destruct v; simpl in Hv; try discriminate Hv; reflexivity.
  - (* cidr *)
    destruct v as [| | | [l|] | | | |]; simpl in Hv; try discriminate Hv; [|reflexivity].
    change (norm_maps (VList (Some l))) with (VList (Some (map norm_maps l))).
    now rewrite (norm_maps_strs l Hv).
  - (* key set *)
    destruct v as [| | | | [m|] | | |]; simpl in Hv; try discriminate Hv; [|reflexivity].
    apply andb_true_iff in Hv as [_ Hv].
    rewrite norm_maps_map, !enc_keyset_o, srt_idem, srt_map, map_opt_map. f_equal.
    apply map_opt_ext_in. intros [k x] Hx. unfold keyset_encf_o, on_val. simpl.
    rewrite forallb_forall in Hv. pose proof (Hv (k, x) (srt_in _ _ Hx)) as Hkx. simpl in Hkx.
    destruct x as [| | | | | [s|] | |]; try discriminate Hkx; [|reflexivity].
    destruct s as [| | | | | | fields |]; try discriminate Hkx.
    apply andb_true_iff in Hkx as [Hs _].
    change (enc st (norm_maps (VStruct fields)) = enc st (VStruct fields)). now apply IH.
  - destruct v; discriminate Hv.
Qed.

(* ====================================================================== *)
(* the statements of C13                                                   *)
(* ====================================================================== *)
Theorem enc_order_independent : forall (t : ty) (v : val),
  wf_ty t = true -> has_type t v = true -> enc t (norm_maps v) = enc t v.
Proof. intros t v _. apply enc_norm. Qed.

Theorem same_content_same_tree : forall (t : ty) (v w : val),
  wf_ty t = true -> has_type t v = true -> has_type t w = true ->
  norm_maps v = norm_maps w -> enc t v = enc t w.
Proof.
  intros t v w _ Hv Hw E. rewrite <- (enc_norm t v Hv), <- (enc_norm t w Hw). now rewrite E.
Qed.

Theorem norm_maps_perm : forall (m m' : list (string * val)),
  keys_nodup m = true -> Permutation m m' -> norm_maps (VMap (Some m)) = norm_maps (VMap (Some m')).
Proof.
  intros m m' Hnd Hp. rewrite !norm_maps_map. do 2 f_equal. apply srt_perm_unique.
  - rewrite map_map. simpl. now apply keys_nodup_NoDup_o.
  - now apply Permutation_map.
Qed.
