(* Proofs/Creds.v — proofs for Properties/C15.v (credential files).
   Method: a declarative reading [M] of the regular-expression fragment, shown
   sound and complete for the backtracking matcher [m]; the credentials
   expression is then shown UNAMBIGUOUS on a formatted block (every declarative
   match leaves the same rest and the same first capture), so whatever the
   leftmost-first search returns is that match. *)
From JWT Require Import Base.Regex Model.Creds.
Open Scope string_scope.

(* duplicated (identical bodies) from Properties/C15.v so that [exact] there unifies by conversion *)
Fixpoint crlf (s : string) : string :=
  match s with
  | EmptyString => EmptyString
  | String c r => if Ascii.eqb c "010"%char then String "013" (String "010" (crlf r)) else String c (crlf r)
  end.
Definition render (use_crlf : bool) (s : string) : string := if use_crlf then crlf s else s.
Definition ws_cls : cls := [(9, 10); (12, 13); (32, 32)].

Definition dash_cls : cls := [(45, 45)].
Definition nolf_cls : cls := [(0, 9); (11, 255)].
Definition cr_cls : cls := [(13, 13)].
Definition lf_cls : cls := [(10, 10)].
Definition dashes3 : re := RCat (RChar dash_cls) (RCat (RChar dash_cls) (RPlus dash_cls)).
Definition line_re (R : re) : re := RCat dashes3 (RCat (RStar nolf_cls) (RCat dashes3 R)).
Definition eol_re (R : re) : re := RCat (RQuest cr_cls) (RCat (RChar lf_cls) R).
Definition last_re : re := RCap 2 (RAlt (RCat (RQuest cr_cls) (RChar lf_cls)) REnd).
Definition creds_shape : re :=
  RCat (RStar ws_cls) (line_re (eol_re (RCat (RCap 1 (RPlus tok_cls)) (eol_re (line_re last_re))))).

Lemma creds_re_shape : creds_re = creds_shape.
Proof. reflexivity. Qed.

Lemma re_in_fragment : re_ok creds_re = true /\ creds_re_v1 = creds_re.
Proof. split; vm_compute; reflexivity. Qed.

(* ---------- declarative reading of the fragment ---------- *)
Fixpoint M (r : re) (s : string) (cs : caps) (rest : string) (cs' : caps) : Prop :=
  match r with
  | REmpty => rest = s /\ cs' = cs
  | RChar c => exists ch, s = String ch rest /\ in_cls c ch = true /\ cs' = cs
  | RStar c => exists x, s = x ++ rest /\ all_in c x = true /\ cs' = cs
  | RPlus c => exists ch x, s = String ch (x ++ rest) /\ in_cls c ch = true /\ all_in c x = true /\ cs' = cs
  | RQuest c => (rest = s \/ exists ch, s = String ch rest /\ in_cls c ch = true) /\ cs' = cs
  | RCat a b => exists s1 cs1, M a s cs s1 cs1 /\ M b s1 cs1 rest cs'
  | RAlt a b => M a s cs rest cs' \/ M b s cs rest cs'
  | RCap n r' => exists cs1, M r' s cs rest cs1 /\ cs' = (n, consumed s rest) :: cs1
  | REnd => s = "" /\ rest = "" /\ cs' = cs
  | RBad _ => False
  end.

Lemma star_greedy_sound A c s (k : string -> option A) x :
  star_greedy c s k = Some x -> exists p rest, s = p ++ rest /\ all_in c p = true /\ k rest = Some x.
Proof.
  induction s as [|ch r IH]; simpl; intros H.
  - exists "", "". auto.
  - destruct (in_cls c ch) eqn:E.
    + destruct (star_greedy c r k) as [y|] eqn:E2.
      * injection H as ->. destruct (IH eq_refl) as (p & rest & -> & Hp & Hk).
        exists (String ch p), rest. simpl. rewrite E, Hp. auto.
      * exists "", (String ch r). auto.
    + exists "", (String ch r). auto.
Qed.

Lemma star_greedy_complete A c p rest (k : string -> option A) x :
  all_in c p = true -> k rest = Some x -> exists x', star_greedy c (p ++ rest) k = Some x'.
Proof.
  induction p as [|ch p IH]; simpl; intros Hp Hk.
  - destruct rest as [|ch r]; simpl; [eauto|].
    destruct (in_cls c ch); [|eauto].
    destruct (star_greedy c r k); eauto.
  - apply andb_true_iff in Hp. destruct Hp as [Hc Hp]. rewrite Hc.
    destruct (IH Hp Hk) as [x' ->]. eauto.
Qed.

Lemma m_sound r : forall A s cs (k : string -> caps -> option A) x,
  m r s cs k = Some x -> exists rest cs', M r s cs rest cs' /\ k rest cs' = Some x.
Proof.
  induction r; intros A s cs k x H; simpl in H.
  - exists s, cs. simpl. auto.
  - destruct s as [|ch s]; [discriminate|]. destruct (in_cls c ch) eqn:E; [|discriminate].
    exists s, cs. split; [exists ch; auto|auto].
  - apply star_greedy_sound in H. destruct H as (p & rest & -> & Hp & Hk).
    exists rest, cs. split; [exists p; auto|auto].
  - destruct s as [|ch s]; [discriminate|]. destruct (in_cls c ch) eqn:E; [|discriminate].
    apply star_greedy_sound in H. destruct H as (p & rest & -> & Hp & Hk).
    exists rest, cs. split; [exists ch, p; auto|auto].
  - destruct s as [|ch s].
    + exists "", cs. simpl. auto.
    + destruct (in_cls c ch) eqn:E.
      * destruct (k s cs) as [y|] eqn:E2.
        -- injection H as ->. exists s, cs. split; [|auto]. split; [|auto]. right. exists ch. auto.
        -- exists (String ch s), cs. simpl. auto.
      * exists (String ch s), cs. simpl. auto.
  - apply IHr1 in H. destruct H as (s1 & cs1 & H1 & H). apply IHr2 in H.
    destruct H as (rest & cs' & H2 & Hk). exists rest, cs'. split; [|auto]. exists s1, cs1. auto.
  - destruct (m r1 s cs k) as [y|] eqn:E.
    + injection H as ->. apply IHr1 in E. destruct E as (rest & cs' & H1 & Hk).
      exists rest, cs'. simpl. auto.
    + apply IHr2 in H. destruct H as (rest & cs' & H1 & Hk). exists rest, cs'. simpl. auto.
  - apply IHr in H. destruct H as (rest & cs1 & H1 & Hk).
    exists rest, ((n, consumed s rest) :: cs1). split; [exists cs1; auto|auto].
  - destruct s; [|discriminate]. exists "", cs. simpl. auto.
  - discriminate.
Qed.

Lemma m_complete r : forall A s cs rest cs' (k : string -> caps -> option A) x,
  M r s cs rest cs' -> k rest cs' = Some x -> exists x', m r s cs k = Some x'.
Proof.
  induction r; intros A s cs rest cs' k x HM Hk; simpl in HM; simpl.
  - destruct HM as [-> ->]. eauto.
  - destruct HM as (ch & -> & Hc & ->). rewrite Hc. eauto.
  - destruct HM as (p & -> & Hp & ->).
    eapply (star_greedy_complete _ c p rest (fun rest0 => k rest0 cs)); eauto.
  - destruct HM as (ch & p & -> & Hc & Hp & ->). rewrite Hc.
    eapply (star_greedy_complete _ c p rest (fun rest0 => k rest0 cs)); eauto.
  - destruct HM as [[->|(ch & -> & Hc)] ->].
    + destruct s as [|ch s]; [eauto|]. destruct (in_cls c ch); [|eauto].
      destruct (k s cs); eauto.
    + rewrite Hc, Hk. eauto.
  - destruct HM as (s1 & cs1 & H1 & H2).
    destruct (IHr2 _ _ _ _ _ k _ H2 Hk) as [x1 Hx1].
    eapply (IHr1 _ s cs s1 cs1 (fun s' cs'0 => m r2 s' cs'0 k)); eauto.
  - destruct HM as [H1|H2].
    + destruct (IHr1 _ _ _ _ _ k _ H1 Hk) as [x1 ->]. eauto.
    + destruct (m r1 s cs k); [eauto|]. eapply IHr2; eauto.
  - destruct HM as (cs1 & H1 & ->).
    eapply (IHr _ s cs rest cs1 (fun s' cs'0 => k s' ((n, consumed s s') :: cs'0))); eauto.
  - destruct HM as (-> & -> & ->). eauto.
  - destruct HM.
Qed.

(* ---------- character-class facts ---------- *)
Ltac by_cases_ascii c := destruct c as [[] [] [] [] [] [] [] []]; vm_compute; try reflexivity; try discriminate; auto.

Lemma in_dash_eq c : in_cls dash_cls c = true -> c = "-"%char.
Proof. by_cases_ascii c. Qed.
Lemma in_lf_eq c : in_cls lf_cls c = true -> c = "010"%char.
Proof. by_cases_ascii c. Qed.
Lemma in_cr_eq c : in_cls cr_cls c = true -> c = "013"%char.
Proof. by_cases_ascii c. Qed.
Lemma nolf_spec c : in_cls nolf_cls c = negb (Ascii.eqb c "010"%char).
Proof. by_cases_ascii c. Qed.
Lemma dash_in_nolf c : in_cls dash_cls c = true -> in_cls nolf_cls c = true.
Proof. by_cases_ascii c. Qed.
Lemma tok_in_nolf c : in_cls tok_cls c = true -> in_cls nolf_cls c = true.
Proof. by_cases_ascii c. Qed.
Lemma tok_not_space c : in_cls tok_cls c = true -> is_space c = false.
Proof. by_cases_ascii c. Qed.
Lemma upper_lf c : Ascii.eqb (upper_ascii c) "010"%char = Ascii.eqb c "010"%char.
Proof. by_cases_ascii c. Qed.

Lemma all_in_app c a b : all_in c (a ++ b) = all_in c a && all_in c b.
Proof. induction a as [|ch a IH]; simpl; [reflexivity|]. now rewrite IH, andb_assoc. Qed.

Lemma all_in_mono (c d : cls) : (forall ch, in_cls c ch = true -> in_cls d ch = true) ->
  forall s, all_in c s = true -> all_in d s = true.
Proof.
  intros Hcd s. induction s as [|ch s IH]; simpl; [auto|].
  intros H. apply andb_true_iff in H. destruct H as [H1 H2]. now rewrite (Hcd _ H1), IH.
Qed.

Lemma all_in_nolf s : all_in nolf_cls s = negb (contains_char "010"%char s).
Proof.
  induction s as [|ch s IH]; cbn [all_in contains_char]; [reflexivity|].
  rewrite IH, nolf_spec. now rewrite negb_orb.
Qed.

Definition head_not_in (c : cls) (r : string) : Prop :=
  match r with EmptyString => True | String ch _ => in_cls c ch = false end.

Lemma span_unique c : forall x x' r r',
  all_in c x = true -> all_in c x' = true -> head_not_in c r -> head_not_in c r' ->
  x ++ r = x' ++ r' -> x = x' /\ r = r'.
Proof.
  induction x as [|ch x IH]; intros x' r r' Hx Hx' Hr Hr' E.
  - destruct x' as [|ch' x']; [auto|]. simpl in *. subst r. simpl in Hr.
    apply andb_true_iff in Hx'. destruct Hx' as [H _]. congruence.
  - destruct x' as [|ch' x'].
    + simpl in *. subst r'. simpl in Hr'.
      apply andb_true_iff in Hx. destruct Hx as [H _]. congruence.
    + simpl in *. injection E as -> E.
      apply andb_true_iff in Hx. apply andb_true_iff in Hx'.
      destruct (IH x' r r') as [-> ->]; tauto.
Qed.

Lemma substring_app_prefix x r : substring 0 (String.length x) (x ++ r) = x.
Proof.
  induction x as [|ch x IH]; simpl.
  - destruct r; reflexivity.
  - now rewrite IH.
Qed.

Lemma consumed_app x r : consumed (x ++ r) r = x.
Proof.
  unfold consumed. rewrite slength_app, Nat.add_sub. apply substring_app_prefix.
Qed.

Definition CR : string := String "013" "".
Definition opt_cr (e : string) : Prop := e = "" \/ e = CR.

Lemma opt_cr_nolf e : opt_cr e -> all_in nolf_cls e = true.
Proof. intros [->| ->]; reflexivity. Qed.

(* a line: LF-free text, an optional CR, then LF; what follows the LF is determined *)
Lemma line_unique P Q e e' s t :
  all_in nolf_cls P = true -> all_in nolf_cls Q = true -> opt_cr e -> opt_cr e' ->
  P ++ e ++ String "010" s = Q ++ e' ++ String "010" t -> s = t.
Proof.
  intros HP HQ He He' E. rewrite <- !sapp_assoc in E.
  apply (span_unique nolf_cls) in E.
  - destruct E as [_ E]. now injection E.
  - rewrite all_in_app, HP. now apply opt_cr_nolf.
  - rewrite all_in_app, HQ. now apply opt_cr_nolf.
  - reflexivity.
  - reflexivity.
Qed.

(* ---------- the pieces of the credentials expression, declaratively ---------- *)
Lemma M_dashes3_elim s cs rest cs' :
  M dashes3 s cs rest cs' -> exists p, s = String "-" p ++ rest /\ all_in nolf_cls p = true /\ cs' = cs.
Proof.
  intros (s1 & cs1 & (c1 & -> & H1 & ->) & s2 & cs2 & (c2 & -> & H2 & ->) & (c3 & x & -> & H3 & Hx & ->)).
  apply in_dash_eq in H1. subst c1.
  exists (String c2 (String c3 x)). split; [reflexivity|]. split; [|reflexivity].
  cbn [all_in]. rewrite (dash_in_nolf _ H2), (dash_in_nolf _ H3).
  apply (all_in_mono dash_cls nolf_cls dash_in_nolf _ Hx).
Qed.

Lemma M_dashes3_intro X cs : M dashes3 ("---" ++ X) cs X cs.
Proof.
  exists ("--" ++ X), cs. split; [exists "-"%char; auto|].
  exists ("-" ++ X), cs. split; [exists "-"%char; auto|].
  exists "-"%char, "". auto.
Qed.

Lemma M_line_elim R s cs rest cs' :
  M (line_re R) s cs rest cs' ->
  exists p s', s = String "-" p ++ s' /\ all_in nolf_cls p = true /\ M R s' cs rest cs'.
Proof.
  intros (s1 & cs1 & H1 & s2 & cs2 & (x & -> & Hx & ->) & s3 & cs3 & H3 & H4).
  apply M_dashes3_elim in H1. destruct H1 as (p1 & -> & Hp1 & ->).
  apply M_dashes3_elim in H3. destruct H3 as (p3 & -> & Hp3 & ->).
  exists (p1 ++ x ++ String "-" p3), s3. split; [|split; [|assumption]].
  - simpl. now rewrite !sapp_assoc.
  - rewrite !all_in_app. cbn [all_in]. now rewrite Hp1, Hx, Hp3.
Qed.

Lemma M_line_intro R body s' cs rest cs' :
  all_in nolf_cls body = true -> M R s' cs rest cs' ->
  M (line_re R) ("---" ++ body ++ "---" ++ s') cs rest cs'.
Proof.
  intros Hb HR.
  exists (body ++ "---" ++ s'), cs. split; [apply M_dashes3_intro|].
  exists ("---" ++ s'), cs. split; [exists body; auto|].
  exists s', cs. split; [apply M_dashes3_intro|assumption].
Qed.

Lemma M_eol_elim R s cs rest cs' :
  M (eol_re R) s cs rest cs' ->
  exists e s', s = e ++ String "010" s' /\ opt_cr e /\ M R s' cs rest cs'.
Proof.
  intros (s1 & cs1 & ([->|(ch & -> & Hc)] & ->) & s2 & cs2 & (c2 & -> & H2 & ->) & H3);
    apply in_lf_eq in H2; subst c2.
  - exists "", s2. split; [reflexivity|]. split; [now left|assumption].
  - apply in_cr_eq in Hc. subst ch. exists CR, s2. split; [reflexivity|]. split; [now right|assumption].
Qed.

Lemma M_eol_intro R e s' cs rest cs' :
  opt_cr e -> M R s' cs rest cs' -> M (eol_re R) (e ++ String "010" s') cs rest cs'.
Proof.
  intros [->| ->] HR.
  - exists (String "010" s'), cs. split; [split; [now left|reflexivity]|].
    exists s', cs. split; [exists "010"%char; auto|assumption].
  - exists (String "010" s'), cs. split; [split; [right; exists "013"%char; auto|reflexivity]|].
    exists s', cs. split; [exists "010"%char; auto|assumption].
Qed.

Lemma M_tok_elim R s cs rest cs' :
  M (RCat (RCap 1 (RPlus tok_cls)) R) s cs rest cs' ->
  exists t s', s = t ++ s' /\ all_in tok_cls t = true /\ M R s' ((1, t) :: cs) rest cs'.
Proof.
  intros (s1 & cs1 & (cs0 & (ch & x & -> & Hc & Hx & ->) & ->) & HR).
  exists (String ch x), s1. split; [reflexivity|]. split; [cbn [all_in]; now rewrite Hc, Hx|].
  change (String ch (x ++ s1)) with (String ch x ++ s1) in HR. now rewrite consumed_app in HR.
Qed.

Lemma M_tok_intro R t s' cs rest cs' :
  t <> "" -> all_in tok_cls t = true -> M R s' ((1, t) :: cs) rest cs' ->
  M (RCat (RCap 1 (RPlus tok_cls)) R) (t ++ s') cs rest cs'.
Proof.
  intros Hne Ht HR. destruct t as [|ch x]; [congruence|].
  cbn [all_in] in Ht. apply andb_true_iff in Ht. destruct Ht as [Hc Hx].
  exists s', ((1, String ch x) :: cs). split; [|assumption].
  exists cs. split; [exists ch, x; auto|].
  now rewrite consumed_app.
Qed.

Lemma M_last_elim s cs rest cs' :
  M last_re s cs rest cs' ->
  cs' = (2, consumed s rest) :: cs /\
  ((exists e, opt_cr e /\ s = e ++ String "010" rest) \/ (s = "" /\ rest = "")).
Proof.
  intros (cs1 & [H|H] & ->).
  - destruct H as (s1 & cs1' & ([->|(ch & -> & Hc)] & ->) & (c2 & -> & H2 & ->));
      apply in_lf_eq in H2; subst c2.
    + split; [reflexivity|]. left. exists "". split; [now left|reflexivity].
    + apply in_cr_eq in Hc. subst ch. split; [reflexivity|]. left. exists CR. split; [now right|reflexivity].
  - destruct H as (-> & -> & ->). split; [reflexivity|]. now right.
Qed.

Lemma M_last_intro e rest cs : opt_cr e -> exists cs', M last_re (e ++ String "010" rest) cs rest cs'.
Proof.
  intros He. eexists. exists cs. split; [|reflexivity]. left.
  destruct He as [->| ->].
  - exists (String "010" rest), cs. split; [split; [now left|reflexivity]|]. exists "010"%char. auto.
  - exists (String "010" rest), cs. split; [split; [right; exists "013"%char; auto|reflexivity]|].
    exists "010"%char. auto.
Qed.

(* ---------- one dashed block ---------- *)
Definition block_text (ws b1 e1 tok e2 b2 e3 tail : string) : string :=
  ws ++ "---" ++ b1 ++ "---" ++ e1 ++ String "010" (tok ++ e2 ++ String "010" ("---" ++ b2 ++ "---" ++ e3 ++ String "010" tail)).

Section Block.
Variables ws b1 e1 tok e2 b2 e3 tail : string.
Hypothesis Hws : all_in ws_cls ws = true.
Hypothesis Hb1 : all_in nolf_cls b1 = true.
Hypothesis Hb2 : all_in nolf_cls b2 = true.
Hypothesis He1 : opt_cr e1.
Hypothesis He2 : opt_cr e2.
Hypothesis He3 : opt_cr e3.
Hypothesis Htok : all_in tok_cls tok = true.
Hypothesis Hne : tok <> "".

Lemma block_exists : exists cs', M creds_re (block_text ws b1 e1 tok e2 b2 e3 tail) [] tail cs'.
Proof.
  rewrite creds_re_shape. unfold creds_shape, block_text.
  destruct (M_last_intro e3 tail [(1, tok)] He3) as [cs' HL].
  exists cs'. eexists; eexists. split; [exists ws; split; [reflexivity|auto]|].
  apply M_line_intro; [assumption|].
  apply M_eol_intro; [assumption|].
  apply M_tok_intro; [assumption|assumption|].
  apply M_eol_intro; [assumption|].
  apply M_line_intro; [assumption|]. exact HL.
Qed.

Lemma dashed_nolf b : all_in nolf_cls b = true -> all_in nolf_cls ("--" ++ b ++ "---") = true.
Proof. intros H. cbn [append all_in]. rewrite all_in_app, H. reflexivity. Qed.

Lemma block_unique rest cs' :
  M creds_re (block_text ws b1 e1 tok e2 b2 e3 tail) [] rest cs' -> rest = tail /\ cap 1 cs' = tok.
Proof.
  rewrite creds_re_shape. unfold creds_shape, block_text.
  intros (s1 & cs1 & (x & E0 & Hx & ->) & H).
  apply M_line_elim in H. destruct H as (p & s2 & -> & Hp & H).
  (* white space in front *)
  apply (span_unique ws_cls) in E0; [|assumption|assumption|reflexivity|reflexivity].
  destruct E0 as [_ E0]. simpl in E0. injection E0 as E0.
  apply M_eol_elim in H. destruct H as (e & s3 & -> & He & H).
  assert (E1 : ("--" ++ b1 ++ "---") ++ e1 ++ String "010" (tok ++ e2 ++ String "010" ("---" ++ b2 ++ "---" ++ e3 ++ String "010" tail))
               = p ++ e ++ String "010" s3).
  { rewrite <- E0. simpl. now rewrite !sapp_assoc. }
  clear E0. apply line_unique in E1; [|now apply dashed_nolf|assumption|assumption|assumption].
  subst s3.
  apply M_tok_elim in H. destruct H as (t & s4 & E2 & Ht & H).
  apply M_eol_elim in H. destruct H as (e' & s5 & -> & He' & H).
  apply (span_unique tok_cls) in E2; [|assumption|assumption| |].
  2:{ destruct He2 as [->| ->]; reflexivity. }
  2:{ destruct He' as [->| ->]; reflexivity. }
  destruct E2 as [<- E2].
  assert (E3 : "" ++ e2 ++ String "010" ("---" ++ b2 ++ "---" ++ e3 ++ String "010" tail) = "" ++ e' ++ String "010" s5)
    by exact E2.
  clear E2. apply line_unique in E3; [|reflexivity|reflexivity|assumption|assumption].
  subst s5.
  apply M_line_elim in H. destruct H as (p' & s6 & E4 & Hp' & H).
  apply M_last_elim in H. destruct H as [-> H]. split; [|reflexivity].
  destruct H as [(e'' & He'' & ->)|[-> ->]].
  - assert (E5 : ("---" ++ b2 ++ "---") ++ e3 ++ String "010" tail = String "-" p' ++ e'' ++ String "010" rest).
    { rewrite <- E4. simpl. now rewrite !sapp_assoc. }
    apply line_unique in E5; [auto| |simpl; now rewrite Hp'|assumption|assumption].
    change ("---" ++ b2 ++ "---") with (String "-" ("--" ++ b2 ++ "---")).
    cbn [all_in]. now rewrite dashed_nolf.
  - exfalso. rewrite sapp_nil_r in E4.
    assert (HA : all_in nolf_cls ("---" ++ b2 ++ "---" ++ e3 ++ String "010" tail) = true).
    { rewrite E4. simpl. now rewrite Hp'. }
    rewrite !all_in_app in HA. cbn [all_in] in HA. rewrite !andb_true_iff in HA.
    destruct HA as (_ & _ & _ & _ & HA & _). vm_compute in HA. discriminate.
Qed.

Lemma block_match_here :
  exists cs, match_here creds_re (block_text ws b1 e1 tok e2 b2 e3 tail) = Some (tail, cs) /\ cap 1 cs = tok.
Proof.
  destruct block_exists as [cs0 HM].
  destruct (m_complete _ _ _ _ _ _ (fun rest cs => Some (rest, cs)) _ HM eq_refl) as [[r c] Hx].
  destruct (m_sound _ _ _ _ _ _ Hx) as (rest & cs' & HM' & Hk).
  injection Hk as -> ->. destruct (block_unique _ _ HM') as [-> Hc].
  exists c. split; [exact Hx|exact Hc].
Qed.
End Block.

(* ---------- find_all without the fuel ---------- *)
Lemma find_all_fuel_irrel r : forall f1 f2 s,
  String.length s < f1 -> String.length s < f2 -> find_all_fuel f1 r s = find_all_fuel f2 r s.
Proof.
  induction f1 as [|f1 IH]; intros f2 s H1 H2; [lia|].
  destruct f2 as [|f2]; [lia|]. cbn [find_all_fuel].
  destruct (match_here r s) as [[rest cs]|].
  - destruct (Nat.ltb (String.length rest) (String.length s)) eqn:E.
    + apply Nat.ltb_lt in E. f_equal. apply IH; lia.
    + f_equal. destruct s as [|c t]; [reflexivity|]. simpl in H1, H2. apply IH; lia.
  - destruct s as [|c t]; [reflexivity|]. simpl in H1, H2. apply IH; lia.
Qed.

Lemma find_all_match r s rest cs :
  match_here r s = Some (rest, cs) -> String.length rest < String.length s ->
  find_all r s = cs :: find_all r rest.
Proof.
  intros H L. unfold find_all at 1. cbn [find_all_fuel]. rewrite H.
  apply Nat.ltb_lt in L. rewrite L. f_equal. apply Nat.ltb_lt in L.
  apply find_all_fuel_irrel; lia.
Qed.

Lemma find_all_skip r c t :
  match_here r (String c t) = None -> find_all r (String c t) = find_all r t.
Proof.
  intros H. unfold find_all at 1. cbn [find_all_fuel]. rewrite H.
  apply find_all_fuel_irrel; simpl; lia.
Qed.

Lemma find_all_nil r : match_here r "" = None -> find_all r "" = [].
Proof. intros H. unfold find_all. cbn [find_all_fuel String.length]. now rewrite H. Qed.

(* ---------- where the expression cannot match ---------- *)
(* a match starts, after white space, with a dash *)
Lemma match_here_starts s x :
  match_here creds_re s = Some x ->
  exists w s', s = w ++ String "-" s' /\ all_in ws_cls w = true.
Proof.
  unfold match_here. intros H. apply m_sound in H. destruct H as (rest & cs' & H & _).
  rewrite creds_re_shape in H. destruct H as (s1 & cs1 & (w & -> & Hw & ->) & H).
  apply M_line_elim in H. destruct H as (p & s2 & -> & _ & _).
  exists w, (p ++ s2). auto.
Qed.

(* a match needs a line feed *)
Lemma match_here_needs_lf s x :
  match_here creds_re s = Some x -> contains_char "010"%char s = true.
Proof.
  unfold match_here. intros H. apply m_sound in H. destruct H as (rest & cs' & H & _).
  rewrite creds_re_shape in H. destruct H as (s1 & cs1 & (w & -> & Hw & ->) & H).
  apply M_line_elim in H. destruct H as (p & s2 & -> & _ & H).
  apply M_eol_elim in H. destruct H as (e & s3 & -> & _ & _).
  assert (G : forall a b, contains_char "010"%char (a ++ String "010" b) = true).
  { induction a as [|ch a IH]; intros b; simpl; [reflexivity|]. rewrite IH. apply orb_true_r. }
  rewrite <- (sapp_assoc (String "-" p) e), <- sapp_assoc. apply G.
Qed.

Lemma no_match_nodash : forall j c t,
  contains_char "-"%char j = false -> in_cls ws_cls c = false -> c <> "-"%char ->
  match_here creds_re (j ++ String c t) = None.
Proof.
  intros j c t Hj Hc Hd. destruct (match_here creds_re (j ++ String c t)) as [x|] eqn:E; [|reflexivity].
  exfalso. apply match_here_starts in E. destruct E as (w & s' & E & Hw).
  revert w E Hw. induction j as [|a j IH]; intros w E Hw.
  - destruct w as [|b w]; simpl in E; injection E as -> _; [congruence|].
    cbn [all_in] in Hw. rewrite Hc in Hw. discriminate.
  - simpl in Hj. apply orb_false_iff in Hj. destruct Hj as [Ha Hj].
    destruct w as [|b w]; simpl in E; injection E as -> E.
    + vm_compute in Ha. discriminate.
    + cbn [all_in] in Hw. apply andb_true_iff in Hw. apply (IH Hj w E). tauto.
Qed.

Lemma no_match_nodash_all s : contains_char "-"%char s = false -> match_here creds_re s = None.
Proof.
  intros Hs. destruct (match_here creds_re s) as [x|] eqn:E; [|reflexivity].
  exfalso. apply match_here_starts in E. destruct E as (w & s' & -> & _).
  induction w as [|a w IH]; simpl in Hs.
  - discriminate.
  - apply orb_false_iff in Hs. tauto.
Qed.

Lemma find_all_nodash s : contains_char "-"%char s = false -> find_all creds_re s = [].
Proof.
  induction s as [|c t IH]; intros H.
  - apply find_all_nil. now apply no_match_nodash_all.
  - rewrite find_all_skip by now apply no_match_nodash_all.
    simpl in H. apply orb_false_iff in H. tauto.
Qed.

Lemma find_all_nolf s : contains_char "010"%char s = false -> find_all creds_re s = [].
Proof.
  assert (N : forall s, contains_char "010"%char s = false -> match_here creds_re s = None).
  { intros s0 H. destruct (match_here creds_re s0) eqn:E; [|reflexivity].
    apply match_here_needs_lf in E. congruence. }
  induction s as [|c t IH]; intros H.
  - apply find_all_nil. now apply N.
  - rewrite find_all_skip by now apply N.
    simpl in H. apply orb_false_iff in H. tauto.
Qed.

(* skipping text without dashes that ends in a character that is neither white space nor a dash *)
Lemma find_all_skip_junk : forall j c t,
  contains_char "-"%char j = false -> in_cls ws_cls c = false -> c <> "-"%char ->
  find_all creds_re (j ++ String c t) = find_all creds_re t.
Proof.
  induction j as [|a j IH]; intros c t Hj Hc Hd.
  - simpl. apply find_all_skip. now apply (no_match_nodash "").
  - change (String a j ++ String c t) with (String a (j ++ String c t)).
    rewrite find_all_skip by (now apply (no_match_nodash (String a j))).
    simpl in Hj. apply orb_false_iff in Hj. apply IH; tauto.
Qed.

Lemma bare_token : forall tok : string,
  contains_char "010"%char tok = false -> parse_decorated_jwt tok = tok.
Proof. intros tok H. unfold parse_decorated_jwt. now rewrite find_all_nolf. Qed.

#[local] Set Warnings "-unused-intro-pattern".
Lemma format_user_config_unfold kind tok seed :
  format_user_config kind tok seed =
  match kind with
  | Some k => if String.eqb k "user"
              then if has_prefix "SU" (trim_space seed)
                   then match decorate_seed seed with Some d => Some (format_jwt "user" tok ++ d) | None => None end
                   else None
              else None
  | None => None
  end.
Proof.
  destruct kind as [k|]; [|reflexivity].
  destruct (String.eqb k "user") eqn:E.
  - apply String.eqb_eq in E. subst k. reflexivity.
  - unfold format_user_config.
    repeat (destruct k as [|[[] [] [] [] [] [] [] []] k]; try reflexivity).
    simpl in E. discriminate.
Qed.

Lemma format_refusals : forall kind tok seed,
  (kind <> Some "user" -> format_user_config kind tok seed = None) /\
  (has_prefix "SU" (trim_space seed) = false -> format_user_config kind tok seed = None).
Proof.
  intros kind tok seed. rewrite format_user_config_unfold. split.
  - intros H. destruct kind as [k|]; [|reflexivity].
    destruct (String.eqb k "user") eqn:E; [|reflexivity].
    apply String.eqb_eq in E. subst k. congruence.
  - intros H. rewrite H. destruct kind as [k|]; [|reflexivity].
    destruct (String.eqb k "user"); reflexivity.
Qed.

(* ---------- LF / CRLF rendering ---------- *)
Lemma crlf_app a b : crlf (a ++ b) = crlf a ++ crlf b.
Proof.
  induction a as [|c a IH]; [reflexivity|]. cbn [append crlf].
  destruct (Ascii.eqb c "010"); rewrite IH; reflexivity.
Qed.
Lemma crlf_nolf x : contains_char "010"%char x = false -> crlf x = x.
Proof.
  induction x as [|c x IH]; [reflexivity|]. cbn [contains_char crlf]. intros H.
  apply orb_false_iff in H. destruct H as [H1 H2]. rewrite H1, IH; auto.
Qed.
Lemma contains_char_app c a b : contains_char c (a ++ b) = contains_char c a || contains_char c b.
Proof. induction a as [|ch a IH]; [reflexivity|]. cbn [append contains_char]. now rewrite IH, orb_assoc. Qed.

Lemma tok_no_lf t : all_in tok_cls t = true -> contains_char "010"%char t = false.
Proof.
  intros H. apply (all_in_mono tok_cls nolf_cls tok_in_nolf) in H.
  rewrite all_in_nolf in H. now apply negb_true_iff in H.
Qed.
Lemma to_upper_no_lf k : contains_char "010"%char (to_upper k) = contains_char "010"%char k.
Proof. induction k as [|c k IH]; [reflexivity|]. cbn [to_upper smap contains_char]. fold (to_upper k). now rewrite IH, upper_lf. Qed.

Definition eol_of (use_crlf : bool) : string := if use_crlf then CR else "".
Lemma eol_of_opt b : opt_cr (eol_of b).
Proof. destruct b; [now right|now left]. Qed.

(* format_jwt with the given line ending (e = "" for LF, CR for CRLF), upper-cased kind U *)
Definition fmt_jwt (e U tok : string) : string :=
  "-----BEGIN NATS " ++ U ++ " JWT-----" ++ e ++ nl ++ tok ++ e ++ nl ++
  "------END NATS " ++ U ++ " JWT------" ++ e ++ nl ++ e ++ nl.

Ltac sapp_norm := unfold nl, CR; repeat first [rewrite !sapp_assoc | progress (cbn [append])].

Lemma render_format_jwt b kind tok :
  contains_char "010"%char kind = false -> contains_char "010"%char tok = false ->
  render b (format_jwt kind tok) = fmt_jwt (eol_of b) (to_upper kind) tok.
Proof.
  intros Hk Ht. rewrite <- to_upper_no_lf in Hk.
  unfold format_jwt, fmt_jwt. destruct b; cbn [render eol_of]; [|reflexivity].
  rewrite !crlf_app, !(crlf_nolf _ Hk), !(crlf_nolf _ Ht).
  reflexivity.
Qed.

Lemma fmt_jwt_block ws e U tok tail :
  ws ++ fmt_jwt e U tok ++ tail =
  block_text ws ("--BEGIN NATS " ++ U ++ " JWT--") e tok e ("---END NATS " ++ U ++ " JWT---") e (e ++ nl ++ tail).
Proof. unfold fmt_jwt, block_text. sapp_norm. reflexivity. Qed.

Lemma block_length ws b1 e1 tok e2 b2 e3 tail :
  String.length tail < String.length (block_text ws b1 e1 tok e2 b2 e3 tail).
Proof.
  unfold block_text. repeat first [rewrite slength_app | progress (cbn [String.length append])]. lia.
Qed.

Lemma find_all_block ws b1 e1 tok e2 b2 e3 tail :
  all_in ws_cls ws = true -> all_in nolf_cls b1 = true -> all_in nolf_cls b2 = true ->
  opt_cr e1 -> opt_cr e2 -> opt_cr e3 -> all_in tok_cls tok = true -> tok <> "" ->
  exists cs, find_all creds_re (block_text ws b1 e1 tok e2 b2 e3 tail) = cs :: find_all creds_re tail
             /\ cap 1 cs = tok.
Proof.
  intros H1 H2 H3 H4 H5 H6 H7 H8.
  destruct (block_match_here ws b1 e1 tok e2 b2 e3 tail H1 H2 H3 H4 H5 H6 H7 H8) as (cs & H & C).
  exists cs. split; [|exact C]. apply find_all_match; [exact H|apply block_length].
Qed.

Lemma nolf_wrap a U z :
  all_in nolf_cls a = true -> all_in nolf_cls z = true -> contains_char "010"%char U = false ->
  all_in nolf_cls (a ++ U ++ z) = true.
Proof.
  intros Ha Hz HU. rewrite !all_in_app, Ha, Hz, all_in_nolf, HU. reflexivity.
Qed.

Lemma decorate_roundtrip : forall (kind tok : string) (use_crlf : bool),
  tok <> "" -> all_in tok_cls tok = true -> contains_char "010"%char kind = false ->
  parse_decorated_jwt (render use_crlf (format_jwt kind tok)) = tok.
Proof.
  intros kind tok b Hne Ht Hk.
  rewrite render_format_jwt by (auto using tok_no_lf).
  assert (E : fmt_jwt (eol_of b) (to_upper kind) tok =
              block_text "" ("--BEGIN NATS " ++ to_upper kind ++ " JWT--") (eol_of b) tok (eol_of b)
                ("---END NATS " ++ to_upper kind ++ " JWT---") (eol_of b) (eol_of b ++ nl ++ "")).
  { rewrite <- fmt_jwt_block. cbn [append]. symmetry. apply sapp_nil_r. }
  rewrite E. clear E.
  assert (HU : contains_char "010"%char (to_upper kind) = false) by now rewrite to_upper_no_lf.
  destruct (find_all_block "" ("--BEGIN NATS " ++ to_upper kind ++ " JWT--") (eol_of b) tok (eol_of b)
              ("---END NATS " ++ to_upper kind ++ " JWT---") (eol_of b) (eol_of b ++ nl ++ ""))
    as (cs & H & C); auto using eol_of_opt.
  - apply nolf_wrap; auto.
  - apply nolf_wrap; auto.
  - unfold parse_decorated_jwt. rewrite H. exact C.
Qed.

(* ---------- the decorated seed ---------- *)
Definition banner1 : string := "************************* IMPORTANT *************************".
Definition banner2 : string := "NKEY Seed printed below can be used to sign and prove identity.".
Definition banner3 : string := "NKEYs are sensitive and should be treated as secrets.".
Definition banner3' : string := "NKEYs are sensitive and should be treated as secrets".
Definition stars : string := "*************************************************************".

Definition dseed (e K ts : string) : string :=
  banner1 ++ e ++ nl ++ banner2 ++ e ++ nl ++ banner3 ++ e ++ nl ++ e ++ nl ++
  "-----BEGIN " ++ K ++ " NKEY SEED-----" ++ e ++ nl ++ ts ++ e ++ nl ++
  "------END " ++ K ++ " NKEY SEED------" ++ e ++ nl ++ e ++ nl ++ stars ++ e ++ nl.

Lemma render_app b x y : render b (x ++ y) = render b x ++ render b y.
Proof. destruct b; [apply crlf_app|reflexivity]. Qed.

Lemma render_dseed b K ts :
  contains_char "010"%char K = false -> contains_char "010"%char ts = false ->
  render b (dseed "" K ts) = dseed (eol_of b) K ts.
Proof.
  intros HK Ht. unfold dseed. destruct b; cbn [render eol_of]; [|reflexivity].
  rewrite !crlf_app, !(crlf_nolf _ HK), !(crlf_nolf _ Ht). reflexivity.
Qed.

Lemma dseed_split pre e K ts :
  pre ++ dseed e K ts =
  (pre ++ banner1 ++ e ++ nl ++ banner2 ++ e ++ nl ++ banner3') ++
  String "." (block_text (e ++ nl ++ e ++ nl) ("--BEGIN " ++ K ++ " NKEY SEED--") e ts e
                ("---END " ++ K ++ " NKEY SEED---") e (e ++ nl ++ stars ++ e ++ nl)).
Proof.
  unfold dseed, block_text, banner1, banner2, banner3, banner3', stars. sapp_norm. reflexivity.
Qed.

Lemma find_all_dseed pre e K ts :
  opt_cr e -> contains_char "-"%char pre = false -> contains_char "010"%char K = false ->
  all_in tok_cls ts = true -> ts <> "" ->
  exists cs, find_all creds_re (pre ++ dseed e K ts) = [cs] /\ cap 1 cs = ts.
Proof.
  intros He Hpre HK Ht Hne. rewrite dseed_split.
  rewrite find_all_skip_junk; [| |reflexivity|discriminate].
  2:{ rewrite contains_char_app, Hpre. destruct He as [->| ->]; reflexivity. }
  destruct (find_all_block (e ++ nl ++ e ++ nl) ("--BEGIN " ++ K ++ " NKEY SEED--") e ts e
              ("---END " ++ K ++ " NKEY SEED---") e (e ++ nl ++ stars ++ e ++ nl))
    as (cs & H & C); auto.
  - destruct He as [->| ->]; reflexivity.
  - apply nolf_wrap; auto.
  - apply nolf_wrap; auto.
  - exists cs. split; [|exact C]. rewrite H. f_equal. apply find_all_nodash.
    destruct He as [->| ->]; reflexivity.
Qed.

Lemma seed_kind_SU r : seed_kind ("SU" ++ r) = Some "USER".
Proof. destruct r; reflexivity. Qed.
Lemma seed_kind_SA r : seed_kind ("SA" ++ r) = Some "ACCOUNT".
Proof. destruct r; reflexivity. Qed.
Lemma seed_kind_SO r : seed_kind ("SO" ++ r) = Some "OPERATOR".
Proof. destruct r; reflexivity. Qed.

Lemma decorate_seed_dseed seed K :
  seed_kind (trim_space seed) = Some K -> decorate_seed seed = Some (dseed "" K (trim_space seed)).
Proof. intros H. unfold decorate_seed. cbv zeta. rewrite H. reflexivity. Qed.

Lemma user_config_roundtrip : forall (tok seed ws creds : string) (use_crlf : bool),
  tok <> "" -> all_in tok_cls tok = true ->
  all_in tok_cls (trim_space seed) = true ->
  all_in ws_cls ws = true ->
  format_user_config (Some "user") tok seed = Some creds ->
  parse_decorated_jwt (ws ++ render use_crlf creds) = tok /\
  parse_decorated_seed (ws ++ render use_crlf creds) = Some (trim_space seed) /\
  parse_decorated_user_seed (ws ++ render use_crlf creds) = Some (trim_space seed).
Proof.
  intros tok seed ws creds b Hne Ht Hs Hws HF.
  rewrite format_user_config_unfold in HF. cbn [String.eqb Ascii.eqb Bool.eqb] in HF.
  destruct (has_prefix "SU" (trim_space seed)) eqn:HP; [|discriminate].
  pose proof HP as HP'. apply has_prefix_spec in HP'. destruct HP' as [r Er].
  assert (HK : seed_kind (trim_space seed) = Some "USER") by (rewrite Er; apply seed_kind_SU).
  rewrite (decorate_seed_dseed _ _ HK) in HF.
  assert (EC : creds = format_jwt "user" tok ++ dseed "" "USER" (trim_space seed)) by congruence.
  subst creds. clear HF.
  set (ts := trim_space seed) in *. set (e := eol_of b).
  assert (He : opt_cr e) by apply eol_of_opt.
  assert (Hts : ts <> "") by (rewrite Er; discriminate).
  rewrite render_app, render_format_jwt, render_dseed by (auto using tok_no_lf).
  fold e. change (to_upper "user") with "USER".
  rewrite fmt_jwt_block.
  destruct (find_all_block ws ("--BEGIN NATS " ++ "USER" ++ " JWT--") e tok e
              ("---END NATS " ++ "USER" ++ " JWT---") e (e ++ nl ++ dseed e "USER" ts))
    as (cs1 & H1 & C1); auto; try reflexivity.
  rewrite <- (sapp_assoc e nl (dseed e "USER" ts)) in H1.
  destruct (find_all_dseed (e ++ nl) e "USER" ts) as (cs2 & H2 & C2); auto.
  { unfold e. destruct b; reflexivity. }
  rewrite H2 in H1. rewrite <- (sapp_assoc e nl (dseed e "USER" ts)).
  assert (PS : parse_decorated_seed
                 (block_text ws ("--BEGIN NATS " ++ "USER" ++ " JWT--") e tok e
                    ("---END NATS " ++ "USER" ++ " JWT---") e ((e ++ nl) ++ dseed e "USER" ts)) = Some ts).
  { unfold parse_decorated_seed. rewrite H1, C2. unfold seed_prefixed. rewrite HP.
    now rewrite orb_true_r. }
  split; [|split].
  - unfold parse_decorated_jwt. rewrite H1. exact C1.
  - exact PS.
  - unfold parse_decorated_user_seed. rewrite PS, HP. reflexivity.
Qed.

(* ---------- the seed alone: the line scan ---------- *)
Lemma drop_while_tok s : all_in tok_cls s = true -> drop_while is_space s = s.
Proof.
  destruct s as [|c s]; [reflexivity|]. cbn [all_in drop_while]. intros H.
  apply andb_true_iff in H. destruct H as [H _]. now rewrite (tok_not_space _ H).
Qed.
Lemma srev_cons c s : srev (String c s) = srev s ++ String c "".
Proof. change (String c s) with (String c "" ++ s). now rewrite srev_app. Qed.
Lemma all_in_srev c s : all_in c (srev s) = all_in c s.
Proof.
  induction s as [|ch s IH]; [reflexivity|].
  rewrite srev_cons, all_in_app, IH. cbn [all_in]. now rewrite andb_true_r, andb_comm.
Qed.
Lemma trim_space_tok s : all_in tok_cls s = true -> trim_space s = s.
Proof.
  intros H. unfold trim_space. rewrite (drop_while_tok s H).
  rewrite drop_while_tok by now rewrite all_in_srev. apply srev_involutive.
Qed.

Lemma dseed_lines K ts :
  dseed "" K ts =
  banner1 ++ String lf (banner2 ++ String lf (banner3 ++ String lf ("" ++ String lf
  (("-----BEGIN " ++ K ++ " NKEY SEED-----") ++ String lf (ts ++ String lf
  (("------END " ++ K ++ " NKEY SEED------") ++ String lf ("" ++ String lf (stars ++ String lf "")))))))).
Proof.
  unfold dseed, lf, banner1, banner2, banner3, stars. sapp_norm. reflexivity.
Qed.

Lemma find_cons_false {A} (P : A -> bool) x l : P x = false -> find P (x :: l) = find P l.
Proof. intros H. simpl. now rewrite H. Qed.
Lemma find_cons_true {A} (P : A -> bool) x l : P x = true -> find P (x :: l) = Some x.
Proof. intros H. simpl. now rewrite H. Qed.

Lemma seed_line_scan K ts :
  K = "OPERATOR" \/ K = "ACCOUNT" ->
  all_in tok_cls ts = true -> seed_prefixed ts = true ->
  find (fun line => seed_prefixed (trim_space line)) (split lf (dseed "" K ts)) = Some ts.
Proof.
  intros HK Ht Hp. rewrite dseed_lines.
  assert (Hf : sep_free lf ts = true) by (unfold sep_free, lf; now rewrite tok_no_lf).
  destruct HK as [->| ->].
  - rewrite !split_app_sep by (reflexivity || exact Hf).
    rewrite !find_cons_false by reflexivity.
    apply find_cons_true. now rewrite trim_space_tok.
  - rewrite !split_app_sep by (reflexivity || exact Hf).
    rewrite !find_cons_false by reflexivity.
    apply find_cons_true. now rewrite trim_space_tok.
Qed.

Lemma user_parser_refuses : forall (seed d : string),
  all_in tok_cls (trim_space seed) = true ->
  (has_prefix "SO" (trim_space seed) = true \/ has_prefix "SA" (trim_space seed) = true) ->
  decorate_seed seed = Some d ->
  parse_decorated_seed d = Some (trim_space seed) /\ parse_decorated_user_seed d = None.
Proof.
  intros seed d Hs HP HD.
  set (ts := trim_space seed) in *.
  assert (G : exists K, (K = "OPERATOR" \/ K = "ACCOUNT") /\ seed_kind ts = Some K /\
                        seed_prefixed ts = true /\ has_prefix "SU" ts = false /\ ts <> "").
  { destruct HP as [HP|HP]; pose proof HP as HP'; apply has_prefix_spec in HP'; destruct HP' as [r Er].
    - exists "OPERATOR". split; [now left|]. unfold seed_prefixed. rewrite HP. rewrite Er.
      split; [apply seed_kind_SO|]. split; [reflexivity|]. split; [reflexivity|discriminate].
    - exists "ACCOUNT". split; [now right|]. unfold seed_prefixed. rewrite HP. rewrite Er.
      split; [apply seed_kind_SA|]. split; [reflexivity|]. split; [reflexivity|discriminate]. }
  destruct G as (K & HK & Hk & Hpre & Hsu & Hne).
  unfold ts in Hk. rewrite (decorate_seed_dseed _ _ Hk) in HD. fold ts in HD.
  assert (Ed : d = dseed "" K ts) by congruence. subst d. clear HD.
  assert (HKlf : contains_char "010"%char K = false) by (destruct HK as [->| ->]; reflexivity).
  destruct (find_all_dseed "" "" K ts) as (cs & H & C); auto; [now left|].
  cbn [append] in H.
  assert (PS : parse_decorated_seed (dseed "" K ts) = Some ts).
  { unfold parse_decorated_seed. rewrite H. rewrite seed_line_scan by assumption. now rewrite Hpre. }
  split; [exact PS|]. unfold parse_decorated_user_seed. now rewrite PS, Hsu.
Qed.
