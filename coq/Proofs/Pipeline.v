(* Proofs/Pipeline.v — Encode followed by Decode inside the model: the proofs of
   the lemmas closed by Properties/C03_pipeline.v. *)
From JWT Require Import Proofs.SubDecode Base.Codec Base.B64 Model.Claims Model.Decode Model.Encode Model.Pipeline
                        Proofs.Codec Proofs.Claims Proofs.Decode Proofs.Encode Proofs.V1Codec.
Open Scope string_scope.
Open Scope Z_scope.

(* ====================================================================== *)
(* the envelope                                                            *)
(* ====================================================================== *)
Lemma b64enc_sep_free s : sep_free dot (b64enc s) = true.
Proof. unfold sep_free, dot. now rewrite (proj1 (b64enc_no_dot_no_pad s)). Qed.

Lemma token_of_text jprint sign payload :
  token_of jprint sign payload =
  b64enc (jprint header_json) ++
  String dot (b64enc (jprint payload) ++
              String dot (b64enc (sign (b64enc (jprint header_json) ++ "." ++ b64enc (jprint payload))))).
Proof. unfold token_of. cbv zeta. rewrite sapp_assoc. reflexivity. Qed.

Lemma token_of_split jprint sign payload :
  split dot (token_of jprint sign payload) =
  [b64enc (jprint header_json); b64enc (jprint payload);
   b64enc (sign (b64enc (jprint header_json) ++ "." ++ b64enc (jprint payload)))].
Proof.
  rewrite token_of_text.
  rewrite split_app_sep by apply b64enc_sep_free.
  rewrite split_app_sep by apply b64enc_sep_free.
  rewrite split_sep_free by apply b64enc_sep_free. reflexivity.
Qed.

Lemma encode_envelope : forall (jprint : json -> string) (sign : string -> string) (payload : json),
  let h := b64enc (jprint header_json) in
  let p := b64enc (jprint payload) in
  split dot (token_of jprint sign payload) = [h; p; b64enc (sign (h ++ "." ++ p))] /\
  Forall (fun seg => forallb_string is_b64url_char seg = true) (split dot (token_of jprint sign payload)) /\
  b64dec h = Some (jprint header_json) /\ b64dec p = Some (jprint payload) /\
  header_json = JObj [("typ", JStr "JWT"); ("alg", JStr "ed25519-nkey")].
Proof.
  intros jprint sign payload h p. subst h p.
  split; [apply token_of_split|].
  split; [rewrite token_of_split; repeat constructor; apply b64enc_alphabet|].
  split; [apply b64dec_enc|]. split; [apply b64dec_enc | reflexivity].
Qed.

(* ====================================================================== *)
(* setp / getp and typing                                                  *)
(* ====================================================================== *)
Lemma has_type_fields_set_nth fs : forall vs i n o ft y,
  has_type_fields fs vs = true -> nth_error fs i = Some (n, o, ft) -> has_type ft y = true ->
  has_type_fields fs (set_nth_val i y vs) = true.
Proof.
  induction fs as [| [[n0 o0] ft0] fr IH]; intros [| fv0 vr] [|i] n o ft y H Hf Hy;
    simpl in H, Hf; try discriminate.
  - injection Hf as -> -> ->. apply andb_true_iff in H as [_ H2]. simpl. now rewrite Hy, H2.
  - apply andb_true_iff in H as [H1 H2]. simpl. rewrite H1. simpl. eapply IH; eassumption.
Qed.

Lemma set_path_typed : forall fuel t path x v ft,
  has_type t v = true -> get_path_ty fuel t path = Some ft -> has_type ft x = true ->
  has_type t (set_path fuel t path x v) = true.
Proof.
  induction fuel as [| fuel IH]; intros t [| name rest] x v ft Hv Hp Hx; simpl in Hp.
  - injection Hp as <-. exact Hx.
  - discriminate Hp.
  - injection Hp as <-. exact Hx.
  - rewrite set_path_step. destruct t; try discriminate Hp.
    destruct v as [| | | | | | vs |]; try discriminate Hv. simpl as_struct. cbv iota.
    destruct (field_index_exact name fs 0) as [i|]; [|exact Hv].
    destruct (nth_error fs i) as [[[n o] ft']|] eqn:Ef; [|discriminate Hp].
    destruct (nth_error vs i) as [fv|] eqn:Ev; [|exact Hv].
    rewrite has_type_struct in Hv |- *.
    eapply has_type_fields_set_nth; [exact Hv | exact Ef |].
    eapply IH; [|exact Hp | exact Hx].
    eapply (proj2 (has_type_fields_nth fs vs Hv)); eassumption.
Qed.

Lemma get_path_typed : forall fuel t path v x ft,
  has_type t v = true -> get_path fuel t path v = Some x -> get_path_ty fuel t path = Some ft ->
  has_type ft x = true.
Proof.
  induction fuel as [| fuel IH]; intros t [| name rest] v x ft Hv Hg Hp; simpl in Hp.
  - injection Hp as <-. simpl in Hg. now injection Hg as <-.
  - discriminate Hp.
  - injection Hp as <-. simpl in Hg. now injection Hg as <-.
  - rewrite get_path_step in Hg. destruct t; try discriminate Hp.
    destruct v as [| | | | | | vs |]; try discriminate Hv. simpl as_struct in Hg. cbv iota in Hg.
    destruct (field_index_exact name fs 0) as [i|]; [|discriminate Hg].
    destruct (nth_error fs i) as [[[n o] ft']|] eqn:Ef; [|discriminate Hp].
    destruct (nth_error vs i) as [fv|] eqn:Ev; [|discriminate Hg].
    rewrite has_type_struct in Hv.
    eapply IH; [|exact Hg | exact Hp].
    eapply (proj2 (has_type_fields_nth fs vs Hv)); eassumption.
Qed.

Lemma setp_typed t path x v ft :
  has_type t v = true -> getp_ty t path = Some ft -> has_type ft x = true ->
  has_type t (setp t path x v) = true.
Proof. apply set_path_typed. Qed.

Lemma getp_typed t path v x ft :
  has_type t v = true -> getp t path v = Some x -> getp_ty t path = Some ft -> has_type ft x = true.
Proof. apply get_path_typed. Qed.

(* sorting a list of entries keeps its type *)
Lemma sort_entries_typed et t l :
  has_type (TList t) l = true -> has_type (TList t) (sort_entries et l) = true.
Proof.
  destruct l as [| | | [l|] | | | |]; intros Hl; try exact Hl.
  simpl in Hl |- *. apply forallb_forall. intros x Hx.
  rewrite forallb_forall in Hl. apply Hl.
  eapply Permutation_in; [apply Permutation_sym, (sort_entries_perm et l) | exact Hx].
Qed.

Lemma sort_field_typed k path v t :
  has_type (schema_of k) v = true -> getp_ty (schema_of k) path = Some (TList t) ->
  has_type (schema_of k) (sort_field k path v) = true.
Proof.
  intros Hv Hp. unfold sort_field.
  destruct (getp (schema_of k) path v) as [l|] eqn:Eg; [|exact Hv].
  eapply setp_typed; [exact Hv | exact Hp |].
  apply sort_entries_typed. eapply getp_typed; eassumption.
Qed.

Section StampTyped.
  Variable H : string -> string.
  Variable jprint : json -> string.

  Lemma pre_encode_typed k v :
    k <> KGeneric -> has_type (schema_of k) v = true -> has_type (schema_of k) (pre_encode k v) = true.
  Proof.
    intros Hk Hv. destruct k; try (now elim Hk); unfold pre_encode;
      try (eapply setp_typed; [exact Hv | vm_compute; reflexivity | reflexivity]).
    change sch_account with (schema_of KAccount).
    eapply setp_typed; [| vm_compute; reflexivity | reflexivity].
    eapply sort_field_typed; [| vm_compute; reflexivity].
    eapply sort_field_typed; [exact Hv | vm_compute; reflexivity].
  Qed.

  Lemma std_tys k :
    getp_ty (schema_of k) ["iss"] = Some TStr /\ getp_ty (schema_of k) ["jti"] = Some TStr /\
    exists lo hi, getp_ty (schema_of k) ["iat"] = Some (TInt lo hi) /\ (lo <=? 0) = true /\ (9223372036854775807 <=? hi) = true.
  Proof. destruct k; (split; [vm_compute; reflexivity|]); (split; [vm_compute; reflexivity|]);
         eexists; eexists; (split; [vm_compute; reflexivity|]); split; vm_compute; reflexivity. Qed.

  Lemma nats_tys k : k <> KGeneric ->
    getp_ty (schema_of k) ["nats"; "type"] = Some TStr /\
    exists lo hi, getp_ty (schema_of k) ["nats"; "version"] = Some (TInt lo hi) /\ (lo <=? 2) = true /\ (2 <=? hi) = true.
  Proof. intros Hk. destruct k; try (now elim Hk); (split; [vm_compute; reflexivity|]);
         eexists; eexists; (split; [vm_compute; reflexivity|]); split; vm_compute; reflexivity. Qed.

  Lemma update_version_typed k w :
    k <> KGeneric -> has_type (schema_of k) w = true -> has_type (schema_of k) (update_version k w) = true.
  Proof.
    intros Hk Hw. destruct (nats_tys k Hk) as [_ [lo [hi [Hp [H1 H2]]]]].
    assert (E : update_version k w = setp (schema_of k) ["nats"; "version"] (VInt lib_version) w)
      by (destruct k; try (now elim Hk); reflexivity).
    rewrite E. apply (setp_typed (schema_of k) ["nats"; "version"] (VInt lib_version) w (TInt lo hi) Hw Hp).
    change (has_type (TInt lo hi) (VInt lib_version)) with ((lo <=? lib_version) && (lib_version <=? hi)).
    change lib_version with 2. now rewrite H1, H2.
  Qed.

  Lemma stamp_typed k issuer now v v' :
    k <> KGeneric -> (0 <= now <= 9223372036854775807) ->
    has_type (schema_of k) v = true -> stamp H jprint k issuer now v = Some v' ->
    has_type (schema_of k) v' = true.
  Proof.
    intros Hk Hnow Hv Hs. unfold stamp in Hs.
    match type of Hs with context [enc sch_claims_data ?c] =>
      destruct (enc sch_claims_data c) as [jj|]; [|discriminate Hs] end.
    injection Hs as <-.
    destruct (std_tys k) as [Hiss [Hjti [lo [hi [Hiat [H1 H2]]]]]].
    apply update_version_typed; [exact Hk|].
    apply (setp_typed (schema_of k) ["jti"] _ _ TStr); [|exact Hjti | reflexivity].
    apply (setp_typed (schema_of k) ["jti"] _ _ TStr); [|exact Hjti | reflexivity].
    apply (setp_typed (schema_of k) ["iat"] _ _ (TInt lo hi)); [|exact Hiat |].
    - apply (setp_typed (schema_of k) ["iss"] _ _ TStr); [|exact Hiss | reflexivity].
      now apply pre_encode_typed.
    - change (has_type (TInt lo hi) (VInt now)) with ((lo <=? now) && (now <=? hi)).
      apply andb_true_iff. apply Z.leb_le in H1, H2. split; apply Z.leb_le; lia.
  Qed.
End StampTyped.

(* ====================================================================== *)
(* reading paths out of a sub-tree decode                                  *)
(* ====================================================================== *)
Definition scalar (t : ty) : Prop := t = TStr \/ exists lo hi, t = TInt lo hi.

Lemma agree_get_path : forall fuel s t p w v x st,
  agree s t w v -> get_path_ty fuel s p = Some st -> scalar st ->
  get_path fuel t p v = Some x -> get_path fuel s p w = Some x.
Proof.
  induction fuel as [| fuel IH]; intros s t [| n rest] w v x st Ha Hp Hsc Hg; simpl in Hp.
  - injection Hp as <-. simpl in Hg |- *. injection Hg as <-.
    destruct Hsc as [-> | [lo [hi ->]]]; simpl in Ha; now subst.
  - discriminate Hp.
  - injection Hp as <-. simpl in Hg |- *. injection Hg as <-.
    destruct Hsc as [-> | [lo [hi ->]]]; simpl in Ha; now subst.
  - destruct s as [| | | | | | fs | | | | | |]; try discriminate Hp.
    rewrite get_path_step in Hg.
    destruct t as [| | | | | | ft | | | | | |]; try discriminate Hg.
    destruct v as [| | | | | | vs |]; try discriminate Hg. simpl as_struct in Hg. cbv iota in Hg.
    destruct w as [| | | | | | ws |]; try (simpl in Ha; contradiction).
    rewrite agree_struct in Ha.
    destruct (field_index_exact n fs 0) as [i|] eqn:Ei; [|discriminate Hp].
    destruct (nth_error fs i) as [[[n' o'] st']|] eqn:Ef; [|discriminate Hp].
    destruct (field_index_exact_some fs 0 n i Ei) as [_ [o2 [st2 Hf2]]]. rewrite Nat.sub_0_r in Hf2.
    assert (E : Some (n', o', st') = Some (n, o2, st2)) by (exact (eq_trans (eq_sym Ef) Hf2)).
    injection E as En Eo Est. subst n' o2 st2.
    destruct (field_index_exact n ft 0) as [k|] eqn:Ek; [|discriminate Hg].
    destruct (nth_error ft k) as [[[nk ok] tk]|] eqn:Etk; [|discriminate Hg].
    destruct (nth_error vs k) as [vk|] eqn:Evk; [|discriminate Hg].
    destruct (agree_fields_nth ft vs fs ws i n o' st' Ha Ef) as [wi [Hwi Hfa]].
    unfold field_agree, tfield, tval in Hfa. unfold field in *. rewrite Ek, Etk, Evk in Hfa. simpl in Hfa.
    rewrite get_path_step. simpl as_struct. cbv iota. rewrite Ei, Ef, Hwi.
    eapply IH; eassumption.
Qed.

(* a top-level field the writer does not have reads as zero *)
Lemma agree_absent : forall fs ft w v n i o st,
  agree (TStruct fs) (TStruct ft) w v -> field_index_exact n fs 0 = Some i ->
  nth_error fs i = Some (n, o, st) -> field_index_exact n ft 0 = None ->
  getp (TStruct fs) [n] w = Some (zero_val st).
Proof.
  intros fs ft w v n i o st Ha Ei Ef Et.
  destruct w as [| | | | | | ws |]; try (simpl in Ha; contradiction).
  destruct v as [| | | | | | vs |]; try (simpl in Ha; contradiction).
  rewrite agree_struct in Ha.
  destruct (agree_fields_nth ft vs fs ws i n o st Ha Ef) as [wi [Hwi Hfa]].
  unfold field_agree, tfield in Hfa. unfold field in *. rewrite Et in Hfa. subst wi.
  unfold getp. rewrite get_path_step. simpl as_struct. cbv iota. rewrite Ei, Ef, Hwi. reflexivity.
Qed.

(* ====================================================================== *)
(* Encode followed by Decode                                               *)
(* ====================================================================== *)
Lemma ident_sub k : k <> KGeneric -> sub_ok sch_identifier (schema_of k) = true.
Proof. intros Hk. destruct k; try (now elim Hk); vm_compute; reflexivity. Qed.
Lemma cd_sub k : sub_ok sch_claims_data (schema_of k) = true.
Proof. destruct k; vm_compute; reflexivity. Qed.
Lemma schema_of_wf k : wf_ty (schema_of k) = true.
Proof. destruct k; vm_compute; reflexivity. Qed.

Lemma load_claims_own k um :
  k <> KGeneric -> um k 2 = true ->
  load_claims {| id_top_type := ""; id_nats_type := kind_name k; id_nats_version := 2 |} um = Some (k, 2).
Proof.
  intros Hk Hu. destruct k; try (now elim Hk); unfold load_claims, typed_loader; cbn; rewrite Hu; reflexivity.
Qed.

Section Main.
  Variable jparse : string -> option json.
  Variable jprint : json -> string.
  Hypothesis Hjp : forall j, jparse (jprint j) = Some j.

  Lemma parse_header_own : p_parse_header jparse (jprint header_json) = Some (token_type_jwt, alg_new).
  Proof. unfold p_parse_header. rewrite Hjp. vm_compute. reflexivity. Qed.

  (* the identifier read from the payload of a stamped typed claim *)
  Lemma parse_ident_own k v' j :
    k <> KGeneric -> has_type (schema_of k) v' = true -> enc (schema_of k) v' = Some j ->
    getp (schema_of k) ["nats"; "type"] v' = Some (VStr (kind_name k)) ->
    getp (schema_of k) ["nats"; "version"] v' = Some (VInt 2) ->
    p_parse_ident jparse (jprint j) =
      Some {| id_top_type := ""; id_nats_type := kind_name k; id_nats_version := 2 |}.
  Proof.
    intros Hk Hv He Gt Gv. unfold p_parse_ident. rewrite Hjp.
    destruct (sub_decode sch_identifier (schema_of k) v' j (ident_sub k Hk) (schema_of_wf k) Hv He) as [w [Hd Ha]].
    rewrite Hd. f_equal.
    assert (E1 : get_str sch_identifier ["type"] w = "").
    { unfold get_str.
      assert (X : exists ft, schema_of k = TStruct ft /\ field_index_exact "type" ft 0 = None)
        by (destruct k; try (now elim Hk); eexists; (split; [reflexivity | vm_compute; reflexivity])).
      destruct X as [ft [Es Et]]. rewrite Es in Ha.
      change sch_identifier with (TStruct [("type", true, TStr);
                                           ("nats", true, TStruct [("tags", true, TList TStr); ("type", true, TStr);
                                              ("version", true, TInt (-9223372036854775808) 9223372036854775807)])]) in Ha |- *.
      now rewrite (agree_absent _ ft w v' "type" 0%nat true TStr Ha eq_refl eq_refl Et). }
    assert (E2 : get_str sch_identifier ["nats"; "type"] w = kind_name k).
    { unfold get_str, getp.
      rewrite (agree_get_path 8 sch_identifier (schema_of k) ["nats"; "type"] w v' (VStr (kind_name k)) TStr Ha);
        [reflexivity | vm_compute; reflexivity | left; reflexivity | exact Gt]. }
    assert (E3 : get_int sch_identifier ["nats"; "version"] w = 2).
    { unfold get_int, getp.
      rewrite (agree_get_path 8 sch_identifier (schema_of k) ["nats"; "version"] w v' (VInt 2)
                 (TInt (-9223372036854775808) 9223372036854775807) Ha);
        [reflexivity | vm_compute; reflexivity | right; eauto | exact Gv]. }
    now rewrite E1, E2, E3.
  Qed.

  Lemma issuer_own k v' j issuer :
    has_type (schema_of k) v' = true -> enc (schema_of k) v' = Some j ->
    getp (schema_of k) ["iss"] v' = Some (VStr issuer) ->
    p_issuer_of jparse (jprint j) = issuer.
  Proof.
    intros Hv He Gi. unfold p_issuer_of. rewrite Hjp.
    destruct (sub_decode sch_claims_data (schema_of k) v' j (cd_sub k) (schema_of_wf k) Hv He) as [w [Hd Ha]].
    rewrite Hd. unfold get_str, getp.
    rewrite (agree_get_path 8 sch_claims_data (schema_of k) ["iss"] w v' (VStr issuer) TStr Ha);
      [reflexivity | vm_compute; reflexivity | left; reflexivity | exact Gi].
  Qed.

  Variable H : string -> string.
  Variable sign : string -> string.
  Variable verify : string -> string -> string -> bool.
  Variable role_of : string -> role.

  Theorem encode_decode : forall (k : ckind) (issuer : string) (now : Z) (v v' : val) (tok : string),
    (forall text, verify issuer text (sign text) = true) ->
    k <> KGeneric -> 0 <= now <= 9223372036854775807 ->
    has_type (schema_of k) v = true ->
    encode H jprint sign k true issuer now v = Some (v', tok) ->
    scopes_ok (schema_of k) v' = true -> k1_guard k v' = true ->
    decode_role_ok (expected_prefixes k) (role_of issuer) = true ->
    exists a d,
      p_decode jparse verify role_of tok = Some a /\
      a_kind a = k /\ a_iss a = issuer /\ a_layout a = LV2 /\ a_version a = 2 /\
      decode_typed b64dec (p_parse_header jparse) (p_parse_ident jparse) (p_unmarshal_ok jparse)
                   (p_issuer_of jparse) verify role_of k tok = Some a /\
      (exists c1, nth_error (split dot tok) 1 = Some c1 /\
                  exists data, b64dec c1 = Some data /\ p_loaded jparse data k 2 = Some d) /\
      canon d = canon v'.
  Proof.
    intros k issuer now v v' tok Hver Hk Hnow Hv He Hsc Hg Hrole.
    unfold encode in He. cbn [negb] in He. cbv iota in He.
    destruct (stamp H jprint k issuer now v) as [sv|] eqn:Es; [|discriminate He].
    destruct (enc (schema_of k) sv) as [j|] eqn:Ej; [|discriminate He].
    injection He as <- <-.
    pose proof (stamp_typed H jprint k issuer now v sv Hk Hnow Hv Es) as Hsv.
    destruct (stamp_fields H jprint k issuer now v sv Hv Es) as [Giss [_ [Gn _]]].
    destruct (Gn Hk) as [Gt Gv].
    destruct (claims_roundtrip k sv j Hsv Hsc Hg Ej) as [d [Hd Hc]].
    set (h := b64enc (jprint header_json)). set (p := b64enc (jprint j)).
    set (sg := b64enc (sign (h ++ "." ++ p))).
    assert (Hsplit : split dot (token_of jprint sign j) = [h; p; sg]) by apply token_of_split.
    assert (Eload : load_val k 2 j = Some d).
    { unfold load_val. destruct k; try (now elim Hk); exact Hd. }
    assert (Eum : p_unmarshal_ok jparse (jprint j) k 2 = true).
    { unfold p_unmarshal_ok. rewrite Hjp.
      replace (match k with KOperator | KAccount | KUser | KActivation => 2 | _ => 2 end) with 2
        by (destruct k; reflexivity).
      now rewrite Eload. }
    assert (Edec : p_decode jparse verify role_of (token_of jprint sign j) =
                   Some {| a_kind := k; a_iss := issuer; a_version := 2; a_declared := kind_name k;
                           a_typ := token_type_jwt; a_alg := alg_new; a_layout := LV2 |}).
    { unfold p_decode, decode. rewrite Hsplit.
      unfold h at 1. rewrite b64dec_enc, parse_header_own.
      replace (header_valid token_type_jwt alg_new) with true by (vm_compute; reflexivity). cbn [negb]. cbv iota.
      unfold p at 1. rewrite b64dec_enc.
      rewrite (parse_ident_own k sv j Hk Hsv Ej Gt Gv).
      rewrite (load_claims_own k (p_unmarshal_ok jparse (jprint j)) Hk Eum).
      unfold sg at 1. rewrite b64dec_enc.
      replace (ckind_eqb k KGeneric) with false by (destruct k; try reflexivity; now elim Hk).
      cbv zeta. replace (2 <=? 1) with false by reflexivity. cbv iota.
      rewrite (issuer_own k sv j issuer Hsv Ej Giss).
      rewrite (protected_text LV2 (token_of jprint sign j) h p sg Hsplit). cbn [text_of].
      rewrite Hver. cbn [negb]. cbv iota. rewrite Hrole.
      reflexivity. }
    eexists. exists d. split; [exact Edec|]. cbn [a_kind a_iss a_layout a_version].
    repeat split.
    - unfold decode_typed. fold (p_decode jparse verify role_of (token_of jprint sign j)). rewrite Edec.
      cbn [a_kind]. replace (ckind_eqb k k) with true by (destruct k; reflexivity). reflexivity.
    - exists p. rewrite Hsplit. split; [reflexivity|]. exists (jprint j). split; [apply b64dec_enc|].
      unfold p_loaded. now rewrite Hjp.
    - exact Hc.
  Qed.
End Main.

(* ====================================================================== *)
(* K4: generic data that uses the names the kind/version probe reads       *)
(* ====================================================================== *)
Definition k4_claims : val :=
  setp sch_generic ["nats"] (VMap (Some [("tags", VAny (Some (JStr "x"))); ("version", VAny (Some (JInt 2)))]))
       (zero_val sch_generic).
Lemma k4_refuted : exists (v : val) (j : json),
  has_type sch_generic v = true /\ enc sch_generic v = Some j /\
  (exists d, load_v2 KGeneric j = Some d /\ canon d = canon v) /\
  forall (jparse : string -> option json) (s : string), jparse s = Some j -> p_parse_ident jparse s = None.
Proof.
  exists k4_claims. eexists. split; [vm_compute; reflexivity|]. split; [vm_compute; reflexivity|].
  split; [eexists; split; vm_compute; reflexivity|].
  intros jparse s Hs. unfold p_parse_ident. rewrite Hs. vm_compute. reflexivity.
Qed.

(* K5: the same probe against a version-1 generic token whose free-form data holds an application's own "version"
   that is not an integer: the version-1 schema reads the payload, the version-2 decoder's probe does not *)
Definition k5_payload : json :=
  JObj [("iss", JStr "I"); ("sub", JStr "s"); ("type", JStr "generic"); ("nats", JObj [("version", JStr "1.4.2"); ("k", JStr "v")])].
Lemma k5_refuted :
  (exists d, dec sch1_generic k5_payload (zero_val sch1_generic) = Some d) /\
  forall (jparse : string -> option json) (s : string), jparse s = Some k5_payload -> p_parse_ident jparse s = None.
Proof.
  split; [eexists; vm_compute; reflexivity|].
  intros jparse s Hs. unfold p_parse_ident. rewrite Hs. vm_compute. reflexivity.
Qed.

(* ====================================================================== *)
(* generic claims: Encode then Decode, given that the kind/version probe    *)
(* reads the payload (the condition K4 is about)                           *)
(* ====================================================================== *)
Section MainGeneric.
  Variable jparse : string -> option json.
  Variable jprint : json -> string.
  Hypothesis Hjp : forall j, jparse (jprint j) = Some j.
  Variable H : string -> string.
  Variable sign : string -> string.
  Variable verify : string -> string -> string -> bool.
  Variable role_of : string -> role.

  Lemma load_claims_generic i um :
    (lib_version <? id_version i) = false ->
    (forall k, k <> KGeneric -> id_kind i <> kind_name k) ->
    id_kind i <> "cluster" -> id_kind i <> "server" -> um KGeneric (id_version i) = true ->
    load_claims i um = Some (KGeneric, -1).
  Proof.
    intros Hv Hk Hc Hs Hu. unfold load_claims. cbv zeta. rewrite Hv.
    rewrite (proj2 (String.eqb_neq _ _) (Hk KOperator ltac:(discriminate))).
    rewrite (proj2 (String.eqb_neq _ _) (Hk KAccount ltac:(discriminate))).
    rewrite (proj2 (String.eqb_neq _ _) (Hk KUser ltac:(discriminate))).
    rewrite (proj2 (String.eqb_neq _ _) (Hk KActivation ltac:(discriminate))).
    rewrite (proj2 (String.eqb_neq _ _) (Hk KAuthRequest ltac:(discriminate))).
    rewrite (proj2 (String.eqb_neq _ _) (Hk KAuthResponse ltac:(discriminate))).
    rewrite (proj2 (String.eqb_neq _ _) Hc), (proj2 (String.eqb_neq _ _) Hs), Hu. reflexivity.
  Qed.

  Theorem generic_encode_decode : forall (issuer : string) (now : Z) (v v' : val) (tok : string) (j : json) (i : ident),
    (forall text, verify issuer text (sign text) = true) ->
    has_type sch_generic v' = true ->
    encode H jprint sign KGeneric true issuer now v = Some (v', tok) ->
    enc sch_generic v' = Some j ->
    getp sch_generic ["iss"] v' = Some (VStr issuer) -> issuer <> "" ->
    (* the probe reads the payload, and what it reads names no kind with a loader of its own, no retired kind,
       and no version newer than the library's *)
    p_parse_ident jparse (jprint j) = Some i ->
    (lib_version <? id_version i) = false ->
    (forall k, k <> KGeneric -> id_kind i <> kind_name k) -> id_kind i <> "cluster" -> id_kind i <> "server" ->
    exists a d,
      p_decode jparse verify role_of tok = Some a /\
      a_kind a = KGeneric /\ a_iss a = issuer /\ a_layout a = LV2 /\
      p_loaded jparse (jprint j) KGeneric 2 = Some d /\ canon d = canon v'.
  Proof.
    intros issuer now v v' tok j i Hver Hty He Hj Giss Hiss Hid Hv Hk Hc Hs.
    unfold encode in He. cbn [negb] in He. cbv iota in He.
    destruct (stamp H jprint KGeneric issuer now v) as [sv|] eqn:Es; [|discriminate He].
    destruct (enc (schema_of KGeneric) sv) as [j'|] eqn:Ej; [|discriminate He].
    injection He as -> <-. change (schema_of KGeneric) with sch_generic in Ej. rewrite Hj in Ej. injection Ej as <-.
    assert (Hsc : scopes_ok (schema_of KGeneric) v' = true) by (apply no_keyset_scopes_ok; vm_compute; reflexivity).
    destruct (claims_roundtrip KGeneric v' j Hty Hsc eq_refl Hj) as [d [Hd Hcn]].
    set (h := b64enc (jprint header_json)). set (p := b64enc (jprint j)).
    set (sg := b64enc (sign (h ++ "." ++ p))).
    assert (Hsplit : split dot (token_of jprint sign j) = [h; p; sg]) by apply token_of_split.
    assert (Eum : forall ver, p_unmarshal_ok jparse (jprint j) KGeneric ver = true).
    { intros ver. unfold p_unmarshal_ok. rewrite Hjp. unfold load_val. now rewrite Hd. }
    destruct (sub_decode sch_claims_data sch_generic v' j (cd_sub KGeneric) (schema_of_wf KGeneric) Hty Hj) as [wc [Hdc Hac]].
    assert (Eiss : p_issuer_of jparse (jprint j) = issuer).
    { unfold p_issuer_of. rewrite Hjp, Hdc. unfold get_str, getp.
      rewrite (agree_get_path 8 sch_claims_data sch_generic ["iss"] wc v' (VStr issuer) TStr Hac);
        [reflexivity | vm_compute; reflexivity | left; reflexivity | exact Giss]. }
    exists {| a_kind := KGeneric; a_iss := issuer; a_version := id_version i; a_declared := id_kind i;
              a_typ := token_type_jwt; a_alg := alg_new; a_layout := LV2 |}, d.
    split; [|cbn [a_kind a_iss a_layout]; repeat split; try assumption; unfold p_loaded, load_val; now rewrite Hjp].
    unfold p_decode, decode. rewrite Hsplit.
    unfold h at 1. rewrite b64dec_enc, (parse_header_own jparse jprint Hjp).
    replace (header_valid token_type_jwt alg_new) with true by (vm_compute; reflexivity). cbn [negb]. cbv iota.
    unfold p at 1. rewrite b64dec_enc, Hid.
    rewrite (load_claims_generic i (p_unmarshal_ok jparse (jprint j)) Hv Hk Hc Hs (Eum _)).
    unfold sg at 1. rewrite b64dec_enc.
    cbn [ckind_eqb]. cbv zeta.
    replace ((alg_new =? alg_old)%string) with false by reflexivity. cbv iota.
    replace (lib_version <=? 1) with false by reflexivity. cbv iota.
    rewrite Eiss, (protected_text LV2 (token_of jprint sign j) h p sg Hsplit). cbn [text_of].
    rewrite Hver. cbn [negb]. cbv iota. reflexivity.
  Qed.
End MainGeneric.
