(* Proofs/PipelineV1Self.v — C19 at token level: what the bundled version-1 encoder writes goes through
   the bundled version-1 decoder (Model/V1.v) with its JSON-level steps DEFINED from the codec on the
   v1compat schemas generated from the code. *)
From JWT Require Import Base.Codec Base.B64 Model.Claims Model.V1 Model.Pipeline
                        Proofs.Codec Proofs.SubDecode Proofs.Claims Proofs.V1Codec Proofs.Pipeline
                        Proofs.CrossDecode Proofs.PipelineV1.
Open Scope string_scope.
Open Scope Z_scope.

Definition sch1v (k : v1kind) : ty :=
  match k with
  | V1Operator => sch1_operator | V1Account => sch1_account | V1User => sch1_user
  | V1Activation => sch1_activation | V1Cluster => sch1_cluster | V1Server => sch1_server
  | V1Generic => sch1_generic
  end.
Lemma sch1v_in k : In (sch1v k) v1_schemas.
Proof. destruct k; simpl; tauto. Qed.

Section V1Oracles.
  Variable jparse : string -> option json.
  (* json.Unmarshal(payload, target) for a target of kind k *)
  Definition v1p_unmarshal_ok (k : v1kind) (s : string) : bool :=
    match jparse s with
    | Some j => match dec (sch1v k) j (zero_val (sch1v k)) with Some _ => true | None => false end
    | None => false
    end.
  Definition v1p_issuer_of (s : string) : string :=
    match jparse s with
    | Some j => match dec sch1_claims_data j (zero_val sch1_claims_data) with
                | Some v => get_str sch1_claims_data ["iss"] v
                | None => ""
                end
    | None => ""
    end.
End V1Oracles.

Lemma v1_small k :
  rd sch1_claims_data (sch1v k) = true /\ getp_ty sch1_claims_data ["iss"] = Some TStr /\
  wty 8 (sch1v k) ["iss"] = Some (Some (true, TStr)) /\
  wf_ty (sch1v k) = true /\ enums_ok (sch1v k) = true /\ keyset_kind_ok (sch1v k) = true.
Proof. destruct k; repeat split; vm_compute; reflexivity. Qed.

Section V1Self.
  Variable jparse : string -> option json.
  Variable jprint : json -> string.
  Hypothesis Hjp : forall j, jparse (jprint j) = Some j.
  Variable sign : string -> string.
  Variable verify : string -> string -> string -> bool.
  Variable role_of : string -> role.

  Theorem v1_self_accepts : forall k c1 j issuer,
    has_type (sch1v k) c1 = true ->
    getp (sch1v k) ["iss"] c1 = Some (VStr issuer) -> issuer <> "" ->
    enc (sch1v k) c1 = Some j ->
    (forall text, verify issuer text (sign text) = true) ->
    v1_role_ok (v1_expected_prefixes k) (role_of issuer) = true ->
    exists a d,
      v1_decode b64dec (p_parse_header jparse) (v1p_unmarshal_ok jparse) (v1p_issuer_of jparse) verify role_of
                k (v1_token_of jprint sign j) = Some a /\
      v1a_iss a = issuer /\
      dec (sch1v k) j (zero_val (sch1v k)) = Some d /\ canon d = canon c1.
  Proof.
    intros k c1 j issuer Ht Giss Hiss He Hver Hrole.
    destruct (v1_small k) as (Hr & Hp & Hw & Hwf & Hen & Hks).
    assert (Hsc : scopes_ok (sch1v k) c1 = true).
    { apply no_keyset_scopes_ok. exact (proj1 (forallb_forall _ _) v1_no_keyset _ (sch1v_in k)). }
    pose proof (W_intro _ _ Hwf Hen Hks Ht Hsc) as HW.
    destruct (v1_roundtrip (sch1v k) c1 j (sch1v_in k) Ht He) as [d [Hd Hc]].
    destruct (cross_decode sch1_claims_data (sch1v k) (zero_val sch1_claims_data) c1 j Hr (pre_ok_zero _) HW He)
      as [wc [Hdc Hac]].
    pose proof (cross_top_str _ _ wc c1 "iss" issuer Hac Hp Hw Ht Giss Hiss) as Eiss.
    set (h := b64enc (jprint v1_header_json)). set (p := b64enc (jprint j)). set (sg := b64enc (sign p)).
    assert (Hsplit : split dot (v1_token_of jprint sign j) = [h; p; sg]) by apply v1_token_split.
    exists {| v1a_iss := issuer; v1a_typ := v1_token_type_jwt; v1a_alg := v1_alg |}, d.
    split; [|repeat split; assumption].
    unfold v1_decode. rewrite Hsplit.
    unfold h at 1. rewrite b64dec_enc, (parse_header_v1 jparse jprint Hjp).
    replace (v1_header_valid v1_token_type_jwt v1_alg) with true by (vm_compute; reflexivity). cbn [negb]. cbv iota.
    unfold p at 1. rewrite b64dec_enc.
    unfold v1p_unmarshal_ok. rewrite Hjp, Hd. cbn [negb]. cbv iota.
    unfold sg at 1. rewrite b64dec_enc. cbv zeta.
    unfold v1p_issuer_of. rewrite Hjp, Hdc, Eiss.
    unfold sg. rewrite Hver. cbn [negb]. cbv iota. rewrite Hrole. reflexivity.
  Qed.
End V1Self.
