(* Proofs/SrcEncode.v — ClaimsData.doEncode as translated from the Go source on this run (Gen/SrcEncode.v):
   what a successful Encode did, in order, and what the token is.  The receiver, the header, the key pair and the
   claims are abstract values; assigning their fields and calling their methods for effect is recorded in a log, and
   every observation that is a call (hash, serialize, PublicKey, Sign, ExpectedPrefixes) is a function of the log so far. *)
From JWT Require Import Base.GoSem Proofs.SrcBase Gen.SrcEncode.
Open Scope string_scope.
Open Scope list_scope.

Section DoEncode.
  Variable subject : string.
  Variable hash : list go_event -> string * option string.
  Variable prefixes : list go_event -> list Z.
  Variable b64 : list go_event -> string -> string.
  Variables isA isC isO isS isU : string -> bool.
  Variable now : Z.
  Variable same : list go_event -> bool.
  Variable ser_claim ser_header : list go_event -> string * option string.
  Variable alg : string.
  Variable hnil : bool.
  Variable pubkey : list go_event -> string * option string.
  Variable sign : list go_event -> string -> string * option string.
  Variable knil : bool.

  Definition run := V2.ClaimsData_doEncode subject hash prefixes b64 isA isC isO isS isU now same ser_claim ser_header alg hnil pubkey sign knil.

  (* the five roles the encode-side switch knows *)
  Definition erole (pub : string) (p : Z) : bool :=
    ((p =? 0)%Z && isA pub) || ((p =? 112)%Z && isO pub) || ((p =? 104)%Z && isS pub) || ((p =? 16)%Z && isC pub) || ((p =? 160)%Z && isU pub).

  Definition ebody (pub : string) (_ : Z) (p : Z) (ok : bool) : ctl bool (list go_event * (string * option string)) :=
    Cont (if (p =? 0)%Z then (if isA pub then true else ok)
          else if (p =? 112)%Z then (if isO pub then true else ok)
          else if (p =? 104)%Z then (if isS pub then true else ok)
          else if (p =? 16)%Z then (if isC pub then true else ok)
          else if (p =? 160)%Z then (if isU pub then true else ok) else ok).
  Lemma eloop pub : forall (l : list Z) (i : Z) (ok : bool),
    go_range (ebody pub) i l ok = inl (ok || existsb (erole pub) l).
  Proof.
    induction l as [|p l IH]; intros i ok; [cbn; now rewrite orb_false_r|].
    cbn [go_range existsb]. unfold ebody at 1. rewrite IH. f_equal. unfold erole.
    destruct (p =? 0)%Z eqn:E0; [apply Z.eqb_eq in E0; subst p; cbn; destruct (isA pub), ok; cbn; reflexivity|].
    destruct (p =? 112)%Z eqn:E1; [apply Z.eqb_eq in E1; subst p; cbn; destruct (isO pub), ok; cbn; reflexivity|].
    destruct (p =? 104)%Z eqn:E2; [apply Z.eqb_eq in E2; subst p; cbn; destruct (isS pub), ok; cbn; reflexivity|].
    destruct (p =? 16)%Z eqn:E3; [apply Z.eqb_eq in E3; subst p; cbn; destruct (isC pub), ok; cbn; reflexivity|].
    destruct (p =? 160)%Z eqn:E4; [apply Z.eqb_eq in E4; subst p; cbn; destruct (isU pub), ok; cbn; reflexivity|].
    cbn. reflexivity.
  Qed.

  Definition stamped (pub : string) : list go_event := [GoSetS "c_Issuer" pub; GoSetZ "c_IssuedAt" now; GoSetS "c_ID" ""].
  Definition finished (pub id : string) : list go_event := stamped pub ++ [GoSetS "c_ID" id; GoDo "claim.updateVersion"].

  (* success, fully: the guards, the role rule, the stamps in order, the version update before the payload is written,
     the signature over header-dot-payload, the three-segment token *)
  Theorem src_do_encode_spec :
    snd (snd run) = None <->
    hnil = false /\ knil = false /\ same [] = true /\ subject <> "" /\
    exists h pub id payload sig,
      ser_header [] = (h, None) /\ pubkey [] = (pub, None) /\
      (go_lnil (prefixes []) = true \/ existsb (erole pub) (prefixes []) = true) /\
      hash (stamped pub) = (id, None) /\
      ser_claim (finished pub id) = (payload, None) /\
      alg = "ed25519-nkey" /\
      sign (finished pub id) (h ++ "." ++ payload)%string = (sig, None) /\
      run = (finished pub id, ((h ++ "." ++ payload ++ "." ++ b64 (finished pub id) sig)%string, None)).
  Proof.
    unfold run, V2.ClaimsData_doEncode. cbv zeta.
    destruct hnil; [cbn; split; [intros Hd; discriminate Hd|intros [H _]; discriminate]|].
    destruct knil; [cbn; split; [intros Hd; discriminate Hd|intros [_ [H _]]; discriminate]|].
    destruct (same []); cbn [negb]; [|cbn; split; [intros Hd; discriminate Hd|intros [_ [_ [H _]]]; discriminate]].
    destruct (subject =? "") eqn:Es; [cbn; split; [intros Hd; discriminate Hd|intros [_ [_ [_ [H _]]]]; apply String.eqb_eq in Es; congruence]|].
    assert (Hs : subject <> "") by (intros ->; discriminate).
    destruct (ser_header []) as [h eh] eqn:Hh. destruct eh as [x|]; cbn [go_err_isnil negb];
      [cbn; split; [intros Hd; discriminate Hd|intros [_ [_ [_ [_ [h' [pub [id [pl [sg [H _]]]]]]]]]]; congruence]|].
    destruct (pubkey []) as [pub ep] eqn:Hp. destruct ep as [x|]; cbn [go_err_isnil negb];
      [cbn; split; [intros Hd; discriminate Hd|intros [_ [_ [_ [_ [h' [pub' [id [pl [sg [_ [H _]]]]]]]]]]]; congruence]|].
    (* the rest, once the role rule has passed (it occurs twice: no role list, or a role matched) *)
    assert (Htail : forall (Hrole : go_lnil (prefixes []) = true \/ existsb (erole pub) (prefixes []) = true) (T : list go_event * (string * option string)),
      T = (let go_log := [] in
           let go_log := go_log ++ [GoSetS "c_Issuer" pub] in
           let go_log := go_log ++ [GoSetZ "c_IssuedAt" now] in
           let go_log := go_log ++ [GoSetS "c_ID" ""] in
           let '(go_tmp0, err) := hash go_log in
           let go_log := go_log ++ [GoSetS "c_ID" go_tmp0] in
           if negb (go_err_isnil err) then (go_log, ("", err))
           else let go_log := go_log ++ [GoDo "claim.updateVersion"] in
                let '(payload, err) := ser_claim go_log in
                if negb (go_err_isnil err) then (go_log, ("", err))
                else let toSign := ("" ++ h ++ "." ++ payload ++ "")%string in
                     if (alg =? "ed25519")%string then (go_log, ("", Some "ed25519 not supported to write jwtV2"))
                     else if (alg =? "ed25519-nkey")%string
                          then let '(sig, err_1) := sign go_log toSign in
                               if negb (go_err_isnil err_1) then (go_log, ("", err_1))
                               else (go_log, (("" ++ toSign ++ "." ++ b64 go_log sig ++ "")%string, None))
                          else (go_log, ("", Some "error"))) ->
      (snd (snd T) = None <->
       false = false /\ false = false /\ true = true /\ subject <> "" /\
       exists h' pub' id payload sig,
         (h, @None string) = (h', None) /\ (pub, @None string) = (pub', None) /\
         (go_lnil (prefixes []) = true \/ existsb (erole pub') (prefixes []) = true) /\
         hash (stamped pub') = (id, None) /\ ser_claim (finished pub' id) = (payload, None) /\ alg = "ed25519-nkey" /\
         sign (finished pub' id) (h' ++ "." ++ payload)%string = (sig, None) /\
         T = (finished pub' id, ((h' ++ "." ++ payload ++ "." ++ b64 (finished pub' id) sig)%string, None)))).
    { intros Hrole T ->. cbv zeta. cbn [app]. change ([GoSetS "c_Issuer" pub; GoSetZ "c_IssuedAt" now; GoSetS "c_ID" ""]) with (stamped pub).
      destruct (hash (stamped pub)) as [id ei] eqn:Hi. destruct ei as [x|]; cbn [go_err_isnil negb].
      { cbn [snd fst]. split; [intros Hd; discriminate Hd|]. intros (_ & _ & _ & _ & h' & pub' & id' & pl & sg & E1 & E2 & Hr & H1 & H2 & H3 & H4 & H5).
        inversion E2; subst pub'. rewrite Hi in H1. discriminate H1. }
      change [GoSetS "c_Issuer" pub; GoSetZ "c_IssuedAt" now; GoSetS "c_ID" ""; GoSetS "c_ID" id; GoDo "claim.updateVersion"] with (finished pub id).
      destruct (ser_claim (finished pub id)) as [payload epl] eqn:Hpl. destruct epl as [x|]; cbn [go_err_isnil negb].
      { cbn [snd fst]. split; [intros Hd; discriminate Hd|]. intros (_ & _ & _ & _ & h' & pub' & id' & pl & sg & E1 & E2 & Hr & H1 & H2 & H3 & H4 & H5).
        inversion E2; subst pub'. rewrite Hi in H1. inversion H1; subst id'. rewrite Hpl in H2. discriminate H2. }
      destruct (alg =? "ed25519") eqn:Ea.
      { cbn [snd fst]. split; [intros Hd; discriminate Hd|]. intros (_ & _ & _ & _ & h' & pub' & id' & pl & sg & E1 & E2 & Hr & H1 & H2 & H3 & H4 & H5).
        apply String.eqb_eq in Ea. congruence. }
      destruct (alg =? "ed25519-nkey") eqn:Eb.
      2:{ cbn [snd fst]. split; [intros Hd; discriminate Hd|]. intros (_ & _ & _ & _ & h' & pub' & id' & pl & sg & E1 & E2 & Hr & H1 & H2 & H3 & H4 & H5).
          subst alg. rewrite String.eqb_refl in Eb. discriminate Eb. }
      apply String.eqb_eq in Eb.
      cbn [String.append]. rewrite !sapp_nil_r.
      destruct (sign (finished pub id) _) as [sg es] eqn:Hsg. destruct es as [x|]; cbn [go_err_isnil negb].
      { cbn [snd fst]. split; [intros Hd; discriminate Hd|]. intros (_ & _ & _ & _ & h' & pub' & id' & pl & sg' & E1 & E2 & Hr & H1 & H2 & H3 & H4 & H5).
        inversion E1; inversion E2; subst h' pub'. rewrite Hi in H1. inversion H1; subst id'. rewrite Hpl in H2. inversion H2; subst pl. cbn [String.append] in H4. rewrite Hsg in H4. discriminate H4. }
      cbn [snd]. split; [intros _|reflexivity].
      repeat split; try exact Hs. exists h, pub, id, payload, sg. repeat split; try assumption.
      f_equal. f_equal. rewrite sapp_nil_r, sapp_assoc. cbn [String.append]. reflexivity. }
    cbv zeta.
    destruct (go_lnil (prefixes [])) eqn:Hn; cbn [negb].
    - apply (Htail (or_introl eq_refl)). reflexivity.
    - change (go_range _ 0%Z (prefixes []) false) with (go_range (ebody pub) 0%Z (prefixes []) false).
      rewrite eloop. cbn [orb]. destruct (existsb (erole pub) (prefixes [])) eqn:He; cbn [negb].
      + apply (Htail (or_intror eq_refl)). reflexivity.
      + cbn. split; [intros Hd; discriminate Hd|].
        intros (_ & _ & _ & _ & h' & pub' & id & pl & sg & E1 & E2 & [Hl|Hr] & _); inversion E2; subst pub'; congruence.
  Qed.

  (* the converse with nothing assumed about the result: when every step succeeds, this is what is returned *)
  Lemma src_do_encode_complete h pub id payload sg :
    hnil = false -> knil = false -> same [] = true -> subject <> "" ->
    ser_header [] = (h, None) -> pubkey [] = (pub, None) ->
    (go_lnil (prefixes []) = true \/ existsb (erole pub) (prefixes []) = true) ->
    hash (stamped pub) = (id, None) -> ser_claim (finished pub id) = (payload, None) ->
    alg = "ed25519-nkey" -> sign (finished pub id) (h ++ "." ++ payload)%string = (sg, None) ->
    run = (finished pub id, ((h ++ "." ++ payload ++ "." ++ b64 (finished pub id) sg)%string, None)).
  Proof.
    intros Hhn Hkn Hsame Hs Hh Hp Hrole Hi Hpl Halg Hsg.
    unfold run, V2.ClaimsData_doEncode. cbv zeta. rewrite Hhn, Hkn, Hsame. cbn [negb].
    destruct (subject =? "") eqn:Es; [apply String.eqb_eq in Es; contradiction|].
    rewrite Hh. cbn [go_err_isnil negb]. rewrite Hp. cbn [go_err_isnil negb].
    destruct (go_lnil (prefixes [])) eqn:Hn; cbn [negb];
    [| change (go_range _ 0%Z (prefixes []) false) with (go_range (ebody pub) 0%Z (prefixes []) false);
       rewrite eloop; cbn [orb]; destruct Hrole as [Hl|Hr]; [congruence|]; rewrite Hr; cbn [negb] ];
    (cbv beta zeta; cbn [app]; change ([GoSetS "c_Issuer" pub; GoSetZ "c_IssuedAt" now; GoSetS "c_ID" ""]) with (stamped pub);
      rewrite Hi; cbn [go_err_isnil negb];
      change [GoSetS "c_Issuer" pub; GoSetZ "c_IssuedAt" now; GoSetS "c_ID" ""; GoSetS "c_ID" id; GoDo "claim.updateVersion"] with (finished pub id);
      rewrite Hpl; cbn [go_err_isnil negb]; subst alg; cbn [String.eqb Ascii.eqb Bool.eqb andb];
      cbn [String.append] in Hsg |- *; rewrite !sapp_nil_r; rewrite Hsg; cbn [go_err_isnil negb];
      f_equal; f_equal; rewrite ?sapp_nil_r, sapp_assoc; cbn [String.append]; reflexivity).
  Qed.

  (* a failed Encode returns the empty token *)
  Lemma src_do_encode_fail_empty : snd (snd run) <> None -> fst (snd run) = "".
  Proof.
    unfold run, V2.ClaimsData_doEncode. cbv zeta.
    destruct hnil; [reflexivity|]. destruct knil; [reflexivity|]. destruct (same []); cbn [negb]; [|reflexivity].
    destruct (subject =? ""); [reflexivity|].
    destruct (ser_header []) as [h [x|]]; cbn [go_err_isnil negb]; [reflexivity|].
    destruct (pubkey []) as [pub [x|]]; cbn [go_err_isnil negb]; [reflexivity|].
    destruct (go_lnil (prefixes [])); cbn [negb];
    [| change (go_range _ 0%Z (prefixes []) false) with (go_range (ebody pub) 0%Z (prefixes []) false);
       rewrite eloop; cbn [orb]; destruct (existsb (erole pub) (prefixes [])); cbn [negb]; [|reflexivity] ];
    (cbv beta zeta;
     repeat match goal with
     | |- context [let '(_, _) := ?e in _] => destruct e as [? [?|]]; cbn [go_err_isnil negb]
     | |- context [if ?c then _ else _] => destruct c
     end; cbn [snd fst]; first [reflexivity | intros Hx; exfalso; apply Hx; reflexivity]).
  Qed.

  (* corollaries read off the characterisation *)
  Lemma src_do_encode_role : snd (snd run) = None ->
    exists pub, pubkey [] = (pub, None) /\ (go_lnil (prefixes []) = true \/ existsb (erole pub) (prefixes []) = true).
  Proof.
    intros Hok. apply src_do_encode_spec in Hok.
    destruct Hok as (_ & _ & _ & _ & h & pub & id & payload & sg & _ & Hp & Hrole & _). exists pub. split; assumption.
  Qed.
  Lemma src_do_encode_shape : snd (snd run) = None ->
    alg = "ed25519-nkey" /\
    exists h payload sg log, ser_header [] = (h, None) /\ ser_claim log = (payload, None) /\
      sign log (h ++ "." ++ payload)%string = (sg, None) /\
      fst (snd run) = (h ++ "." ++ payload ++ "." ++ b64 log sg)%string.
  Proof.
    intros Hok. apply src_do_encode_spec in Hok.
    destruct Hok as (_ & _ & _ & _ & h & pub & id & payload & sg & Hh & _ & _ & _ & Hpl & Halg & Hsg & Hrun).
    split; [exact Halg|]. exists h, payload, sg, (finished pub id). rewrite Hrun. repeat split; assumption.
  Qed.
End DoEncode.

Print Assumptions src_do_encode_spec.

(* ---- the translated doEncode against the model's [encode] (Model/Encode.v) ----
   The abstract values are instantiated by the model: the claims object is a [val] of the kind's schema, the log of
   assignments and calls is interpreted on it ([interp]), hash / serialize are the model's marshalling of the object the
   log has produced so far, the header is the version-2 header, the key pair reports [issuer] and signs with [msign],
   the role tests are the model's [role_of].  Then the translated function returns exactly what [encode] returns: the
   same token, the same claims object afterwards, and the empty token whenever [encode] fails. *)
From JWT Require Import Base.Codec Base.B64 Model.Kinds Model.Claims Model.Decode Model.Encode Gen.Tables.

Section Tie.
  Variable H : string -> string.
  Variable jprint : json -> string.
  Variable msign : string -> string.
  Variable role_of : string -> role.
  Variable k : ckind.
  Variable v : val.               (* the claims object as handed to the kind's Encode *)
  Variable issuer : string.       (* kp.PublicKey() *)
  Variable now : Z.

  Let t := schema_of k.
  Let v0 := pre_encode k v.       (* the object when doEncode is entered *)

  Definition apply_event (e : go_event) (x : val) : val :=
    match e with
    | GoSetS f s => if (f =? "c_Issuer")%string then setp t ["iss"] (VStr s) x
                    else if (f =? "c_ID")%string then setp t ["jti"] (VStr s) x
                    else if existsb (String.eqb f) ["oc_Operator_GenericFields_Type"; "a_Account_GenericFields_Type"; "u_User_GenericFields_Type"; "a_Activation_GenericFields_Type";
                                                 "ac_AuthorizationRequest_GenericFields_Type"; "ar_AuthorizationResponse_GenericFields_Type"]
                         then setp t ["nats"; "type"] (VStr s) x
                    else x
    | GoSetZ f z => if (f =? "c_IssuedAt")%string then setp t ["iat"] (VInt z) x else x
    | GoSetB _ _ => x
    | GoDo c => if (c =? "claim.updateVersion")%string then update_version k x
                else if (c =? "sort.Sort a_Account_Exports")%string then sort_field k ["nats"; "exports"] x
                else if (c =? "sort.Sort a_Account_Imports")%string then sort_field k ["nats"; "imports"] x
                else x
    end.
  Definition interp (x0 : val) (log : list go_event) : val := fold_left (fun x e => apply_event e x) log x0.

  Definition role_z (r : role) : Z :=
    match r with RAccount => 0 | ROperator => 112 | RServer => 104 | RCluster => 16 | RUser => 160 | RCurve => 184 | RNone => 200 end.
  Definition m_prefixes : list Z := match expected_prefixes k with None => [] | Some ps => map role_z ps end.
  Definition m_hash (x0 : val) (log : list go_event) : string * option string :=
    match enc sch_claims_data (claims_data_of k (interp x0 log)) with
    | Some j => (H (jprint j), None) | None => ("", Some "json: unsupported value") end.
  Definition m_ser_claim (x0 : val) (log : list go_event) : string * option string :=
    match enc t (interp x0 log) with
    | Some j => (b64enc (jprint j), None) | None => ("", Some "json: unsupported value") end.
  Definition m_is (r : role) (pub : string) : bool := role_eqb (role_of pub) r.

  Definition m_run (x0 : val) (subject : string) :=
    run subject (m_hash x0) (fun _ => m_prefixes) (fun _ => b64enc)
      (m_is RAccount) (m_is RCluster) (m_is ROperator) (m_is RServer) (m_is RUser) now (fun _ => true)
      (m_ser_claim x0) (fun _ => (b64enc (jprint header_json), None)) alg_new false
      (fun _ => (issuer, None)) (fun _ s => (msign s, None)) false.

  Lemma m_role_rule : forall ps,
    existsb (erole (m_is RAccount) (m_is RCluster) (m_is ROperator) (m_is RServer) (m_is RUser) issuer) (map role_z ps)
    = existsb (fun p => encode_switch p (role_of issuer)) ps.
  Proof.
    induction ps as [|p ps IH]; [reflexivity|]. cbn [map existsb]. rewrite IH. f_equal.
    unfold erole, m_is. destruct p, (role_of issuer); reflexivity.
  Qed.

  Theorem src_do_encode_model (subject : string) :
    match encode H jprint msign k (negb (subject =? "")%string && encode_role_ok (expected_prefixes k) (role_of issuer)) issuer now v with
    | Some (v', tok) => snd (m_run v0 subject) = (tok, None) /\ interp v0 (fst (m_run v0 subject)) = v'
    | None => snd (snd (m_run v0 subject)) <> None /\ fst (snd (m_run v0 subject)) = ""
    end.
  Proof.
    assert (Hne : expected_prefixes k <> Some []) by (destruct k; discriminate).
    destruct (encode H jprint msign k _ issuer now v) as [[v' tok]|] eqn:He.
    - unfold encode in He.
      destruct (negb (subject =? "")%string && encode_role_ok (expected_prefixes k) (role_of issuer)) eqn:Hg; cbn [negb] in He; [|discriminate He].
      apply andb_true_iff in Hg. destruct Hg as [Hsub Hrole]. apply negb_true_iff in Hsub.
      unfold stamp in He. fold t in He. fold v0 in He.
      destruct (enc sch_claims_data _) as [jid|] eqn:Hid; [|discriminate He].
      destruct (enc t _) as [jp|] eqn:Hjp; [|discriminate He].
      inversion He; subst v' tok; clear He.
      pose (id := H (jprint jid)).
      assert (Hst : interp v0 (stamped now issuer) = setp t ["jti"] (VStr "") (setp t ["iat"] (VInt now) (setp t ["iss"] (VStr issuer) v0))) by reflexivity.
      assert (Hfin : interp v0 (finished now issuer id) = update_version k (setp t ["jti"] (VStr id) (interp v0 (stamped now issuer)))) by reflexivity.
      unfold m_run. rewrite (src_do_encode_complete subject (m_hash v0) (fun _ => m_prefixes) (fun _ => b64enc)
                 (m_is RAccount) (m_is RCluster) (m_is ROperator) (m_is RServer) (m_is RUser) now (fun _ => true)
                 (m_ser_claim v0) (fun _ => (b64enc (jprint header_json), None)) alg_new false
                 (fun _ => (issuer, None)) (fun _ s => (msign s, None)) false
                 (b64enc (jprint header_json)) issuer id (b64enc (jprint jp)) (msign (b64enc (jprint header_json) ++ "." ++ b64enc (jprint jp)))); try reflexivity.
      + cbn [snd fst]. split; [|rewrite Hfin, Hst; reflexivity].
        f_equal. unfold token_of. cbv zeta. rewrite sapp_assoc. cbn [String.append]. reflexivity.
      + intros ->. discriminate Hsub.
      + unfold m_prefixes, encode_role_ok in *. destruct (expected_prefixes k) as [ps|]; [|left; reflexivity].
        right. rewrite m_role_rule. exact Hrole.
      + unfold m_hash. rewrite Hst, Hid. reflexivity.
      + unfold m_ser_claim. rewrite Hfin, Hst. fold id in Hjp. rewrite Hjp. reflexivity.
    - unfold m_run. match goal with |- ?A /\ _ => assert (Hf : A) end; [|split; [exact Hf|apply src_do_encode_fail_empty; exact Hf]].
      + intros Hok. apply src_do_encode_spec in Hok.
        destruct Hok as (_ & _ & _ & Hs & h & pub & id & payload & sg & Hh & Hp & Hrole & Hi & Hpl & _ & Hsg & Hrun).
        inversion Hp; subst pub. unfold encode in He.
        assert (Hg : negb (subject =? "")%string && encode_role_ok (expected_prefixes k) (role_of issuer) = true).
        { apply andb_true_iff. split; [apply negb_true_iff, String.eqb_neq; exact Hs|].
          unfold m_prefixes, encode_role_ok in *. destruct (expected_prefixes k) as [ps|]; [|reflexivity].
          destruct Hrole as [Hl|Hr]; [destruct ps; [congruence|discriminate Hl]|]. rewrite m_role_rule in Hr. exact Hr. }
        rewrite Hg in He. cbn [negb] in He. unfold stamp in He. fold t in He. fold v0 in He.
        assert (Hst : interp v0 (stamped now issuer) = setp t ["jti"] (VStr "") (setp t ["iat"] (VInt now) (setp t ["iss"] (VStr issuer) v0))) by reflexivity.
        unfold m_hash in Hi. rewrite Hst in Hi.
        destruct (enc sch_claims_data _) as [jid|] eqn:Hid; [|discriminate Hi]. inversion Hi; subst id.
        assert (Hfin : interp v0 (finished now issuer (H (jprint jid))) = update_version k (setp t ["jti"] (VStr (H (jprint jid))) (interp v0 (stamped now issuer)))) by reflexivity.
        unfold m_ser_claim in Hpl. rewrite Hfin, Hst in Hpl.
        destruct (enc t _) as [jp|]; [discriminate He|discriminate Hpl].
  Qed.
End Tie.

Print Assumptions src_do_encode_model.

(* ---- the per-kind Encode functions and ClaimsData.encode, translated on this run ----
   ClaimsData.encode is doEncode with the version-2 header; each kind's Encode tests the subject (and, for an operator,
   the account server URL), sorts / stamps the kind into the object and calls it.  The callee's log continues the
   caller's: its observations see the caller's effects.  Against the model: with the model's oracles (as in [m_run], but
   starting from the object [v] as handed to Encode), each translated Encode returns what the model's [encode] returns
   under the full gate [encode_gate]. *)
Lemma src_claims_encode_eq subject hash b64 isA isC isO isS isU now same ser_claim ser_header pubkey sign knil prefixes :
  V2.ClaimsData_encode subject hash b64 isA isC isO isS isU now same ser_claim ser_header pubkey sign knil prefixes
  = run subject hash prefixes b64 isA isC isO isS isU now same ser_claim ser_header "ed25519-nkey" false pubkey sign knil.
Proof.
  unfold V2.ClaimsData_encode, run. cbv zeta. cbn [app].
  match goal with |- (let '(_, _) := ?e in _) = ?f => change f with e; destruct e as [l r] end. reflexivity.
Qed.

Section Kinds.
  Variable H : string -> string.
  Variable jprint : json -> string.
  Variable msign : string -> string.
  Variable role_of : string -> role.
  Variable v : val.
  Variable issuer : string.
  Variable now : Z.
  Variable subject : string.

  Definition kind_result (k : ckind) (extra_ok : bool) (R : list go_event * (string * option string)) : Prop :=
    match encode H jprint msign k (encode_gate k subject (role_of subject) (role_of issuer) extra_ok) issuer now v with
    | Some (v', tok) => snd R = (tok, None) /\ interp k v (fst R) = v'
    | None => snd (snd R) <> None /\ fst (snd R) = ""
    end.

  Notation isA := (m_is role_of RAccount). Notation isC := (m_is role_of RCluster). Notation isO := (m_is role_of ROperator).
  Notation isS := (m_is role_of RServer). Notation isU := (m_is role_of RUser).
  Notation b64 := (fun _ : list go_event => b64enc).
  Notation same := (fun _ : list go_event => true).
  Notation hdr := (fun _ : list go_event => (b64enc (jprint header_json), @None string)).
  Notation pubkey := (fun _ : list go_event => (issuer, @None string)).
  Notation sgn := (fun (_ : list go_event) (s : string) => (msign s, @None string)).

  Definition src_operator_encode (extra_ok : bool) :=
    V2.OperatorClaims_Encode b64 isA isC isO isS isU now same (m_ser_claim jprint KOperator v) hdr
      subject (m_hash H jprint KOperator v) (fun _ => m_prefixes KOperator)
      (fun _ => if extra_ok then None else Some "account_server_url") pubkey sgn false.
  Definition src_account_encode :=
    V2.AccountClaims_Encode subject (m_hash H jprint KAccount v) (fun _ => m_prefixes KAccount) b64 isA isC isO isS isU now same
      (m_ser_claim jprint KAccount v) hdr pubkey sgn false.
  Definition src_user_encode :=
    V2.UserClaims_Encode b64 isA isC isO isS isU now same (m_ser_claim jprint KUser v) hdr pubkey sgn false
      subject (m_hash H jprint KUser v) (fun _ => m_prefixes KUser).
  Definition src_activation_encode :=
    V2.ActivationClaims_Encode subject (m_hash H jprint KActivation v) (fun _ => m_prefixes KActivation) b64 isA isC isO isS isU now same
      (m_ser_claim jprint KActivation v) hdr pubkey sgn false.
  Definition src_auth_request_encode :=
    V2.AuthorizationRequestClaims_Encode subject (m_hash H jprint KAuthRequest v) (fun _ => m_prefixes KAuthRequest) b64 isA isC isO isS isU now same
      (m_ser_claim jprint KAuthRequest v) hdr pubkey sgn false.
  Definition src_auth_response_encode :=
    V2.AuthorizationResponseClaims_Encode subject (m_hash H jprint KAuthResponse v) (fun _ => m_prefixes KAuthResponse) b64 isA isC isO isS isU now same
      (m_ser_claim jprint KAuthResponse v) hdr pubkey sgn false.
  Definition src_generic_encode :=
    V2.GenericClaims_Encode subject (m_hash H jprint KGeneric v) (fun _ => m_prefixes KGeneric) b64 isA isC isO isS isU now same
      (m_ser_claim jprint KGeneric v) hdr pubkey sgn false.

  (* after the kind's own tests: the call of ClaimsData.encode with the log so far *)
  Ltac kind_tail K :=
    rewrite src_claims_encode_eq;
    let M := fresh "M" in
    pose proof (src_do_encode_model H jprint msign role_of K v issuer now subject) as M; unfold m_run in M;
    match goal with |- context [let '(_, _) := ?e in _] =>
      change e with (run subject (m_hash H jprint K (pre_encode K v)) (fun _ => m_prefixes K) b64 isA isC isO isS isU now same
                       (m_ser_claim jprint K (pre_encode K v)) hdr alg_new false pubkey sgn false) in * end;
    match goal with |- context [let '(_, _) := ?e in _] => destruct e as [l r] end;
    cbn [snd fst] in *;
    match goal with |- context [encode H jprint msign K ?g issuer now v] => destruct (encode H jprint msign K g issuer now v) as [[v' tok]|] end;
    [ destruct M as [M1 M2]; split; [exact M1 | rewrite <- M2; reflexivity] | exact M ].

  Ltac kind_refused := unfold encode; cbn [negb snd fst]; split; [discriminate|reflexivity].

  Theorem src_user_encode_model : kind_result KUser true src_user_encode.
  Proof.
    unfold kind_result, src_user_encode, V2.UserClaims_Encode, encode_gate. cbv zeta. cbn [subject_ok andb].
    fold (m_is role_of RUser subject). destruct (m_is role_of RUser subject); cbn [negb andb]; [|kind_refused].
    kind_tail KUser.
  Qed.
  Theorem src_account_encode_model : kind_result KAccount true src_account_encode.
  Proof.
    unfold kind_result, src_account_encode, V2.AccountClaims_Encode, encode_gate. cbv zeta. cbn [subject_ok andb].
    fold (m_is role_of RAccount subject). destruct (m_is role_of RAccount subject); cbn [negb andb]; [|kind_refused].
    kind_tail KAccount.
  Qed.
  Theorem src_activation_encode_model : kind_result KActivation true src_activation_encode.
  Proof.
    unfold kind_result, src_activation_encode, V2.ActivationClaims_Encode, encode_gate. cbv zeta. cbn [subject_ok andb].
    fold (m_is role_of RAccount subject). destruct (m_is role_of RAccount subject); cbn [negb andb]; [|kind_refused].
    kind_tail KActivation.
  Qed.
  Theorem src_operator_encode_model extra_ok : kind_result KOperator extra_ok (src_operator_encode extra_ok).
  Proof.
    unfold kind_result, src_operator_encode, V2.OperatorClaims_Encode, encode_gate. cbv zeta. cbn [subject_ok andb].
    fold (m_is role_of ROperator subject). destruct (m_is role_of ROperator subject); cbn [negb andb]; [|kind_refused].
    destruct extra_ok; cbn [go_err_isnil negb andb]; [|kind_refused].
    kind_tail KOperator.
  Qed.
  Theorem src_auth_request_encode_model : kind_result KAuthRequest true src_auth_request_encode.
  Proof.
    unfold kind_result, src_auth_request_encode, V2.AuthorizationRequestClaims_Encode, encode_gate. cbv zeta. cbn [subject_ok andb].
    kind_tail KAuthRequest.
  Qed.
  Theorem src_auth_response_encode_model : kind_result KAuthResponse true src_auth_response_encode.
  Proof.
    unfold kind_result, src_auth_response_encode, V2.AuthorizationResponseClaims_Encode, encode_gate. cbv zeta. cbn [subject_ok andb].
    kind_tail KAuthResponse.
  Qed.
  Theorem src_generic_encode_model : kind_result KGeneric true src_generic_encode.
  Proof.
    unfold kind_result, src_generic_encode, V2.GenericClaims_Encode, encode_gate. cbv zeta. cbn [subject_ok andb].
    kind_tail KGeneric.
  Qed.

  (* read off: when the model's gate refuses (subject of the wrong role or empty, an operator's bad account server URL,
     a signing key whose role is not on the kind's list), each translated Encode returns an error and no token *)
  Lemma kind_result_refused k extra_ok R : kind_result k extra_ok R ->
    encode_gate k subject (role_of subject) (role_of issuer) extra_ok = false -> snd (snd R) <> None /\ fst (snd R) = "".
  Proof. unfold kind_result. intros HR Hg. rewrite Hg in HR. unfold encode in HR. cbn [negb] in HR. exact HR. Qed.

  Theorem src_kinds_refuse :
    (forall extra_ok, encode_gate KOperator subject (role_of subject) (role_of issuer) extra_ok = false ->
       snd (snd (src_operator_encode extra_ok)) <> None /\ fst (snd (src_operator_encode extra_ok)) = "") /\
    (encode_gate KAccount subject (role_of subject) (role_of issuer) true = false ->
       snd (snd src_account_encode) <> None /\ fst (snd src_account_encode) = "") /\
    (encode_gate KUser subject (role_of subject) (role_of issuer) true = false ->
       snd (snd src_user_encode) <> None /\ fst (snd src_user_encode) = "") /\
    (encode_gate KActivation subject (role_of subject) (role_of issuer) true = false ->
       snd (snd src_activation_encode) <> None /\ fst (snd src_activation_encode) = "") /\
    (encode_gate KAuthRequest subject (role_of subject) (role_of issuer) true = false ->
       snd (snd src_auth_request_encode) <> None /\ fst (snd src_auth_request_encode) = "") /\
    (encode_gate KAuthResponse subject (role_of subject) (role_of issuer) true = false ->
       snd (snd src_auth_response_encode) <> None /\ fst (snd src_auth_response_encode) = "") /\
    (encode_gate KGeneric subject (role_of subject) (role_of issuer) true = false ->
       snd (snd src_generic_encode) <> None /\ fst (snd src_generic_encode) = "").
  Proof.
    split; [intros extra_ok Hg; exact (kind_result_refused _ _ _ (src_operator_encode_model extra_ok) Hg)|].
    split; [intros Hg; exact (kind_result_refused _ _ _ src_account_encode_model Hg)|].
    split; [intros Hg; exact (kind_result_refused _ _ _ src_user_encode_model Hg)|].
    split; [intros Hg; exact (kind_result_refused _ _ _ src_activation_encode_model Hg)|].
    split; [intros Hg; exact (kind_result_refused _ _ _ src_auth_request_encode_model Hg)|].
    split; [intros Hg; exact (kind_result_refused _ _ _ src_auth_response_encode_model Hg)|].
    intros Hg; exact (kind_result_refused _ _ _ src_generic_encode_model Hg).
  Qed.
End Kinds.

Print Assumptions src_operator_encode_model.
Print Assumptions src_account_encode_model.
Print Assumptions src_kinds_refuse.
