From JWT Require Import Model.Decode.
(* Proofs/Decode.v — proofs of the lemmas closed by Properties/C01.v, C02.v, C05.v. *)
Open Scope string_scope.
Open Scope Z_scope.

Ltac kill := try (let Hkill := fresh "Hkill" in intros Hkill; discriminate Hkill).

(* ---------- strings ---------- *)
Lemma substring_prefix (a b : string) : substring 0 (String.length a) (a ++ b) = a.
Proof.
  induction a as [|c a IH]; simpl.
  - destruct b; reflexivity.
  - now rewrite IH.
Qed.

Lemma split_exact : forall tok c0 c1 c2,
  split dot tok = [c0; c1; c2] ->
  tok = c0 ++ "." ++ c1 ++ "." ++ c2 /\
  sep_free dot c0 = true /\ sep_free dot c1 = true /\ sep_free dot c2 = true /\
  substring 0 (String.length c0 + String.length c1 + 1)%nat tok = c0 ++ "." ++ c1.
Proof.
  intros tok c0 c1 c2 Hs.
  assert (Hj : tok = c0 ++ "." ++ c1 ++ "." ++ c2).
  { rewrite <- (join_split dot tok), Hs. reflexivity. }
  pose proof (split_tokens_sep_free dot tok) as HF. rewrite Hs in HF.
  inversion HF as [|x0 l0 Hf0 HF1]; subst x0 l0.
  inversion HF1 as [|x1 l1 Hf1 HF2]; subst x1 l1.
  inversion HF2 as [|x2 l2 Hf2 HF3]; subst x2 l2.
  split; [exact Hj|]. split; [exact Hf0|]. split; [exact Hf1|]. split; [exact Hf2|].
  assert (Hlen : (String.length c0 + String.length c1 + 1)%nat = String.length (c0 ++ "." ++ c1)).
  { rewrite slength_app. simpl. lia. }
  rewrite Hlen.
  assert (Hj2 : tok = (c0 ++ "." ++ c1) ++ "." ++ c2).
  { rewrite Hj. rewrite sapp_assoc. simpl. reflexivity. }
  rewrite Hj2 at 1. apply substring_prefix.
Qed.

Lemma protected_text : forall l tok c0 c1 c2,
  split dot tok = [c0; c1; c2] -> protected l c0 c1 tok = text_of l c0 c1.
Proof.
  intros l tok c0 c1 c2 Hs. destruct l; simpl.
  - reflexivity.
  - apply (split_exact tok c0 c1 c2 Hs).
Qed.

(* ---------- the role matrix (identical body to Properties/C02.v's [allowed]) ---------- *)
Definition allowed (k : ckind) (r : role) : bool :=
  match k, r with
  | KOperator, ROperator => true
  | KAccount, RAccount | KAccount, ROperator => true
  | KActivation, RAccount | KActivation, ROperator => true
  | KUser, RAccount => true
  | KAuthResponse, RAccount => true
  | KAuthRequest, RServer => true
  | KGeneric, _ => true
  | _, _ => false
  end.

Lemma tables_match : forall k r,
  (match expected_prefixes k with None => true | Some ps => existsb (role_eqb r) ps end) = allowed k r.
Proof. intros k r; destruct k, r; reflexivity. Qed.

Lemma kind_names :
  map kind_name all_kinds =
  ["operator"; "account"; "user"; "activation"; "authorization_request"; "authorization_response"; "generic"].
Proof. reflexivity. Qed.

Lemma decode_role_allowed : forall k r,
  decode_role_ok (expected_prefixes k) r = true -> allowed k r = true.
Proof.
  intros k r; destruct k, r; vm_compute; intros Hx; first [reflexivity | discriminate Hx].
Qed.

Lemma encode_role_allowed : forall k r,
  encode_role_ok (expected_prefixes k) r = allowed k r.
Proof. intros k r; destruct k, r; reflexivity. Qed.

Lemma subject_roles : forall k r,
  subject_ok k r = true <->
  match k with
  | KOperator => r = ROperator
  | KAccount | KActivation => r = RAccount
  | KUser => r = RUser
  | _ => True
  end.
Proof.
  intros k r; destruct k, r; simpl; split; intros Hx;
    first [reflexivity | discriminate Hx | exact I].
Qed.

Lemma encode_roles : forall k subject sr kr extra,
  encode_gate k subject sr kr extra = true ->
  allowed k kr = true /\ subject_ok k sr = true /\ subject <> "" /\
  (match k with KGeneric => True | _ => kr <> RNone end).
Proof.
  intros k subject sr kr extra. unfold encode_gate.
  rewrite !andb_true_iff. intros [[[Hsub Hextra] Hne] Hrole].
  rewrite encode_role_allowed in Hrole.
  split; [exact Hrole|]. split; [exact Hsub|]. split.
  - apply negb_true_iff in Hne. apply String.eqb_neq in Hne. exact Hne.
  - destruct k; try exact I; intros Hk; subst kr; vm_compute in Hrole; discriminate Hrole.
Qed.

Lemma encode_refuses : forall k subject sr kr extra,
  allowed k kr = false \/ subject_ok k sr = false \/ subject = "" ->
  encode_gate k subject sr kr extra = false.
Proof.
  intros k subject sr kr extra [Ha|[Hs|He]]; unfold encode_gate.
  - rewrite encode_role_allowed, Ha. apply andb_false_r.
  - rewrite Hs. reflexivity.
  - subst subject. simpl. rewrite andb_false_r. reflexivity.
Qed.

(* ---------- Header.Valid ---------- *)
Lemma header_valid_iff : forall typ alg,
  header_valid typ alg = true <->
  (to_upper typ = "JWT"%string /\ (to_lower alg = "ed25519"%string \/ to_lower alg = "ed25519-nkey"%string)).
Proof.
  intros typ alg. unfold header_valid. cbv zeta. split.
  - rewrite !andb_true_iff, orb_true_iff. intros [Ht [_ [Ha|Ha]]].
    + apply String.eqb_eq in Ht. apply String.eqb_eq in Ha.
      split; [symmetry; exact Ht|left; symmetry; exact Ha].
    + apply String.eqb_eq in Ht. apply String.eqb_eq in Ha.
      split; [symmetry; exact Ht|right; symmetry; exact Ha].
  - intros [Hu [Ha|Ha]]; rewrite Hu, Ha; reflexivity.
Qed.

Lemma header_rejects :
  header_valid "JWT" "none" = false /\ header_valid "JWT" "" = false /\
  header_valid "JWT" "ed25519-nkey2" = false /\ header_valid "JWT" "ed25519-" = false /\
  header_valid "JWT" "ed2551" = false /\ header_valid "JWS" "ed25519" = false /\
  header_valid "jwt" "ED25519-NKEY" = true /\ header_valid "JwT" "Ed25519" = true.
Proof. vm_compute. repeat split. Qed.

Lemma lib_version_is_2 : lib_version = 2.
Proof. reflexivity. Qed.

(* ---------- loadClaims ---------- *)
Definition eff_ver (k : ckind) (alg : string) (ver : Z) : Z :=
  if ckind_eqb k KGeneric
  then (if (alg =? alg_old)%string then 1 else lib_version)
  else ver.
Definition lay (v : Z) : layout := if v <=? 1 then LV1 else LV2.

Lemma typed_loader_inv : forall k v um k' ver,
  typed_loader k v um = Some (k', ver) -> k' = k /\ ver = v /\ (v = 1 \/ v = 2).
Proof.
  intros k v um k' ver. unfold typed_loader.
  destruct (Z.eqb_spec v 1) as [E1|N1]; destruct (Z.eqb_spec v 2) as [E2|N2]; simpl;
    destruct (um k v); kill; intros H; injection H as Hk Hv; subst k' ver;
    (split; [reflexivity|split; [reflexivity|]]); auto.
Qed.

Lemma load_claims_inv : forall i um k ver,
  load_claims i um = Some (k, ver) ->
  id_version i <= 2 /\
  ((k <> KGeneric /\ id_kind i = kind_name k /\ ver = id_version i /\
    (In k [KOperator; KAccount; KUser; KActivation] -> ver = 1 \/ ver = 2))
   \/
   (k = KGeneric /\ ver = -1 /\
    (forall k', k' <> KGeneric -> id_kind i <> kind_name k') /\
    id_kind i <> "cluster"%string /\ id_kind i <> "server"%string)).
Proof.
  intros i um k ver. unfold load_claims. cbv zeta.
  destruct (Z.ltb_spec lib_version (id_version i)) as [Hlt|Hle]; kill.
  unfold lib_version in Hle.
  destruct (String.eqb_spec (id_kind i) (kind_name KOperator)) as [E1|N1].
  { intros H. apply typed_loader_inv in H. destruct H as (Hk & Hv & Hr). subst k ver.
    split; [exact Hle|left]. split; [discriminate|]. split; [exact E1|]. split; [reflexivity|]. intros _; exact Hr. }
  destruct (String.eqb_spec (id_kind i) (kind_name KAccount)) as [E2|N2].
  { intros H. apply typed_loader_inv in H. destruct H as (Hk & Hv & Hr). subst k ver.
    split; [exact Hle|left]. split; [discriminate|]. split; [exact E2|]. split; [reflexivity|]. intros _; exact Hr. }
  destruct (String.eqb_spec (id_kind i) (kind_name KUser)) as [E3|N3].
  { intros H. apply typed_loader_inv in H. destruct H as (Hk & Hv & Hr). subst k ver.
    split; [exact Hle|left]. split; [discriminate|]. split; [exact E3|]. split; [reflexivity|]. intros _; exact Hr. }
  destruct (String.eqb_spec (id_kind i) (kind_name KActivation)) as [E4|N4].
  { intros H. apply typed_loader_inv in H. destruct H as (Hk & Hv & Hr). subst k ver.
    split; [exact Hle|left]. split; [discriminate|]. split; [exact E4|]. split; [reflexivity|]. intros _; exact Hr. }
  destruct (String.eqb_spec (id_kind i) (kind_name KAuthRequest)) as [E5|N5].
  { destruct (um KAuthRequest (id_version i) && (id_nats_type i =? kind_name KAuthRequest)%string && (id_nats_version i =? id_version i)); kill.
    intros H. injection H as Hk Hv. subst k ver.
    split; [exact Hle|left]. split; [discriminate|]. split; [exact E5|]. split; [reflexivity|].
    intros [F|[F|[F|[F|F]]]]; try discriminate F; destruct F. }
  destruct (String.eqb_spec (id_kind i) (kind_name KAuthResponse)) as [E6|N6].
  { destruct (um KAuthResponse (id_version i) && (id_nats_type i =? kind_name KAuthResponse)%string && (id_nats_version i =? id_version i)); kill.
    intros H. injection H as Hk Hv. subst k ver.
    split; [exact Hle|left]. split; [discriminate|]. split; [exact E6|]. split; [reflexivity|].
    intros [F|[F|[F|[F|F]]]]; try discriminate F; destruct F. }
  destruct (String.eqb_spec (id_kind i) "cluster") as [Ec|Nc]; kill.
  destruct (String.eqb_spec (id_kind i) "server") as [Es|Ns]; kill.
  destruct (um KGeneric (id_version i)); kill.
  intros H. injection H as Hk Hv. subst k ver.
  split; [exact Hle|right]. split; [reflexivity|]. split; [reflexivity|].
  split; [|split; assumption].
  intros k' Hk'. destruct k'; try assumption. exfalso; apply Hk'; reflexivity.
Qed.

Lemma is_typed_name_true : forall k, k <> KGeneric -> is_typed_name (kind_name k) = true.
Proof. intros k Hk; destruct k; try reflexivity. exfalso; apply Hk; reflexivity. Qed.

Lemma is_typed_name_false : forall s,
  (forall k', k' <> KGeneric -> s <> kind_name k') -> is_typed_name s = false.
Proof.
  intros s Hs. unfold is_typed_name. cbn [existsb].
  rewrite (proj2 (String.eqb_neq s (kind_name KOperator))) by (apply Hs; discriminate).
  rewrite (proj2 (String.eqb_neq s (kind_name KAccount))) by (apply Hs; discriminate).
  rewrite (proj2 (String.eqb_neq s (kind_name KUser))) by (apply Hs; discriminate).
  rewrite (proj2 (String.eqb_neq s (kind_name KActivation))) by (apply Hs; discriminate).
  rewrite (proj2 (String.eqb_neq s (kind_name KAuthRequest))) by (apply Hs; discriminate).
  rewrite (proj2 (String.eqb_neq s (kind_name KAuthResponse))) by (apply Hs; discriminate).
  reflexivity.
Qed.

Lemma load_claims_layout : forall i um k ver alg,
  load_claims i um = Some (k, ver) ->
  lay (eff_ver k alg ver) =
  (if is_typed_name (id_kind i)
   then (if id_version i <=? 1 then LV1 else LV2)
   else (if (alg =? alg_old)%string then LV1 else LV2)).
Proof.
  intros i um k ver alg H. apply load_claims_inv in H.
  destruct H as [_ [(Hk & Hn & Hv & _)|(Hk & Hv & Hn & _)]].
  - rewrite Hn, (is_typed_name_true k Hk). subst ver. unfold eff_ver, lay.
    destruct k; try reflexivity. exfalso; apply Hk; reflexivity.
  - rewrite (is_typed_name_false _ Hn). subst k. unfold eff_ver, lay.
    destruct (alg =? alg_old)%string; reflexivity.
Qed.

(* authorization claims have no version-1 form: the version their nats section reports
   is the version that selects the signed text *)
Lemma load_claims_auth_version : forall i um k ver,
  load_claims i um = Some (k, ver) -> (k = KAuthRequest \/ k = KAuthResponse) ->
  id_nats_version i = ver /\ ver = id_version i.
Proof.
  intros i um k ver H Hk. unfold load_claims in H. cbv zeta in H.
  destruct (lib_version <? id_version i); [discriminate H|].
  destruct (String.eqb_spec (id_kind i) (kind_name KOperator)).
  { apply typed_loader_inv in H. destruct H as (-> & _). destruct Hk; discriminate. }
  destruct (String.eqb_spec (id_kind i) (kind_name KAccount)).
  { apply typed_loader_inv in H. destruct H as (-> & _). destruct Hk; discriminate. }
  destruct (String.eqb_spec (id_kind i) (kind_name KUser)).
  { apply typed_loader_inv in H. destruct H as (-> & _). destruct Hk; discriminate. }
  destruct (String.eqb_spec (id_kind i) (kind_name KActivation)).
  { apply typed_loader_inv in H. destruct H as (-> & _). destruct Hk; discriminate. }
  destruct (String.eqb_spec (id_kind i) (kind_name KAuthRequest)).
  { destruct (um KAuthRequest (id_version i) && (id_nats_type i =? kind_name KAuthRequest)%string) eqn:E1;
      [|discriminate H].
    destruct (Z.eqb_spec (id_nats_version i) (id_version i)) as [E|E]; [|discriminate H].
    injection H as _ <-. split; [exact E | reflexivity]. }
  destruct (String.eqb_spec (id_kind i) (kind_name KAuthResponse)).
  { destruct (um KAuthResponse (id_version i) && (id_nats_type i =? kind_name KAuthResponse)%string) eqn:E1;
      [|discriminate H].
    destruct (Z.eqb_spec (id_nats_version i) (id_version i)) as [E|E]; [|discriminate H].
    injection H as _ <-. split; [exact E | reflexivity]. }
  destruct ((id_kind i =? "cluster")%string); [discriminate H|].
  destruct ((id_kind i =? "server")%string); [discriminate H|].
  destruct (um KGeneric (id_version i)); [|discriminate H].
  injection H as <- _. destruct Hk; discriminate.
Qed.

(* ---------- Decode ---------- *)
Section DecodeProofs.
  Variable b64dec : string -> option string.
  Variable parse_header : string -> option (string * string).
  Variable parse_ident : string -> option ident.
  Variable unmarshal_ok : string -> ckind -> Z -> bool.
  Variable issuer_of : string -> string.
  Variable gunmarshal_ok : string -> bool.
  Variable verify : string -> string -> string -> bool.
  Variable role_of : string -> role.
  Notation decode := (decode b64dec parse_header parse_ident unmarshal_ok issuer_of verify role_of).
  Notation decode_typed := (decode_typed b64dec parse_header parse_ident unmarshal_ok issuer_of verify role_of).
  Notation decode_generic := (decode_generic b64dec parse_header issuer_of gunmarshal_ok verify).
  Notation declared_layout := (declared_layout b64dec parse_header parse_ident).

  Lemma decode_inv : forall tok a,
    decode tok = Some a ->
    exists c0 c1 c2 hj typ alg data i k ver sig,
      split dot tok = [c0; c1; c2] /\
      b64dec c0 = Some hj /\ parse_header hj = Some (typ, alg) /\
      header_valid typ alg = true /\
      b64dec c1 = Some data /\ parse_ident data = Some i /\
      load_claims i (unmarshal_ok data) = Some (k, ver) /\
      b64dec c2 = Some sig /\
      verify (issuer_of data) (protected (lay (eff_ver k alg ver)) c0 c1 tok) sig = true /\
      decode_role_ok (expected_prefixes k) (role_of (issuer_of data)) = true /\
      a = {| a_kind := k; a_iss := issuer_of data; a_version := id_version i;
             a_declared := id_kind i; a_typ := typ; a_alg := alg;
             a_layout := lay (eff_ver k alg ver) |}.
  Proof.
    intros tok a. unfold Decode.decode.
    destruct (split dot tok) as [|c0 [|c1 [|c2 [|c3 t]]]] eqn:Hs; kill.
    destruct (b64dec c0) as [hj|] eqn:H0; kill.
    destruct (parse_header hj) as [[typ alg]|] eqn:Hp; kill.
    destruct (header_valid typ alg) eqn:Hv; cbn [negb]; kill.
    destruct (b64dec c1) as [data|] eqn:H1; kill.
    destruct (parse_ident data) as [i|] eqn:Hi; kill.
    destruct (load_claims i (unmarshal_ok data)) as [[k ver]|] eqn:Hl; kill.
    destruct (b64dec c2) as [sig|] eqn:H2; kill.
    cbv zeta.
    match goal with |- context [verify ?x ?y ?z] => destruct (verify x y z) eqn:Hver end;
      cbn [negb]; kill.
    match goal with |- context [decode_role_ok ?x ?y] => destruct (decode_role_ok x y) eqn:Hr end; kill.
    intros H; injection H as H; subst a.
    exists c0, c1, c2, hj, typ, alg, data, i, k, ver, sig.
    split; [reflexivity|]. split; [exact H0|]. split; [exact Hp|]. split; [exact Hv|].
    split; [exact H1|]. split; [exact Hi|]. split; [exact Hl|]. split; [exact H2|].
    split; [exact Hver|]. split; [exact Hr|]. reflexivity.
  Qed.

  Lemma decode_generic_inv : forall tok a,
    decode_generic tok = Some a ->
    exists c0 c1 c2 hj typ alg data sig,
      split dot tok = [c0; c1; c2] /\
      b64dec c0 = Some hj /\ parse_header hj = Some (typ, alg) /\
      header_valid typ alg = true /\
      b64dec c1 = Some data /\ gunmarshal_ok data = true /\
      b64dec c2 = Some sig /\
      verify (issuer_of data)
             (protected (if (alg =? alg_old)%string then LV1 else LV2) c0 c1 tok) sig = true /\
      a = {| a_kind := KGeneric; a_iss := issuer_of data; a_version := 0;
             a_declared := ""; a_typ := typ; a_alg := alg;
             a_layout := if (alg =? alg_old)%string then LV1 else LV2 |}.
  Proof.
    intros tok a. unfold Decode.decode_generic.
    destruct (split dot tok) as [|c0 [|c1 [|c2 [|c3 t]]]] eqn:Hs; kill.
    destruct (b64dec c0) as [hj|] eqn:H0; kill.
    destruct (parse_header hj) as [[typ alg]|] eqn:Hp; kill.
    destruct (header_valid typ alg) eqn:Hv; cbn [negb]; kill.
    destruct (b64dec c1) as [data|] eqn:H1; kill.
    destruct (gunmarshal_ok data) eqn:Hg; cbn [negb]; kill.
    destruct (b64dec c2) as [sig|] eqn:H2; kill.
    cbv zeta.
    match goal with |- context [verify ?x ?y ?z] => destruct (verify x y z) eqn:Hver end;
      cbn [negb]; kill.
    intros H; injection H as H; subst a.
    exists c0, c1, c2, hj, typ, alg, data, sig.
    split; [reflexivity|]. split; [exact H0|]. split; [exact Hp|]. split; [exact Hv|].
    split; [exact H1|]. split; [exact Hg|]. split; [exact H2|].
    split; [exact Hver|]. reflexivity.
  Qed.

  (* the version that accepted authorization claims REPORT (their nats section) selects the text that was verified *)
  Lemma auth_reported_version : forall tok a,
    decode tok = Some a -> (a_kind a = KAuthRequest \/ a_kind a = KAuthResponse) ->
    exists c0 c1 c2 data i,
      split dot tok = [c0; c1; c2] /\ b64dec c1 = Some data /\ parse_ident data = Some i /\
      a_layout a = (if id_nats_version i <=? 1 then LV1 else LV2).
  Proof.
    intros tok a Hd Hk. apply decode_inv in Hd.
    destruct Hd as (c0 & c1 & c2 & hj & typ & alg & data & i & k & ver & sig &
                    Hs & H0 & Hp & Hv & H1 & Hi & Hl & H2 & Hver & Hr & Ha).
    subst a. cbn [a_kind a_layout] in *.
    exists c0, c1, c2, data, i. repeat split; try assumption.
    destruct (load_claims_auth_version i (unmarshal_ok data) k ver Hl Hk) as [E _]. rewrite E.
    unfold eff_ver, lay. destruct Hk as [->| ->]; reflexivity.
  Qed.

  (* ---------- C01 ---------- *)
  Lemma decode_authentic : forall tok a,
    decode tok = Some a ->
    exists c0 c1 c2 sig data,
      split dot tok = [c0; c1; c2] /\ tok = c0 ++ "." ++ c1 ++ "." ++ c2 /\
      b64dec c2 = Some sig /\ b64dec c1 = Some data /\ a_iss a = issuer_of data /\
      verify (a_iss a) (text_of (a_layout a) c0 c1) sig = true /\
      declared_layout tok = Some (a_layout a).
  Proof.
    intros tok a Hd. apply decode_inv in Hd.
    destruct Hd as (c0 & c1 & c2 & hj & typ & alg & data & i & k & ver & sig &
                    Hs & H0 & Hp & Hv & H1 & Hi & Hl & H2 & Hver & Hr & Ha).
    exists c0, c1, c2, sig, data. subst a. cbn [a_iss a_layout].
    split; [exact Hs|]. split; [apply (split_exact tok c0 c1 c2 Hs)|].
    split; [exact H2|]. split; [exact H1|]. split; [reflexivity|]. split.
    - rewrite <- (protected_text _ tok c0 c1 c2 Hs). exact Hver.
    - unfold Decode.declared_layout. rewrite Hs, H0, Hp, H1, Hi. f_equal. symmetry.
      apply (load_claims_layout i (unmarshal_ok data) k ver alg Hl).
  Qed.

  Lemma decode_typed_inv : forall k tok a,
    decode_typed k tok = Some a -> a_kind a = k /\ decode tok = Some a.
  Proof.
    intros k tok a. unfold Decode.decode_typed.
    destruct (decode tok) as [a0|] eqn:Hd; kill.
    destruct (ckind_eqb (a_kind a0) k) eqn:Hk; kill.
    intros H; injection H as H; subst a0.
    apply ckind_eqb_eq in Hk. split; [exact Hk|reflexivity].
  Qed.

  Lemma decode_typed_authentic : forall k tok a,
    decode_typed k tok = Some a ->
    a_kind a = k /\
    exists c0 c1 c2 sig data,
      split dot tok = [c0; c1; c2] /\ tok = c0 ++ "." ++ c1 ++ "." ++ c2 /\
      b64dec c2 = Some sig /\ b64dec c1 = Some data /\ a_iss a = issuer_of data /\
      verify (a_iss a) (text_of (a_layout a) c0 c1) sig = true /\
      declared_layout tok = Some (a_layout a).
  Proof.
    intros k tok a Ht. apply decode_typed_inv in Ht. destruct Ht as [Hk Hd].
    split; [exact Hk|]. apply decode_authentic. exact Hd.
  Qed.

  Lemma decode_generic_authentic : forall tok a,
    decode_generic tok = Some a ->
    exists c0 c1 c2 sig data typ alg hj,
      split dot tok = [c0; c1; c2] /\ tok = c0 ++ "." ++ c1 ++ "." ++ c2 /\
      b64dec c2 = Some sig /\ b64dec c1 = Some data /\ a_iss a = issuer_of data /\
      b64dec c0 = Some hj /\ parse_header hj = Some (typ, alg) /\
      a_layout a = (if (alg =? alg_old)%string then LV1 else LV2) /\
      verify (a_iss a) (text_of (a_layout a) c0 c1) sig = true.
  Proof.
    intros tok a Hd. apply decode_generic_inv in Hd.
    destruct Hd as (c0 & c1 & c2 & hj & typ & alg & data & sig &
                    Hs & H0 & Hp & Hv & H1 & Hg & H2 & Hver & Ha).
    exists c0, c1, c2, sig, data, typ, alg, hj. subst a. cbn [a_iss a_layout].
    split; [exact Hs|]. split; [apply (split_exact tok c0 c1 c2 Hs)|].
    split; [exact H2|]. split; [exact H1|]. split; [reflexivity|].
    split; [exact H0|]. split; [exact Hp|]. split; [reflexivity|].
    rewrite <- (protected_text _ tok c0 c1 c2 Hs). exact Hver.
  Qed.

  Lemma other_layout_rejected : forall tok c0 c1 c2 sig data l,
    split dot tok = [c0; c1; c2] -> b64dec c2 = Some sig -> b64dec c1 = Some data ->
    declared_layout tok = Some l ->
    verify (issuer_of data) (text_of l c0 c1) sig = false ->
    decode tok = None.
  Proof.
    intros tok c0 c1 c2 sig data l Hs H2 H1 Hdl Hver.
    destruct (decode tok) as [a|] eqn:Hd; [|reflexivity]. exfalso.
    apply decode_authentic in Hd.
    destruct Hd as (d0 & d1 & d2 & sig' & data' & Hs' & _ & H2' & H1' & Hiss & Hver' & Hdl').
    rewrite Hs in Hs'. injection Hs' as E0 E1 E2. subst d0 d1 d2.
    rewrite H2 in H2'. injection H2' as E. subst sig'.
    rewrite H1 in H1'. injection H1' as E. subst data'.
    rewrite Hdl in Hdl'. injection Hdl' as E. subst l.
    rewrite Hiss in Hver'. rewrite Hver in Hver'. discriminate Hver'.
  Qed.

  Lemma content_from_payload : forall tok tok' c0 c1 c2 c0' c2' a a',
    split dot tok = [c0; c1; c2] -> split dot tok' = [c0'; c1; c2'] ->
    decode tok = Some a -> decode tok' = Some a' ->
    a_kind a = a_kind a' /\ a_iss a = a_iss a' /\ a_version a = a_version a' /\ a_declared a = a_declared a'.
  Proof.
    intros tok tok' c0 c1 c2 c0' c2' a a' Hs Hs' Hd Hd'.
    apply decode_inv in Hd.
    destruct Hd as (d0 & d1 & d2 & hj & typ & alg & data & i & k & ver & sig &
                    Hsd & H0 & Hp & Hv & H1 & Hi & Hl & H2 & Hver & Hr & Ha).
    apply decode_inv in Hd'.
    destruct Hd' as (e0 & e1 & e2 & hj' & typ' & alg' & data' & i' & k' & ver' & sig' &
                    Hse & H0' & Hp' & Hv' & H1' & Hi' & Hl' & H2' & Hver' & Hr' & Ha').
    rewrite Hs in Hsd. injection Hsd as E0 E1 E2. subst d0 d1 d2.
    rewrite Hs' in Hse. injection Hse as E0 E1 E2. subst e0 e1 e2.
    rewrite H1 in H1'. injection H1' as E. subst data'.
    rewrite Hi in Hi'. injection Hi' as E. subst i'.
    rewrite Hl in Hl'. injection Hl' as Ek Ev. subst k' ver'.
    subst a a'. cbn [a_kind a_iss a_version a_declared].
    repeat split; reflexivity.
  Qed.

  (* ---------- C02 ---------- *)
  Lemma decode_role : forall tok a,
    decode tok = Some a -> allowed (a_kind a) (role_of (a_iss a)) = true.
  Proof.
    intros tok a Hd. apply decode_inv in Hd.
    destruct Hd as (c0 & c1 & c2 & hj & typ & alg & data & i & k & ver & sig &
                    Hs & H0 & Hp & Hv & H1 & Hi & Hl & H2 & Hver & Hr & Ha).
    subst a. cbn [a_kind a_iss]. apply decode_role_allowed. exact Hr.
  Qed.

  Lemma typed_kind_safe : forall k tok a,
    decode_typed k tok = Some a -> a_kind a = k /\ decode tok = Some a.
  Proof. exact decode_typed_inv. Qed.

  Lemma kind_is_declared : forall tok a,
    decode tok = Some a ->
    (a_kind a <> KGeneric -> a_declared a = kind_name (a_kind a)) /\
    (a_kind a = KGeneric -> forall k, k <> KGeneric -> a_declared a <> kind_name k).
  Proof.
    intros tok a Hd. apply decode_inv in Hd.
    destruct Hd as (c0 & c1 & c2 & hj & typ & alg & data & i & k & ver & sig &
                    Hs & H0 & Hp & Hv & H1 & Hi & Hl & H2 & Hver & Hr & Ha).
    subst a. cbn [a_kind a_declared].
    apply load_claims_inv in Hl.
    destruct Hl as [_ [(Hk & Hn & _)|(Hk & _ & Hn & _)]].
    - split; [intros _; exact Hn|intros Hg; exfalso; apply Hk; exact Hg].
    - split; [intros Hg; exfalso; apply Hg; exact Hk|intros _; exact Hn].
  Qed.

  (* ---------- C05 ---------- *)
  Lemma decode_gate : forall tok a,
    decode tok = Some a ->
    (exists c0 c1 c2 x0 x1 x2,
        split dot tok = [c0; c1; c2] /\
        b64dec c0 = Some x0 /\ b64dec c1 = Some x1 /\ b64dec c2 = Some x2 /\
        parse_header x0 = Some (a_typ a, a_alg a)) /\
    header_valid (a_typ a) (a_alg a) = true /\
    a_version a <= 2 /\
    (In (a_kind a) [KOperator; KAccount; KUser; KActivation] -> a_version a = 1 \/ a_version a = 2) /\
    a_declared a <> "cluster"%string /\ a_declared a <> "server"%string.
  Proof.
    intros tok a Hd. apply decode_inv in Hd.
    destruct Hd as (c0 & c1 & c2 & hj & typ & alg & data & i & k & ver & sig &
                    Hs & H0 & Hp & Hv & H1 & Hi & Hl & H2 & Hver & Hr & Ha).
    subst a. cbn [a_kind a_declared a_typ a_alg a_version].
    split.
    { exists c0, c1, c2, hj, data, sig.
      split; [exact Hs|]. split; [exact H0|]. split; [exact H1|]. split; [exact H2|]. exact Hp. }
    split; [exact Hv|].
    apply load_claims_inv in Hl.
    destruct Hl as [Hle [(Hk & Hn & Hve & Hin)|(Hk & Hve & Hn & Hc & Hsv)]].
    - split; [exact Hle|]. split.
      + intros HI. subst ver. apply Hin. exact HI.
      + rewrite Hn. destruct k; cbn [kind_name]; split; try discriminate;
          exfalso; apply Hk; reflexivity.
    - split; [exact Hle|]. split.
      + subst k. intros [F|[F|[F|[F|F]]]]; try discriminate F; destruct F.
      + split; [exact Hc|exact Hsv].
  Qed.

  Lemma generic_gate : forall tok a,
    decode_generic tok = Some a ->
    (exists c0 c1 c2 x0 x1 x2,
        split dot tok = [c0; c1; c2] /\
        b64dec c0 = Some x0 /\ b64dec c1 = Some x1 /\ b64dec c2 = Some x2 /\
        parse_header x0 = Some (a_typ a, a_alg a)) /\
    header_valid (a_typ a) (a_alg a) = true.
  Proof.
    intros tok a Hd. apply decode_generic_inv in Hd.
    destruct Hd as (c0 & c1 & c2 & hj & typ & alg & data & sig &
                    Hs & H0 & Hp & Hv & H1 & Hg & H2 & Hver & Ha).
    subst a. cbn [a_typ a_alg].
    split; [|exact Hv].
    exists c0, c1, c2, hj, data, sig.
    split; [exact Hs|]. split; [exact H0|]. split; [exact H1|]. split; [exact H2|]. exact Hp.
  Qed.

  Lemma three_segments : forall tok,
    List.length (split dot tok) <> 3%nat -> decode tok = None /\ decode_generic tok = None.
  Proof.
    intros tok H. unfold Decode.decode, Decode.decode_generic.
    destruct (split dot tok) as [|c0 [|c1 [|c2 [|c3 t]]]]; simpl in H;
      try (split; reflexivity).
    exfalso; apply H; reflexivity.
  Qed.
End DecodeProofs.
