(* Proofs/NilSafety.v — proofs for Properties/C11.v: every partial primitive of
   Model/NilSafety.v is guarded by the tests the code performs first. *)
From JWT Require Import Model.NilSafety.
Open Scope string_scope.

(* ---------- the primitives succeed under their bounds ---------- *)
Lemma nth_error_lt {A} (l : list A) i : i < List.length l -> exists x, nth_error l i = Some x.
Proof.
  intros H. destruct (nth_error l i) as [x|] eqn:E; [now exists x|].
  apply nth_error_None in E. lia.
Qed.

Lemma index_nth {A} site (l : list A) i x : nth_error l i = Some x -> index site l i = Ok x.
Proof. unfold index. now intros ->. Qed.

Lemma index_ok {A} site (l : list A) i : i < List.length l -> exists x, index site l i = Ok x.
Proof. intros H. destruct (nth_error_lt l i H) as [x Hx]. exists x. now apply index_nth. Qed.

Lemma get_lt s : forall i, i < String.length s -> exists c, String.get i s = Some c.
Proof.
  induction s as [|a s IH]; simpl; intros i H; [lia|].
  destruct i as [|i]; [now exists a|]. apply IH. lia.
Qed.

Lemma char_at_ok site s i : i < String.length s -> exists c, char_at site s i = Ok c.
Proof. intros H. destruct (get_lt s i H) as [c Hc]. exists c. unfold char_at. now rewrite Hc. Qed.

Lemma str_slice_ok site s lo hi :
  lo <= hi -> hi <= String.length s -> exists r, str_slice site s lo hi = Ok r.
Proof.
  intros H1 H2. unfold str_slice.
  apply Nat.leb_le in H1. apply Nat.leb_le in H2. rewrite H1, H2. simpl. eauto.
Qed.

Lemma slice_to_ok {A} site (l : list A) i : i <= List.length l -> exists r, slice_to site l i = Ok r.
Proof. intros H. unfold slice_to. apply Nat.leb_le in H. rewrite H. eauto. Qed.

(* ---------- Subject.IsContainedIn ---------- *)
Lemma skipn_nth {A} (l : list A) : forall i x, nth_error l i = Some x -> skipn i l = x :: skipn (S i) l.
Proof.
  induction l as [|a l IH]; intros [|i] x H; simpl in H; try discriminate.
  - injection H as ->. reflexivity.
  - exact (IH i x H).
Qed.

Lemma nth_error_last {A} (d : A) (l : list A) :
  l <> [] -> nth_error l (List.length l - 1) = Some (last l d).
Proof.
  induction l as [|a l IH]; [congruence|]. intros _.
  destruct l as [|b l]; [reflexivity|].
  change (last (a :: b :: l) d) with (last (b :: l) d).
  rewrite <- IH by discriminate.
  simpl. rewrite Nat.sub_0_r. reflexivity.
Qed.

Lemma loop_agrees n my : forall other ind,
  ind + List.length other = n -> n <= List.length my ->
  ns_contained_loop other my ind n = Ok (contained_loop other (skipn ind my)).
Proof.
  induction other as [|tok orest IH]; intros ind Hn Hle; [reflexivity|].
  simpl in Hn.
  destruct (nth_error_lt my ind) as [myTok Hnth]; [lia|].
  cbn [ns_contained_loop].
  rewrite (index_nth _ _ _ _ Hnth). cbn [bind].
  rewrite (skipn_nth _ _ _ Hnth). cbn [contained_loop].
  assert (Nat.eqb ind (n - 1) = is_nil orest) as ->.
  { destruct orest; simpl in *; [apply Nat.eqb_eq; lia|apply Nat.eqb_neq; lia]. }
  destruct (is_nil orest && (tok =? ">")); [reflexivity|].
  destruct (negb (tok =? myTok) && (negb (tok =? "*") || (myTok =? ">"))); [reflexivity|].
  apply IH; lia.
Qed.

Lemma is_contained_in_agrees : forall s o, ns_is_contained_in s o = Ok (is_contained_in s o).
Proof.
  intros s o. unfold ns_is_contained_in, is_contained_in, contained_toks.
  pose proof (split_not_nil dot o) as Hne.
  set (oa := split dot o) in *. set (ma := split dot s) in *.
  rewrite (index_nth _ _ _ _ (nth_error_last "" oa Hne)). cbn [bind].
  destruct (Nat.ltb (List.length oa) (List.length ma) && negb (last oa "" =? ">")); [reflexivity|].
  destruct (Nat.ltb_spec (List.length ma) (List.length oa)) as [Hlt|Hge]; [reflexivity|].
  rewrite (loop_agrees (List.length oa) ma oa 0); [reflexivity|lia|lia].
Qed.

Lemma no_panic_is_contained_in : forall s o, exists b, ns_is_contained_in s o = Ok b.
Proof. intros s o. eexists. apply is_contained_in_agrees. Qed.

(* ---------- Subject.Validate ---------- *)
Lemma no_panic_subject_validate : forall v, exists n, ns_subject_validate v = Ok n.
Proof.
  intros v. unfold ns_subject_validate.
  destruct (v =? "") eqn:E; [eauto|].
  assert (1 <= String.length v) as Hl.
  { destruct v; [discriminate|simpl; lia]. }
  destruct (char_at_ok "Subject.Validate: v[0]" v 0) as [c0 H0]; [lia|].
  destruct (char_at_ok "Subject.Validate: v[len(v)-1]" v (String.length v - 1)) as [cl H1]; [lia|].
  rewrite H0. cbn [bind]. rewrite H1. cbn [bind]. eauto.
Qed.

(* ---------- Export.Validate ---------- *)
Lemma no_panic_export_token_position :
  forall subject atp, exists n, ns_export_token_position subject atp = Ok n.
Proof.
  intros subject atp. unfold ns_export_token_position.
  destruct (Nat.ltb_spec 0 atp) as [Hpos|_]; [|eauto].
  destruct (negb (has_wildcards subject)); [eauto|].
  cbv zeta.
  destruct (Nat.ltb_spec (List.length (split dot subject)) atp) as [_|Hge]; [eauto|].
  destruct (index_ok "Export.Validate: token[AccountTokenPosition-1]" (split dot subject) (atp - 1))
    as [tk Htk]; [lia|].
  rewrite Htk. cbn [bind]. eauto.
Qed.

(* ---------- RenamingSubject ---------- *)
Lemma ns_ref_token_ok tk : exists r, ns_ref_token tk = Ok r.
Proof.
  unfold ns_ref_token.
  destruct (Nat.ltb_spec (String.length tk) 2) as [_|Hge]; [eauto|].
  destruct (char_at_ok "RenamingSubject: tk[0]" tk 0) as [c Hc]; [lia|].
  rewrite Hc. cbn [bind].
  destruct (Ascii.eqb c "$"%char); [|eauto].
  destruct (str_slice_ok "RenamingSubject: tk[1:]" tk 1 (String.length tk)) as [r Hr]; [lia|lia|].
  rewrite Hr. cbn [bind]. eauto.
Qed.

Lemma ns_refs_ok toks : exists l, ns_refs toks = Ok l.
Proof.
  induction toks as [|tk r [rest IH]]; [simpl; eauto|].
  cbn [ns_refs]. destruct (ns_ref_token_ok tk) as [x Hx].
  rewrite Hx. cbn [bind]. rewrite IH. cbn [bind]. eauto.
Qed.

Lemma no_panic_renaming : forall v, exists l, ns_renaming v = Ok l.
Proof. intros v. apply ns_refs_ok. Qed.

(* ---------- cleanSubject ---------- *)
Lemma ns_find_wc_bound l : forall k i, ns_find_wc l k = Some i -> k <= i < k + List.length l.
Proof.
  induction l as [|t r IH]; intros k i H; simpl in H; [discriminate|].
  destruct ((t =? "*") || (t =? ">")).
  - injection H as <-. simpl. lia.
  - apply IH in H. simpl. lia.
Qed.

Lemma no_panic_clean_subject : forall s, exists r, ns_clean_subject s = Ok r.
Proof.
  intros s. unfold ns_clean_subject. cbv zeta.
  destruct (ns_find_wc (split dot s) 0) as [i|] eqn:E; [|eauto].
  destruct i as [|i]; [eauto|].
  apply ns_find_wc_bound in E.
  destruct (slice_to_ok "cleanSubject: split[:i]" (split dot s) (S i)) as [pre Hp]; [lia|].
  rewrite Hp. cbn [bind]. eauto.
Qed.

(* ---------- lists of entries with null entries ---------- *)
Lemma no_panic_entries_validate : forall l : list entry, exists n, ns_entries_validate l = Ok n.
Proof.
  induction l as [|p r [n IH]]; [simpl; eauto|].
  destruct p as [e|]; cbn [ns_entries_validate deref bind]; rewrite IH; cbn [bind]; eauto.
Qed.

Lemma no_panic_wildcard_loop : forall l : list entry, exists n, ns_wildcard_loop l = Ok n.
Proof.
  induction l as [|p r [n IH]]; [simpl; eauto|].
  cbn [ns_wildcard_loop]. rewrite IH. cbn [bind].
  destruct p as [e|]; cbn [deref bind]; eauto.
Qed.

Lemma no_panic_has_export_containing :
  forall subject (l : list entry), exists b, ns_has_export_containing subject l = Ok b.
Proof.
  intros subject. induction l as [|p r [b IH]]; [simpl; eauto|].
  cbn [ns_has_export_containing].
  destruct p as [e|]; [|eauto].
  cbn [deref bind]. rewrite is_contained_in_agrees. cbn [bind].
  destruct (is_contained_in subject (fst e)); eauto.
Qed.

Lemma ns_less_ok (a b : entry) : exists r, ns_less a b = Ok r.
Proof. destruct a, b; simpl; eauto. Qed.

Lemma ns_insert_ok (e : entry) (l : list entry) : exists r, ns_insert e l = Ok r.
Proof.
  induction l as [|x r [r' IH]]; [simpl; eauto|].
  cbn [ns_insert]. destruct (ns_less_ok e x) as [lt Hlt]. rewrite Hlt. cbn [bind].
  destruct lt; [eauto|]. rewrite IH. cbn [bind]. eauto.
Qed.

Lemma no_panic_sort : forall l : list entry, exists s, ns_sort l = Ok s.
Proof.
  induction l as [|e r [s IH]]; [simpl; eauto|].
  cbn [ns_sort]. rewrite IH. cbn [bind]. apply ns_insert_ok.
Qed.

(* ---------- maps that decoding may leave nil ---------- *)
Lemma no_panic_rehome : forall data tp tags, exists d, ns_rehome data tp tags = Ok d.
Proof.
  intros data tp tags. unfold ns_rehome.
  destruct data, (negb (tp =? "")), tags; simpl; eauto.
Qed.

Lemma no_panic_add_mapping : forall m sub, exists r, ns_add_mapping m sub = Ok r.
Proof. intros m sub. unfold ns_add_mapping. destruct m; simpl; eauto. Qed.

Lemma no_panic_revoke_clear :
  forall m k, (exists r, ns_revoke_at m k = Ok r) /\ (exists r, ns_clear_revocation m k = Ok r).
Proof.
  intros m k. split.
  - unfold ns_revoke_at. destruct m; simpl; eauto.
  - unfold ns_clear_revocation. eauto.
Qed.

(* ---------- DecorateSeed ---------- *)
Lemma no_panic_decorate_seed : forall seed, exists r, ns_decorate_seed seed = Ok r.
Proof.
  intros seed. unfold ns_decorate_seed. cbv zeta.
  destruct (Nat.ltb_spec (String.length (trim_space seed)) 2) as [_|Hge]; [eauto|].
  destruct (str_slice_ok "DecorateSeed: ts[0:2]" (trim_space seed) 0 2) as [pre Hp]; [lia|lia|].
  rewrite Hp. cbn [bind]. eauto.
Qed.

(* ---------- ParseDecoratedJWT / ParseDecoratedNKey ---------- *)
Lemma index_1_of_3 site (it : list string) :
  List.length it = 3%nat -> exists x, index site it 1 = Ok x.
Proof. intros H. apply index_ok. lia. Qed.

Lemma no_panic_parse_decorated : forall contents items,
  Forall (fun it => List.length it = 3%nat) items ->
  (exists r, ns_parse_decorated_jwt contents items = Ok r) /\
  (exists r, ns_parse_decorated_nkey items = Ok r).
Proof.
  intros contents items HF. split.
  - unfold ns_parse_decorated_jwt.
    destruct items as [|it0 rest]; [simpl; eauto|].
    inversion HF as [|? ? H0 _]; subst.
    cbn [List.length Nat.eqb index nth_error bind].
    now apply index_1_of_3.
  - unfold ns_parse_decorated_nkey.
    destruct (Nat.ltb_spec 1 (List.length items)) as [Hlt|_]; [|eauto].
    destruct (nth_error_lt items 1 Hlt) as [it Hit].
    rewrite (index_nth _ _ _ _ Hit). cbn [bind].
    assert (List.length it = 3%nat) as H3.
    { rewrite Forall_forall in HF. apply HF. eapply nth_error_In; eauto. }
    destruct (index_1_of_3 "ParseDecoratedNKey: items[1][1]" it H3) as [x Hx].
    rewrite Hx. cbn [bind]. eauto.
Qed.

(* ---------- nil claims ---------- *)
Lemma no_panic_nil_claims : forall c1 c2 id,
  (exists b, ns_did_sign c1 id = Ok b) /\ (exists b, ns_is_claim_revoked c2 = Ok b).
Proof.
  intros c1 c2 id. split.
  - destruct c1; simpl; eauto.
  - destruct c2; simpl; eauto.
Qed.

Lemma ns_to_subject_token_ok tk : exists r, ns_to_subject_token tk = Ok r.
Proof.
  unfold ns_to_subject_token. destruct (Nat.ltb_spec 1 (String.length tk)) as [Hl|Hl].
  - destruct (char_at_ok "ToSubject: tk[0]" tk 0) as [c Hc]; [lia|]. rewrite Hc. cbn. eauto.
  - eauto.
Qed.
Lemma ns_to_subject_toks_ok toks : exists n, ns_to_subject_toks toks = Ok n.
Proof.
  induction toks as [|tk r IH]; cbn [ns_to_subject_toks]; [eauto|].
  destruct (ns_to_subject_token_ok tk) as [b Hb]. rewrite Hb. cbn.
  destruct IH as [n Hn]. rewrite Hn. cbn. eauto.
Qed.
Lemma no_panic_to_subject : forall s, exists n, ns_to_subject s = Ok n.
Proof.
  intros s. unfold ns_to_subject. destruct (negb (contains "$" s)); [eauto|apply ns_to_subject_toks_ok].
Qed.
