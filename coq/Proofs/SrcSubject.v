(* Proofs/SrcSubject.v — functions translated from the Go source on this run (Gen/SrcSubject.v) are equal to the
   hand-written model functions the property theorems are about. *)
From JWT Require Import Base.GoSem Proofs.SrcBase Gen.SrcSubject Model.Subject Model.Validate.
Open Scope string_scope.
Open Scope list_scope.

(* ---------- Subject.HasWildCards ---------- *)
Lemma src_has_wildcards s : V2.Subject_HasWildCards s = has_wildcards s.
Proof. reflexivity. Qed.
Lemma src_v1_has_wildcards s : V1.Subject_HasWildCards s = has_wildcards s.
Proof. reflexivity. Qed.

(* ---------- Subject.IsContainedIn ---------- *)
Section Contained.
  Variables my other : list string.
  Definition cbody (ind : Z) (tok : string) (_ : unit) : ctl unit bool :=
    let myTok := go_idx my ind in
    if ((ind =? go_llen other - 1)%Z && (tok =? ">")%string)
    then Ret true
    else if (negb (tok =? myTok)%string && (negb (tok =? "*")%string || (myTok =? ">")%string))
         then Ret false else Cont tt.

  (* the loop from position [length pre], with the model's loop on the remaining tokens *)
  Lemma cloop : forall (orest mrest pre mpre : list string),
    other = pre ++ orest -> my = mpre ++ mrest -> length pre = length mpre ->
    (length orest <= length mrest)%nat ->
    match go_range cbody (Z.of_nat (length pre)) orest tt with inr r => r | inl _ => true end
    = contained_loop orest mrest.
  Proof.
    induction orest as [|tok orest IH]; intros mrest pre mpre Ho Hm Hl Hlen.
    - reflexivity.
    - destruct mrest as [|myTok mrest]; [simpl in Hlen; lia|].
      cbn [go_range contained_loop]. unfold cbody at 1.
      assert (Hidx : go_idx my (Z.of_nat (length pre)) = myTok).
      { unfold go_idx. rewrite Nat2Z.id, Hm, Hl, app_nth2, Nat.sub_diag by lia. reflexivity. }
      rewrite Hidx.
      assert (Hlast : (Z.of_nat (length pre) =? go_llen other - 1)%Z = is_nil orest).
      { unfold go_llen. rewrite Ho, app_length. cbn [length].
        destruct orest as [|a b]; cbn [is_nil length].
        - apply Z.eqb_eq. lia.
        - apply Z.eqb_neq. lia. }
      rewrite Hlast.
      destruct (is_nil orest && (tok =? ">")); [reflexivity|].
      destruct (negb (tok =? myTok) && (negb (tok =? "*") || (myTok =? ">"))); [reflexivity|].
      replace (Z.of_nat (length pre) + 1)%Z with (Z.of_nat (length (pre ++ [tok]))) by (rewrite app_length; simpl; lia).
      apply (IH mrest (pre ++ [tok]) (mpre ++ [myTok])).
      + rewrite <- app_assoc. exact Ho.
      + rewrite <- app_assoc. exact Hm.
      + rewrite !app_length. simpl. lia.
      + simpl in Hlen. lia.
  Qed.
End Contained.

Lemma src_contained_toks (my other : list string) : other <> [] ->
  (if ((go_llen my >? go_llen other)%Z && negb (go_idx other (go_llen other - 1) =? ">")%string)
   then false
   else if (go_llen my <? go_llen other)%Z then false
   else match go_range (cbody my other) 0%Z other tt with inr r => r | inl _ => true end)
  = contained_toks my other.
Proof.
  intros Hne. unfold contained_toks. rewrite go_idx_last by exact Hne.
  assert (H1 : (go_llen my >? go_llen other)%Z = (length other <? length my)%nat).
  { unfold go_llen. destruct (Nat.ltb_spec (length other) (length my)); [apply Z.gtb_lt|rewrite Z.gtb_ltb; apply Z.ltb_ge]; lia. }
  assert (H2 : (go_llen my <? go_llen other)%Z = (length my <? length other)%nat).
  { unfold go_llen. destruct (Nat.ltb_spec (length my) (length other)); [apply Z.ltb_lt|apply Z.ltb_ge]; lia. }
  rewrite H1, H2.
  destruct ((length other <? length my)%nat && negb (last other "" =? ">")); [reflexivity|].
  destruct (Nat.ltb_spec (length my) (length other)) as [|Hge]; [reflexivity|].
  apply (cloop my other other my [] []); auto.
Qed.

Lemma src_is_contained_in s o : V2.Subject_IsContainedIn s o = is_contained_in s o.
Proof.
  unfold V2.Subject_IsContainedIn, is_contained_in. cbv zeta. rewrite !go_split_dot.
  apply (src_contained_toks (split dot s) (split dot o)). apply split_not_nil.
Qed.
Lemma src_v1_is_contained_in s o : V1.Subject_IsContainedIn s o = is_contained_in s o.
Proof.
  unfold V1.Subject_IsContainedIn, is_contained_in. cbv zeta. rewrite !go_split_dot.
  apply (src_contained_toks (split dot s) (split dot o)). apply split_not_nil.
Qed.

(* ---------- Subject.countTokenWildcards ---------- *)
Definition cntbody (_ : Z) (t : string) (cnt : Z) : ctl Z Z :=
  Cont (if (t =? "*")%string then (cnt + 1)%Z else cnt).
Lemma cntloop : forall (l : list string) (i cnt : Z),
  go_range (R:=Z) cntbody i l cnt = inl (cnt + Z.of_nat (length (filter (fun t => (t =? "*")%string) l)))%Z.
Proof.
  induction l as [|t l IH]; intros i cnt.
  - cbn. f_equal. lia.
  - cbn [go_range filter]. unfold cntbody at 1. destruct (t =? "*").
    + rewrite IH. f_equal. cbn [length]. lia.
    + rewrite IH. reflexivity.
Qed.
Lemma src_count_wild_tokens s : V2.Subject_countTokenWildcards s = count_wild_tokens s.
Proof.
  unfold V2.Subject_countTokenWildcards, count_wild_tokens. cbv zeta.
  destruct (s =? "*"); [reflexivity|].
  rewrite go_split_dot. change (go_range _ 0%Z (split dot s) 0%Z) with (go_range (R:=Z) cntbody 0%Z (split dot s) 0%Z).
  rewrite cntloop. reflexivity.
Qed.


(* ---------- Exports.HasExportContainingSubject (both libraries): some entry of the list that is there holds a subject
   containing the one asked for - whatever the entries are (the export is an opaque value: its subject and whether it
   is nil are all the code looks at) ---------- *)
Section HasExport.
  Context {V : Type} (vnil : V) (subj_of : V -> string) (is_nil_v : V -> bool).
  Lemma src_has_export_loop : forall (l : list V) (i : Z) (subject : string),
    go_range (R:=bool) (fun (_ : Z) (s : V) (go_st : unit) =>
       if negb (is_nil_v s) && V2.Subject_IsContainedIn subject (subj_of s) then Ret true else Cont tt) i l tt
    = if existsb (fun e => negb (is_nil_v e) && is_contained_in subject (subj_of e)) l then inr true else inl tt.
  Proof.
    induction l as [|e l IH]; intros i subject; [reflexivity|].
    cbn [go_range existsb]. rewrite src_is_contained_in.
    destruct (negb (is_nil_v e) && is_contained_in subject (subj_of e)); [reflexivity|]. cbn [orb]. apply IH.
  Qed.
  Lemma src_has_export_containing (l : list V) (subject : string) :
    V2.Exports_HasExportContainingSubject V vnil subj_of is_nil_v l subject
    = existsb (fun e => negb (is_nil_v e) && is_contained_in subject (subj_of e)) l.
  Proof.
    unfold V2.Exports_HasExportContainingSubject. rewrite src_has_export_loop.
    destruct (existsb _ l); reflexivity.
  Qed.
  Lemma src_v1_has_export_loop : forall (l : list V) (i : Z) (subject : string),
    go_range (R:=bool) (fun (_ : Z) (s : V) (go_st : unit) =>
       if negb (is_nil_v s) && V1.Subject_IsContainedIn subject (subj_of s) then Ret true else Cont tt) i l tt
    = if existsb (fun e => negb (is_nil_v e) && is_contained_in subject (subj_of e)) l then inr true else inl tt.
  Proof.
    induction l as [|e l IH]; intros i subject; [reflexivity|].
    cbn [go_range existsb]. rewrite src_v1_is_contained_in.
    destruct (negb (is_nil_v e) && is_contained_in subject (subj_of e)); [reflexivity|]. cbn [orb]. apply IH.
  Qed.
  Lemma src_v1_has_export_containing (l : list V) (subject : string) :
    V1.Exports_HasExportContainingSubject V vnil subj_of is_nil_v l subject
    = existsb (fun e => negb (is_nil_v e) && is_contained_in subject (subj_of e)) l.
  Proof.
    unfold V1.Exports_HasExportContainingSubject. rewrite src_v1_has_export_loop.
    destruct (existsb _ l); reflexivity.
  Qed.
End HasExport.

(* ---------- RenamingSubject.ToSubject: every token that is a reference - a dollar sign followed by an integer - reads
   as the wildcard *, every other token stays; strconv.Atoi is an unknown function of its text, here the model's atoi.
   (strings.Builder is the text written into it so far.) ---------- *)
From JWT Require Import Model.Validate.
Definition o_atoi_err (r : string) : option string := match atoi r with Some _ => None | None => Some "invalid syntax" end.
Definition conv_tok (tk : string) : string := match ref_token tk with Some _ => "*" | None => tk end.

Lemma substring_all (s : string) : substring 0 (String.length s) s = s.
Proof. induction s as [|x s IH]; [reflexivity|]. cbn [String.length substring]. now rewrite IH. Qed.
Lemma is_ref_spec (tk : string) :
  (if ((go_slen tk >? 1)%Z && (go_sbyte tk 0 =? 36)%Z)
   then (if go_err_isnil (o_atoi_err (go_substr tk 1 (go_slen tk))) then true else false) else false)
  = match ref_token tk with Some _ => true | None => false end.
Proof.
  unfold ref_token, go_slen. destruct tk as [|c r]; [reflexivity|].
  destruct r as [|c2 r2].
  - cbn [String.length Nat.ltb Nat.leb]. replace (Z.of_nat 1 >? 1)%Z with false by reflexivity. reflexivity.
  - replace (Nat.ltb (String.length (String c (String c2 r2))) 2) with false by reflexivity.
    replace (Z.of_nat (String.length (String c (String c2 r2))) >? 1)%Z with true
      by (symmetry; apply Z.gtb_lt; cbn [String.length]; lia).
    cbn [andb].
    assert (Hsub : go_substr (String c (String c2 r2)) 1 (Z.of_nat (String.length (String c (String c2 r2)))) = String c2 r2).
    { unfold go_substr. rewrite Nat2Z.id. change (Z.to_nat 1) with 1%nat. cbn [String.length Nat.sub substring].
      f_equal. apply substring_all. }
    rewrite Hsub. unfold go_sbyte. cbn [Z.to_nat go_sbyte_nat].
    destruct (Ascii.eqb_spec c "$"%char) as [->|Hne].
    + replace (Z.of_nat (nat_of_ascii "$") =? 36)%Z with true by reflexivity. unfold o_atoi_err.
      destruct (atoi (String c2 r2)); reflexivity.
    + assert (Hz : (Z.of_nat (nat_of_ascii c) =? 36)%Z = false).
      { apply Z.eqb_neq. intros H. apply Hne. apply (f_equal Z.to_nat) in H. rewrite Nat2Z.id in H.
        change (Z.to_nat 36) with (nat_of_ascii "$"%char) in H.
        rewrite <- (ascii_nat_embedding c), <- (ascii_nat_embedding "$"%char). now f_equal. }
      rewrite Hz. destruct c as [[] [] [] [] [] [] [] []]; try reflexivity. exfalso; apply Hne; reflexivity.
Qed.

Definition tsbody (n : Z) (i : Z) (tk : string) (bldr : string) : ctl string string :=
  let convert := if ((go_slen tk >? 1)%Z && (go_sbyte tk 0 =? 36)%Z)
                 then (if go_err_isnil (o_atoi_err (go_substr tk 1 (go_slen tk))) then true else false) else false in
  let bldr := if convert then (bldr ++ "*")%string else (bldr ++ tk)%string in
  Cont (if negb (i =? n - 1)%Z then (bldr ++ ".")%string else bldr).

Lemma str_app_assoc' (a b c : string) : ((a ++ b) ++ c)%string = (a ++ b ++ c)%string.
Proof. induction a as [|x a IH]; [reflexivity|]. cbn. now rewrite IH. Qed.
Lemma str_app_nil_r' (s : string) : (s ++ "")%string = s.
Proof. induction s as [|c s IH]; [reflexivity|]. cbn. now rewrite IH. Qed.

Lemma tsloop (n : Z) : forall (l : list string) (i : Z) (bldr : string), (i + Z.of_nat (List.length l) = n)%Z ->
  go_range (R:=string) (tsbody n) i l bldr = inl (bldr ++ join dot (map conv_tok l))%string.
Proof.
  induction l as [|tk l IH]; intros i bldr Hn; [cbn; now rewrite str_app_nil_r'|].
  cbn [go_range map]. unfold tsbody at 1. cbv zeta. rewrite is_ref_spec. unfold conv_tok at 1.
  destruct l as [|tk2 l2].
  - cbn [List.length] in Hn. replace (i =? n - 1)%Z with true by (symmetry; apply Z.eqb_eq; lia). cbn [negb go_range join map].
    destruct (ref_token tk); reflexivity.
  - replace (i =? n - 1)%Z with false by (symmetry; apply Z.eqb_neq; cbn [List.length] in Hn; lia). cbn [negb].
    rewrite IH by (cbn [List.length] in *; lia).
    change (join dot (match ref_token tk with Some _ => "*" | None => tk end :: map conv_tok (tk2 :: l2)))
      with ((match ref_token tk with Some _ => "*" | None => tk end) ++ String dot (join dot (map conv_tok (tk2 :: l2))))%string.
    destruct (ref_token tk); rewrite !str_app_assoc'; reflexivity.
Qed.

Lemma src_to_subject (s : string) : V2.RenamingSubject_ToSubject o_atoi_err s = to_subject s.
Proof.
  unfold V2.RenamingSubject_ToSubject, to_subject. cbv zeta. destruct (negb (contains "$" s)); [reflexivity|].
  rewrite go_split_dot.
  change (go_range _ 0%Z (split dot s) "") with (go_range (R:=string) (tsbody (go_llen (split dot s))) 0%Z (split dot s) "").
  rewrite tsloop by (unfold go_llen; lia). reflexivity.
Qed.
