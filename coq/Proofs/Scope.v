(* Proofs/Scope.v — proofs for C14 (scoped signing keys, IssueUserJWT):
   val_eqb decides equality; the issued user claims are a closed structure
   around a few symbolic leaves, on which getp / setp compute. *)
From JWT Require Import Base.Codec Model.Claims Model.Scope.
Open Scope string_scope.
Open Scope Z_scope.

(* ====================================================================== *)
(* 1. strong induction on the nested value type                            *)
(* ====================================================================== *)
Section ValSInd.
  Variable P : val -> Prop.
  Hypothesis Hbool : forall b, P (VBool b).
  Hypothesis Hint : forall z, P (VInt z).
  Hypothesis Hstr : forall s, P (VStr s).
  Hypothesis HlistN : P (VList None).
  Hypothesis Hlist : forall l, Forall P l -> P (VList (Some l)).
  Hypothesis HmapN : P (VMap None).
  Hypothesis Hmap : forall m, Forall (fun kv : string * val => P (snd kv)) m -> P (VMap (Some m)).
  Hypothesis HptrN : P (VPtr None).
  Hypothesis Hptr : forall x, P x -> P (VPtr (Some x)).
  Hypothesis Hstruct : forall l, Forall P l -> P (VStruct l).
  Hypothesis Hany : forall j, P (VAny j).
  Fixpoint val_sind (v : val) : P v :=
    match v with
    | VBool b => Hbool b
    | VInt z => Hint z
    | VStr s => Hstr s
    | VList None => HlistN
    | VList (Some l) =>
        Hlist l ((fix go (l : list val) : Forall P l :=
                    match l with [] => Forall_nil _ | x :: r => Forall_cons _ (val_sind x) (go r) end) l)
    | VMap None => HmapN
    | VMap (Some m) =>
        Hmap m ((fix go (m : list (string * val)) : Forall (fun kv : string * val => P (snd kv)) m :=
                   match m with [] => Forall_nil _ | x :: r => Forall_cons _ (val_sind (snd x)) (go r) end) m)
    | VPtr None => HptrN
    | VPtr (Some x) => Hptr x (val_sind x)
    | VStruct l =>
        Hstruct l ((fix go (l : list val) : Forall P l :=
                      match l with [] => Forall_nil _ | x :: r => Forall_cons _ (val_sind x) (go r) end) l)
    | VAny j => Hany j
    end.
End ValSInd.

(* ====================================================================== *)
(* 2. json_eqb and val_eqb decide equality                                 *)
(* ====================================================================== *)
Definition jeqb_list : list json -> list json -> bool :=
  fix go (x y : list json) : bool :=
    match x, y with
    | [], [] => true
    | a :: r, b :: s => json_eqb a b && go r s
    | _, _ => false
    end.
Definition jeqb_obj : list (string * json) -> list (string * json) -> bool :=
  fix go (x y : list (string * json)) : bool :=
    match x, y with
    | [], [] => true
    | (k, a) :: r, (k', b) :: s => (k =? k')%string && json_eqb a b && go r s
    | _, _ => false
    end.

Lemma jeqb_list_true x : Forall (fun a => forall b, json_eqb a b = true -> a = b) x ->
  forall y, jeqb_list x y = true -> x = y.
Proof.
  induction 1 as [|a r Ha Hr IH]; intros [|b s] E; simpl in E; try discriminate E; [reflexivity|].
  apply andb_true_iff in E as [E1 E2]. f_equal; [apply Ha; exact E1 | apply IH; exact E2].
Qed.
Lemma jeqb_obj_true x : Forall (fun kv : string * json => forall b, json_eqb (snd kv) b = true -> snd kv = b) x ->
  forall y, jeqb_obj x y = true -> x = y.
Proof.
  induction 1 as [|[k a] r Ha Hr IH]; intros [|[k' b] s] E; simpl in E; try discriminate E; [reflexivity|].
  apply andb_true_iff in E as [E E3]. apply andb_true_iff in E as [E1 E2].
  apply String.eqb_eq in E1. apply Ha in E2. simpl in E2. apply IH in E3. congruence.
Qed.

Lemma json_eqb_true : forall a b, json_eqb a b = true -> a = b.
Proof.
  induction a as [| x | x | x | x | l IH | l IH] using json_ind'; intros b E; destruct b; simpl in E; try discriminate E.
  - reflexivity.
  - apply Bool.eqb_prop in E. congruence.
  - apply Z.eqb_eq in E. congruence.
  - apply String.eqb_eq in E. congruence.
  - apply String.eqb_eq in E. congruence.
  - f_equal. apply jeqb_list_true; assumption.
  - f_equal. apply jeqb_obj_true; assumption.
Qed.

Lemma json_eqb_refl : forall a, json_eqb a a = true.
Proof.
  induction a as [| x | x | x | x | l IH | l IH] using json_ind'; simpl.
  - reflexivity.
  - apply Bool.eqb_reflx.
  - apply Z.eqb_refl.
  - apply String.eqb_refl.
  - apply String.eqb_refl.
  - induction IH as [|a r Ha Hr IH]; [reflexivity|]. rewrite Ha. exact IH.
  - induction IH as [|[k a] r Ha Hr IH]; [reflexivity|]. simpl in Ha. rewrite String.eqb_refl, Ha. exact IH.
Qed.

Lemma json_eqb_true_iff a b : json_eqb a b = true <-> a = b.
Proof. split; [apply json_eqb_true | intros ->; apply json_eqb_refl]. Qed.

Definition veqb_list : list val -> list val -> bool :=
  fix go (x y : list val) : bool :=
    match x, y with
    | [], [] => true
    | a :: r, b :: s => val_eqb a b && go r s
    | _, _ => false
    end.
Definition veqb_map : list (string * val) -> list (string * val) -> bool :=
  fix go (x y : list (string * val)) : bool :=
    match x, y with
    | [], [] => true
    | (k, a) :: r, (k', b) :: s => (k =? k')%string && val_eqb a b && go r s
    | _, _ => false
    end.

Lemma veqb_list_true x : Forall (fun a => forall b, val_eqb a b = true -> a = b) x ->
  forall y, veqb_list x y = true -> x = y.
Proof.
  induction 1 as [|a r Ha Hr IH]; intros [|b s] E; simpl in E; try discriminate E; [reflexivity|].
  apply andb_true_iff in E as [E1 E2]. f_equal; [apply Ha; exact E1 | apply IH; exact E2].
Qed.
Lemma veqb_map_true x : Forall (fun kv : string * val => forall b, val_eqb (snd kv) b = true -> snd kv = b) x ->
  forall y, veqb_map x y = true -> x = y.
Proof.
  induction 1 as [|[k a] r Ha Hr IH]; intros [|[k' b] s] E; simpl in E; try discriminate E; [reflexivity|].
  apply andb_true_iff in E as [E E3]. apply andb_true_iff in E as [E1 E2].
  apply String.eqb_eq in E1. apply Ha in E2. simpl in E2. apply IH in E3. congruence.
Qed.

Lemma val_eqb_true : forall a b, val_eqb a b = true -> a = b.
Proof.
  induction a as [x | x | x | | l IH | | m IH | | x IH | l IH | j] using val_sind; intros b E.
  - destruct b; simpl in E; try discriminate E. apply Bool.eqb_prop in E. congruence.
  - destruct b; simpl in E; try discriminate E. apply Z.eqb_eq in E. congruence.
  - destruct b; simpl in E; try discriminate E. apply String.eqb_eq in E. congruence.
  - destruct b as [| | | [l'|] | | | |]; simpl in E; try discriminate E. reflexivity.
  - destruct b as [| | | [l'|] | | | |]; simpl in E; try discriminate E.
    do 2 f_equal. apply veqb_list_true; assumption.
  - destruct b as [| | | | [m'|] | | |]; simpl in E; try discriminate E. reflexivity.
  - destruct b as [| | | | [m'|] | | |]; simpl in E; try discriminate E.
    do 2 f_equal. apply veqb_map_true; assumption.
  - destruct b as [| | | | | [y|] | |]; simpl in E; try discriminate E. reflexivity.
  - destruct b as [| | | | | [y|] | |]; simpl in E; try discriminate E.
    do 2 f_equal. apply IH; exact E.
  - destruct b; simpl in E; try discriminate E.
    f_equal. apply veqb_list_true; assumption.
  - destruct j as [j|]; destruct b as [| | | | | | | [j'|]]; simpl in E; try discriminate E.
    + apply json_eqb_true in E. congruence.
    + reflexivity.
Qed.

Lemma val_eqb_refl : forall a, val_eqb a a = true.
Proof.
  induction a as [x | x | x | | l IH | | m IH | | x IH | l IH | j] using val_sind; simpl.
  - apply Bool.eqb_reflx.
  - apply Z.eqb_refl.
  - apply String.eqb_refl.
  - reflexivity.
  - induction IH as [|a r Ha Hr IH]; [reflexivity|]. rewrite Ha. exact IH.
  - reflexivity.
  - induction IH as [|[k a] r Ha Hr IH]; [reflexivity|]. simpl in Ha. rewrite String.eqb_refl, Ha. exact IH.
  - reflexivity.
  - exact IH.
  - induction IH as [|a r Ha Hr IH]; [reflexivity|]. rewrite Ha. exact IH.
  - destruct j; [apply json_eqb_refl | reflexivity].
Qed.

Lemma val_eqb_true_iff a b : val_eqb a b = true <-> a = b.
Proof. split; [apply val_eqb_true | intros ->; apply val_eqb_refl]. Qed.

(* ====================================================================== *)
(* 3. ValidateScopedSigner                                                 *)
(* ====================================================================== *)
Theorem scoped_signer_iff : forall scope_key k iss upl,
  validate_scoped_signer scope_key k iss upl = true <->
  (k = KUser /\ iss = scope_key /\ upl = zero_val upl_ty).
Proof.
  intros scope_key k iss upl. unfold validate_scoped_signer, has_empty_permissions.
  rewrite !andb_true_iff, ckind_eqb_eq, String.eqb_eq, val_eqb_true_iff. tauto.
Qed.

(* ====================================================================== *)
(* 4. IssueUserJWT                                                         *)
(* ====================================================================== *)
Theorem issue_user_roles : forall ar ur sr,
  issue_user_ok ar ur sr = true <-> (ar = RAccount /\ ur = RUser /\ sr = RAccount).
Proof.
  intros ar ur sr. unfold issue_user_ok.
  rewrite !andb_true_iff, !role_eqb_eq. tauto.
Qed.

Theorem issue_user_refused : forall ar ur acct user name now_ns d tags,
  (ar <> RAccount \/ ur <> RUser) -> issue_user_claims ar ur acct user name now_ns d tags = None.
Proof.
  intros ar ur acct user name now_ns d tags H. unfold issue_user_claims.
  destruct (role_eqb ar RAccount) eqn:Ea; [|reflexivity].
  destruct (role_eqb ur RUser) eqn:Eu; [|reflexivity].
  apply role_eqb_eq in Ea, Eu. destruct H as [H|H]; contradiction.
Qed.

(* the shape of a typed struct value, as a stand-alone list function *)
Definition ht_fields : list (string * bool * ty) -> list val -> bool :=
  fix go (fs : list (string * bool * ty)) (vs : list val) : bool :=
    match fs, vs with
    | [], [] => true
    | (_, _, ft) :: fr, fv :: vr => has_type ft fv && go fr vr
    | _, _ => false
    end.
Lemma ht_struct_intro fs vs : ht_fields fs vs = true -> has_type (TStruct fs) (VStruct vs) = true.
Proof. intros H; exact H. Qed.
Lemma ht_fields_cons n o ft fr x vr :
  has_type ft x = true -> ht_fields fr vr = true -> ht_fields ((n, o, ft) :: fr) (x :: vr) = true.
Proof. intros H1 H2. simpl. rewrite H1. exact H2. Qed.
Lemma ht_fields_nil : ht_fields [] [] = true.
Proof. reflexivity. Qed.

(* closing has_type goals on a computed value with symbolic leaves: the leaves'
   facts are hypotheses; never compute a has_type with a symbolic leaf *)
Ltac close_typed :=
  first
    [ match goal with H : has_type _ ?x = true |- has_type _ ?x = true => exact H end
    | match goal with
      | |- has_type ?t (VStruct ?l) = true =>
          let t' := eval hnf in t in
          lazymatch t' with
          | TStruct _ =>
              change (has_type t' (VStruct l) = true); apply ht_struct_intro;
              repeat (apply ht_fields_cons; [close_typed|]); apply ht_fields_nil
          end
      end
    | reflexivity ].

Theorem issue_user_claims_spec : forall ar ur acct user name now_ns d tags c,
  has_type (TList TStr) tags = true ->
  -9223372036854775808 <= (now_ns + d) / 1000000000 <= 9223372036854775807 ->
  issue_user_claims ar ur acct user name now_ns d tags = Some c ->
  ar = RAccount /\ ur = RUser /\
  getp sch_user ["sub"] c = Some (VStr user) /\
  getp sch_user ["nats"; "issuer_account"] c = Some (VStr acct) /\
  getp sch_user ["name"] c = Some (VStr (if (name =? "")%string then user else name)) /\
  getp sch_user ["nats"; "tags"] c = Some tags /\
  getp sch_user ["exp"] c = Some (VInt (if d =? 0 then 0 else (now_ns + d) / 1000000000)) /\
  has_empty_permissions (upl_of_user c) = true /\
  has_type sch_user c = true.
Proof.
  intros ar ur acct user name now_ns d tags c Ht Hr H. unfold issue_user_claims in H.
  destruct (role_eqb ar RAccount) eqn:Ea; [|discriminate H].
  destruct (role_eqb ur RUser) eqn:Eu; [|discriminate H].
  apply role_eqb_eq in Ea, Eu. cbn [negb] in H. cbv iota in H.
  injection H as <-.
  split; [exact Ea|]. split; [exact Eu|]. clear Ea Eu ar ur.
  (* the symbolic leaves *)
  set (e := (now_ns + d) / 1000000000) in *.
  set (n := if (name =? "")%string then user else name).
  assert (He : has_type (TInt (-9223372036854775808) 9223372036854775807) (VInt e) = true).
  { simpl. apply andb_true_iff. split; apply Z.leb_le; lia. }
  clearbody e n. clear Hr now_ns name.
  (* every conjunct but the last computes on the concrete structure; the last one
     (has_type) has symbolic leaves and must NOT be computed *)
  destruct (d =? 0); clear d;
    (split; [vm_compute; reflexivity|]);
    (split; [vm_compute; reflexivity|]);
    (split; [vm_compute; reflexivity|]);
    (split; [vm_compute; reflexivity|]);
    (split; [vm_compute; reflexivity|]);
    (split; [vm_compute; reflexivity|]);
    match goal with
    | |- has_type ?t ?m = true =>
        let m' := eval vm_compute in m in
        replace m with m' by (vm_compute; reflexivity)
    end;
    close_typed.
Qed.

(* the range hypothesis of issue_user_claims_spec is needed: the schema gives "exp" the
   int64 range, and the model's now_ns, d are unbounded integers *)
Lemma issue_user_claims_range_needed : exists now_ns d c,
  issue_user_claims RAccount RUser "A" "U" "" now_ns d (VList None) = Some c /\
  has_type sch_user c = false.
Proof.
  exists 10000000000000000000000000000, 1. eexists. split; [reflexivity|]. vm_compute. reflexivity.
Qed.

Print Assumptions scoped_signer_iff.
Print Assumptions issue_user_roles.
Print Assumptions issue_user_claims_spec.
Print Assumptions issue_user_refused.
