(* Proofs/HashID.v — proofs for C18 (activation hash identity). *)
From JWT Require Import Model.HashID.
Open Scope string_scope.

(* ---------- find_wc ---------- *)

Lemma find_wc_gen : forall (l : list string) (k j : nat),
  find_wc l k = Some j ->
  k <= j /\
  Forall (fun t => t <> "*" /\ t <> ">") (firstn (j - k) l) /\
  (exists w, nth_error l (j - k) = Some w /\ (w = "*" \/ w = ">")).
Proof.
  induction l as [|t r IH]; intros k j Hf; simpl in Hf.
  - discriminate.
  - destruct (String.eqb_spec t "*") as [Hs|Hs]; simpl in Hf.
    + injection Hf as Hj. subst j. split; [lia|].
      rewrite Nat.sub_diag. simpl. split; [constructor|].
      exists t. split; [reflexivity|now left].
    + destruct (String.eqb_spec t ">") as [Hg|Hg]; simpl in Hf.
      * injection Hf as Hj. subst j. split; [lia|].
        rewrite Nat.sub_diag. simpl. split; [constructor|].
        exists t. split; [reflexivity|now right].
      * destruct (IH (S k) j Hf) as [Hle [Hall [w [Hnth Hw]]]].
        split; [lia|].
        replace (j - k) with (S (j - S k)) by lia.
        simpl. split.
        -- constructor; [split; assumption|assumption].
        -- exists w. split; assumption.
Qed.

(* ---------- join of a list with non-empty head is non-empty ---------- *)

Lemma join_head_nonempty : forall (t : string) (l : list string),
  t <> "" -> join dot (t :: l) <> "".
Proof.
  intros t l Ht. destruct l as [|y l'].
  - simpl. exact Ht.
  - change (join dot (t :: y :: l')) with (t ++ String dot (join dot (y :: l'))).
    destruct t as [|c t']; [congruence|]. simpl. discriminate.
Qed.

Lemma valid_toks_head : forall (t : string) (r : list string),
  valid_toks (t :: r) = true -> t <> "".
Proof.
  intros t r Hv Ht. subst t. destruct r as [|y r']; simpl in Hv; discriminate.
Qed.

(* ---------- clean_subject_spec ---------- *)

Lemma clean_subject_spec : forall s : string,
  valid_subject s = true ->
  match find_wc (split dot s) 0 with
  | None => clean_subject s = s
  | Some O => clean_subject s = "_"
  | Some i => clean_subject s = join dot (firstn i (split dot s))
              /\ Forall (fun t => t <> "*" /\ t <> ">") (firstn i (split dot s))
              /\ (exists w, nth_error (split dot s) i = Some w /\ (w = "*" \/ w = ">"))
  end.
Proof.
  intros s Hv. unfold valid_subject in Hv. unfold clean_subject.
  destruct (find_wc (split dot s) 0) as [i|] eqn:Hf.
  - destruct i as [|n].
    + reflexivity.
    + destruct (find_wc_gen _ _ _ Hf) as [_ [Hall Hnth]].
      rewrite Nat.sub_0_r in Hall, Hnth.
      split; [|split; assumption].
      destruct (split dot s) as [|t r] eqn:Hsp.
      * simpl in Hv. discriminate.
      * pose proof (valid_toks_head t r Hv) as Ht.
        change (firstn (S n) (t :: r)) with (t :: firstn n r).
        pose proof (join_head_nonempty t (firstn n r) Ht) as Hne.
        destruct (String.eqb_spec (join dot (t :: firstn n r)) "") as [He|He].
        -- contradiction.
        -- reflexivity.
  - reflexivity.
Qed.

(* ---------- hash_refused / hash_depends_only ---------- *)

Lemma hash_refused : forall (H : string -> string) iss sub imp,
  hash_id H iss sub imp = None <-> (iss = "" \/ sub = "" \/ imp = "").
Proof.
  intros H iss sub imp. unfold hash_id.
  destruct (String.eqb_spec iss "") as [Hi|Hi];
  destruct (String.eqb_spec sub "") as [Hs|Hs];
  destruct (String.eqb_spec imp "") as [Hm|Hm]; simpl;
  split; intros Hx; try reflexivity; try discriminate; auto.
  destruct Hx as [Hx|[Hx|Hx]]; contradiction.
Qed.

Lemma hash_id_some : forall (H : string -> string) iss sub imp,
  iss <> "" -> sub <> "" -> imp <> "" ->
  hash_id H iss sub imp = Some (H (preimage iss sub imp)).
Proof.
  intros H iss sub imp Hi Hs Hm. unfold hash_id.
  destruct (String.eqb_spec iss "") as [Hi'|_]; [contradiction|].
  destruct (String.eqb_spec sub "") as [Hs'|_]; [contradiction|].
  destruct (String.eqb_spec imp "") as [Hm'|_]; [contradiction|].
  reflexivity.
Qed.

Lemma hash_depends_only : forall (H : string -> string) iss sub imp imp',
  iss <> "" -> sub <> "" -> imp <> "" -> imp' <> "" ->
  clean_subject imp = clean_subject imp' ->
  hash_id H iss sub imp = hash_id H iss sub imp' /\
  hash_id H iss sub imp = Some (H (iss ++ "." ++ sub ++ "." ++ clean_subject imp)).
Proof.
  intros H iss sub imp imp' Hi Hs Hm Hm' Hc.
  rewrite (hash_id_some H iss sub imp Hi Hs Hm).
  rewrite (hash_id_some H iss sub imp' Hi Hs Hm').
  unfold preimage. rewrite Hc. split; reflexivity.
Qed.

(* ---------- preimage_injective ---------- *)

Lemma app_dot_inj : forall a a' r r' : string,
  sep_free dot a = true -> sep_free dot a' = true ->
  a ++ String dot r = a' ++ String dot r' ->
  a = a' /\ r = r'.
Proof.
  intros a a' r r' Ha Ha' Heq.
  pose proof (f_equal (split dot) Heq) as Hsp.
  rewrite (split_app_sep dot a r Ha), (split_app_sep dot a' r' Ha') in Hsp.
  injection Hsp as Haa Hrr. split; [exact Haa|].
  rewrite <- (join_split dot r), <- (join_split dot r'). now rewrite Hrr.
Qed.

Lemma preimage_injective : forall iss sub imp iss' sub' imp',
  sep_free dot iss = true -> sep_free dot sub = true ->
  sep_free dot iss' = true -> sep_free dot sub' = true ->
  preimage iss sub imp = preimage iss' sub' imp' ->
  iss = iss' /\ sub = sub' /\ clean_subject imp = clean_subject imp'.
Proof.
  intros iss sub imp iss' sub' imp' Hi Hs Hi' Hs' Heq.
  unfold preimage in Heq.
  change (iss ++ String dot (sub ++ String dot (clean_subject imp)) =
          iss' ++ String dot (sub' ++ String dot (clean_subject imp'))) in Heq.
  destruct (app_dot_inj _ _ _ _ Hi Hi' Heq) as [Hii Hrest].
  destruct (app_dot_inj _ _ _ _ Hs Hs' Hrest) as [Hss Hcc].
  repeat split; assumption.
Qed.
