From JWT Require Import Model.Revocation.
(* Proofs/Revocation.v — proofs of the C09 statements about the RevocationList model. *)
Open Scope string_scope.
Open Scope Z_scope.

(* ---------- lookup algebra ---------- *)

Lemma lookup_store_eq : forall k v m, lookup k (store k v m) = Some v.
Proof.
  intros k v m. induction m as [|[k' v'] r IH]; simpl.
  - rewrite String.eqb_refl. reflexivity.
  - destruct (String.eqb k' k) eqn:E; simpl.
    + rewrite String.eqb_refl. reflexivity.
    + rewrite E. exact IH.
Qed.

Lemma lookup_store_neq : forall k v m x, x <> k -> lookup x (store k v m) = lookup x m.
Proof.
  intros k v m x Hne. induction m as [|[k' v'] r IH]; simpl.
  - destruct (String.eqb k x) eqn:E; [apply String.eqb_eq in E; congruence | reflexivity].
  - destruct (String.eqb k' k) eqn:E; simpl.
    + apply String.eqb_eq in E. subst k'.
      destruct (String.eqb k x) eqn:E2; [apply String.eqb_eq in E2; congruence | reflexivity].
    + rewrite IH. reflexivity.
Qed.

Lemma lookup_remove_eq : forall k m, lookup k (remove k m) = None.
Proof.
  intros k m. induction m as [|[k' v'] r IH]; simpl.
  - reflexivity.
  - destruct (String.eqb k' k) eqn:E; simpl.
    + exact IH.
    + rewrite E. exact IH.
Qed.

Lemma lookup_remove_neq : forall k m x, x <> k -> lookup x (remove k m) = lookup x m.
Proof.
  intros k m x Hne. induction m as [|[k' v'] r IH]; simpl.
  - reflexivity.
  - destruct (String.eqb k' k) eqn:E; simpl.
    + apply String.eqb_eq in E. subst k'.
      destruct (String.eqb k x) eqn:E2; [apply String.eqb_eq in E2; congruence | exact IH].
    + rewrite IH. reflexivity.
Qed.

Lemma lookup_notin : forall k m, ~ In k (map fst m) -> lookup k m = None.
Proof.
  intros k m. induction m as [|[k' v'] r IH]; simpl; intros Hn.
  - reflexivity.
  - destruct (String.eqb k' k) eqn:E.
    + apply String.eqb_eq in E. exfalso. apply Hn. left. exact E.
    + apply IH. intros Hin. apply Hn. right. exact Hin.
Qed.

Lemma lookup_some_in : forall k v m, lookup k m = Some v -> In (k, v) m.
Proof.
  intros k v m. induction m as [|[k' v'] r IH]; simpl; intros H.
  - discriminate.
  - destruct (String.eqb k' k) eqn:E.
    + apply String.eqb_eq in E. inversion H. subst. left. reflexivity.
    + right. apply IH. exact H.
Qed.

Lemma in_lookup_some : forall k v m, wf m -> In (k, v) m -> lookup k m = Some v.
Proof.
  intros k v m. unfold wf. induction m as [|[k' v'] r IH]; simpl; intros Hwf Hin.
  - contradiction.
  - apply NoDup_cons_iff in Hwf. destruct Hwf as [Hn Hnd].
    destruct Hin as [Heq|Hin].
    + inversion Heq. subst. rewrite String.eqb_refl. reflexivity.
    + destruct (String.eqb k' k) eqn:E.
      * apply String.eqb_eq in E. subst k'. exfalso. apply Hn.
        change k with (fst (k, v)). apply in_map. exact Hin.
      * apply IH; assumption.
Qed.

(* ---------- keys and well-formedness ---------- *)

Lemma in_keys_store : forall k v m x,
  In x (map fst (store k v m)) -> x = k \/ In x (map fst m).
Proof.
  intros k v m x. induction m as [|[k' v'] r IH]; simpl.
  - intros [H|H]; [left; symmetry; exact H | contradiction].
  - destruct (String.eqb k' k) eqn:E; simpl.
    + intros [H|H]; [left; symmetry; exact H | right; right; exact H].
    + intros [H|H]; [right; left; exact H |].
      destruct (IH H) as [H1|H1]; [left; exact H1 | right; right; exact H1].
Qed.

Lemma wf_store : forall k v m, wf m -> wf (store k v m).
Proof.
  intros k v m. unfold wf. induction m as [|[k' v'] r IH]; simpl; intros Hwf.
  - constructor; [intros [] | constructor].
  - apply NoDup_cons_iff in Hwf. destruct Hwf as [Hn Hnd].
    destruct (String.eqb k' k) eqn:E; simpl.
    + apply String.eqb_eq in E. subst k'. constructor; assumption.
    + constructor.
      * intros Hin. apply in_keys_store in Hin. destruct Hin as [H|H].
        -- apply String.eqb_neq in E. congruence.
        -- apply Hn. exact H.
      * apply IH. exact Hnd.
Qed.

Lemma in_keys_remove : forall k m x, In x (map fst (remove k m)) -> In x (map fst m).
Proof.
  intros k m x. induction m as [|[k' v'] r IH]; simpl.
  - intros [].
  - destruct (String.eqb k' k) eqn:E; simpl.
    + intros H. right. apply IH. exact H.
    + intros [H|H]; [left; exact H | right; apply IH; exact H].
Qed.

Lemma wf_remove : forall k m, wf m -> wf (remove k m).
Proof.
  intros k m. unfold wf. induction m as [|[k' v'] r IH]; simpl; intros Hwf.
  - constructor.
  - apply NoDup_cons_iff in Hwf. destruct Hwf as [Hn Hnd].
    destruct (String.eqb k' k) eqn:E; simpl.
    + apply IH. exact Hnd.
    + constructor.
      * intros Hin. apply Hn. apply in_keys_remove in Hin. exact Hin.
      * apply IH. exact Hnd.
Qed.

Lemma in_keys_filter : forall (p : string * Z -> bool) m x,
  In x (map fst (filter p m)) -> In x (map fst m).
Proof.
  intros p m x. induction m as [|e r IH]; simpl.
  - intros [].
  - destruct (p e); simpl.
    + intros [H|H]; [left; exact H | right; apply IH; exact H].
    + intros H. right. apply IH. exact H.
Qed.

Lemma wf_filter : forall (p : string * Z -> bool) m, wf m -> wf (filter p m).
Proof.
  intros p m. unfold wf. induction m as [|e r IH]; simpl; intros Hwf.
  - constructor.
  - apply NoDup_cons_iff in Hwf. destruct Hwf as [Hn Hnd].
    destruct (p e); simpl.
    + constructor.
      * intros Hin. apply Hn. apply in_keys_filter in Hin. exact Hin.
      * apply IH. exact Hnd.
    + apply IH. exact Hnd.
Qed.

Lemma lookup_filter : forall (p : string * Z -> bool) m k,
  wf m ->
  lookup k (filter p m) =
  match lookup k m with
  | Some v => if p (k, v) then Some v else None
  | None => None
  end.
Proof.
  intros p m k. unfold wf. induction m as [|[k' v'] r IH]; simpl; intros Hwf.
  - reflexivity.
  - apply NoDup_cons_iff in Hwf. destruct Hwf as [Hn Hnd].
    destruct (String.eqb k' k) eqn:E.
    + apply String.eqb_eq in E. subst k'.
      destruct (p (k, v')) eqn:P; simpl.
      * rewrite String.eqb_refl. reflexivity.
      * apply lookup_notin. intros Hin. apply Hn.
        apply in_keys_filter in Hin. exact Hin.
    + destruct (p (k', v')) eqn:P; simpl.
      * rewrite E. apply IH. exact Hnd.
      * apply IH. exact Hnd.
Qed.

(* ---------- permutations ---------- *)

Lemma wf_perm : forall m m', wf m -> Permutation m m' -> wf m'.
Proof.
  intros m m' Hwf HP. unfold wf in *.
  eapply Permutation_NoDup; [apply Permutation_map; exact HP | exact Hwf].
Qed.

Lemma lookup_perm : forall m m', Permutation m m' -> wf m -> forall k, lookup k m = lookup k m'.
Proof.
  intros m m' HP. induction HP as [| e l l' HP IH | e1 e2 l | l l' l'' HP1 IH1 HP2 IH2];
    intros Hwf k.
  - reflexivity.
  - destruct e as [k' v']. simpl.
    unfold wf in Hwf. simpl in Hwf. apply NoDup_cons_iff in Hwf. destruct Hwf as [_ Hnd].
    destruct (String.eqb k' k); [reflexivity | apply IH; exact Hnd].
  - destruct e1 as [k1 v1]. destruct e2 as [k2 v2]. simpl.
    unfold wf in Hwf. simpl in Hwf. apply NoDup_cons_iff in Hwf. destruct Hwf as [Hn _].
    destruct (String.eqb k1 k) eqn:E1; destruct (String.eqb k2 k) eqn:E2; try reflexivity.
    apply String.eqb_eq in E1. apply String.eqb_eq in E2. subst k1 k2.
    exfalso. apply Hn. left. reflexivity.
  - rewrite (IH1 Hwf k). apply IH2. eapply wf_perm; [exact Hwf | exact HP1].
Qed.

Lemma filter_perm : forall (p : string * Z -> bool) m m',
  Permutation m m' -> Permutation (filter p m) (filter p m').
Proof.
  intros p m m' HP. induction HP as [| e l l' HP IH | e1 e2 l | l l' l'' HP1 IH1 HP2 IH2]; simpl.
  - constructor.
  - destruct (p e); [constructor; exact IH | exact IH].
  - destruct (p e1); destruct (p e2); try apply Permutation_refl.
    apply perm_swap.
  - eapply Permutation_trans; [exact IH1 | exact IH2].
Qed.

Lemma filter_split_perm : forall (p : string * Z -> bool) m,
  Permutation (filter (fun e => negb (p e)) m ++ filter p m) m.
Proof.
  intros p m. induction m as [|e r IH]; simpl.
  - constructor.
  - destruct (p e); simpl.
    + apply Permutation_sym. apply Permutation_cons_app. apply Permutation_sym. exact IH.
    + constructor. exact IH.
Qed.

(* ---------- characterisation of the three operations by lookup ---------- *)

Lemma lookup_revoke : forall m k t x,
  lookup x (revoke k t m) =
  if (x =? k)%string
  then Some (match lookup k m with Some ts => Z.max ts t | None => t end)
  else lookup x m.
Proof.
  intros m k t x. unfold revoke.
  destruct (lookup k m) as [ts|] eqn:L.
  - destruct (t <? ts) eqn:Lt.
    + apply Z.ltb_lt in Lt.
      destruct (x =? k)%string eqn:E; [| reflexivity].
      apply String.eqb_eq in E. subst x. rewrite L. f_equal. lia.
    + apply Z.ltb_ge in Lt.
      destruct (x =? k)%string eqn:E.
      * apply String.eqb_eq in E. subst x. rewrite lookup_store_eq. f_equal. lia.
      * apply String.eqb_neq in E. apply lookup_store_neq. exact E.
  - destruct (x =? k)%string eqn:E.
    + apply String.eqb_eq in E. subst x. apply lookup_store_eq.
    + apply String.eqb_neq in E. apply lookup_store_neq. exact E.
Qed.

Lemma lookup_clear : forall m k x,
  lookup x (clear k m) = if (x =? k)%string then None else lookup x m.
Proof.
  intros m k x. unfold clear.
  destruct (x =? k)%string eqn:E.
  - apply String.eqb_eq in E. subst x. apply lookup_remove_eq.
  - apply String.eqb_neq in E. apply lookup_remove_neq. exact E.
Qed.

Lemma lookup_compact : forall m x,
  wf m ->
  lookup x (fst (compact m)) =
  match lookup ALL m with
  | None => lookup x m
  | Some a => if (x =? ALL)%string then lookup x m
              else match lookup x m with
                   | Some ts => if ts <=? a then None else Some ts
                   | None => None
                   end
  end.
Proof.
  intros m x Hwf. unfold compact.
  destruct (lookup ALL m) as [a|] eqn:LA; simpl; [| reflexivity].
  rewrite lookup_filter by exact Hwf.
  destruct (lookup x m) as [ts|] eqn:Lx.
  - unfold covered. simpl.
    destruct (x =? ALL)%string eqn:E; simpl; [reflexivity |].
    destruct (ts <=? a); reflexivity.
  - destruct (x =? ALL)%string; reflexivity.
Qed.

Lemma wf_revoke : forall m k t, wf m -> wf (revoke k t m).
Proof.
  intros m k t Hwf. unfold revoke.
  destruct (lookup k m) as [ts|].
  - destruct (t <? ts); [exact Hwf | apply wf_store; exact Hwf].
  - apply wf_store. exact Hwf.
Qed.

Lemma wf_compact : forall m, wf m -> wf (fst (compact m)).
Proof.
  intros m Hwf. unfold compact.
  destruct (lookup ALL m) as [a|]; simpl; [apply wf_filter; exact Hwf | exact Hwf].
Qed.

Lemma h_compact_fst : forall m, fst (h_compact (Some m)) = Some (fst (compact m)).
Proof.
  intros m. unfold h_compact. destruct (compact m) as [m' d]. reflexivity.
Qed.

(* ---------- one step ---------- *)

Lemma step_wf : forall h o, wf (h_map h) -> wf (h_map (step h o)).
Proof.
  intros h o Hwf. destruct o as [k t | k |]; simpl.
  - apply wf_revoke. exact Hwf.
  - destruct h as [m|]; simpl in *; [apply wf_remove; exact Hwf | exact Hwf].
  - destruct h as [m|].
    + rewrite h_compact_fst. simpl in *. apply wf_compact. exact Hwf.
    + simpl. exact Hwf.
Qed.

Lemma step_refines : forall h o (f : fmap),
  wf (h_map h) ->
  (forall x, lookup x (h_map h) = f x) ->
  forall x, lookup x (h_map (step h o)) = spec_step f o x.
Proof.
  intros h o f Hwf Hf x. destruct o as [k t | k |]; simpl.
  - rewrite lookup_revoke. rewrite (Hf k), (Hf x). reflexivity.
  - destruct h as [m|]; simpl in *.
    + rewrite lookup_clear. rewrite (Hf x). reflexivity.
    + rewrite <- (Hf x). destruct (x =? k)%string; reflexivity.
  - destruct h as [m|].
    + rewrite h_compact_fst. simpl in *.
      rewrite lookup_compact by exact Hwf.
      rewrite (Hf ALL), (Hf x).
      destruct (f ALL) as [a|]; reflexivity.
    + simpl in *. rewrite <- (Hf ALL). apply Hf.
Qed.

Lemma run_refines_gen : forall (ops : list op) (h : holder) (f : fmap),
  wf (h_map h) ->
  (forall x, lookup x (h_map h) = f x) ->
  forall k, lookup k (h_map (run ops h)) = fold_left spec_step ops f k.
Proof.
  intros ops. induction ops as [|o r IH]; intros h f Hwf Hf k.
  - simpl. apply Hf.
  - unfold run. simpl. apply (IH (step h o) (spec_step f o)).
    + apply step_wf. exact Hwf.
    + apply step_refines; assumption.
Qed.

(* ---------- the C09 lemmas ---------- *)

Lemma run_refines_surviving : forall (ops : list op) (h : holder) (k : string),
  wf (h_map h) ->
  lookup k (h_map (run ops h)) = fold_left spec_step ops (fun x => lookup x (h_map h)) k.
Proof.
  intros ops h k Hwf. apply run_refines_gen; [exact Hwf | intros x; reflexivity].
Qed.

Lemma wf_preserved : forall (ops : list op) (h : holder),
  wf (h_map h) -> wf (h_map (run ops h)).
Proof.
  intros ops. induction ops as [|o r IH]; intros h Hwf.
  - exact Hwf.
  - unfold run. simpl. apply (IH (step h o)). apply step_wf. exact Hwf.
Qed.

Lemma answer_rule : forall (ops : list op) (k : string) (t : Z),
  is_revoked (h_map (run ops None)) k t = true <->
  (exists ts, surviving ops k = Some ts /\ t <= ts) \/
  (exists ts, surviving ops ALL = Some ts /\ t <= ts).
Proof.
  intros ops k t.
  assert (H : forall x, lookup x (h_map (run ops None)) = surviving ops x).
  { intros x. apply (run_refines_surviving ops None x). constructor. }
  unfold is_revoked, all_revoked. rewrite (H ALL), (H k).
  rewrite orb_true_iff. split.
  - intros [H1|H1].
    + right. destruct (surviving ops ALL) as [ts|]; [| discriminate].
      exists ts. split; [reflexivity | apply Z.leb_le; exact H1].
    + left. destruct (surviving ops k) as [ts|]; [| discriminate].
      exists ts. split; [reflexivity | apply Z.leb_le; exact H1].
  - intros [[ts [E L]]|[ts [E L]]]; rewrite E; [right | left]; apply Z.leb_le; exact L.
Qed.

Lemma revoke_never_lowers : forall (m : rmap) (k : string) (t : Z) (x : string) (ts : Z),
  wf m -> lookup x m = Some ts ->
  exists ts', lookup x (revoke k t m) = Some ts' /\ ts <= ts'.
Proof.
  intros m k t x ts _ Hl. rewrite lookup_revoke.
  destruct (x =? k)%string eqn:E.
  - apply String.eqb_eq in E. subst x. rewrite Hl.
    exists (Z.max ts t). split; [reflexivity | lia].
  - exists ts. split; [exact Hl | lia].
Qed.

Lemma revoke_stores_max : forall (m : rmap) (k : string) (t : Z),
  wf m ->
  lookup k (revoke k t m) = Some (match lookup k m with Some ts => Z.max ts t | None => t end)
  /\ forall x, x <> k -> lookup x (revoke k t m) = lookup x m.
Proof.
  intros m k t _. split.
  - rewrite lookup_revoke. rewrite String.eqb_refl. reflexivity.
  - intros x Hne. rewrite lookup_revoke.
    apply String.eqb_neq in Hne. rewrite Hne. reflexivity.
Qed.

Lemma clear_frame : forall (m : rmap) (k : string),
  wf m ->
  lookup k (clear k m) = None /\ forall x, x <> k -> lookup x (clear k m) = lookup x m.
Proof.
  intros m k _. split.
  - rewrite lookup_clear. rewrite String.eqb_refl. reflexivity.
  - intros x Hne. rewrite lookup_clear.
    apply String.eqb_neq in Hne. rewrite Hne. reflexivity.
Qed.

Lemma compact_preserves_answers : forall (m : rmap) (k : string) (t : Z),
  wf m -> is_revoked (fst (compact m)) k t = is_revoked m k t.
Proof.
  intros m k t Hwf. unfold is_revoked, all_revoked.
  rewrite (lookup_compact m ALL Hwf), (lookup_compact m k Hwf).
  destruct (lookup ALL m) as [a|] eqn:LA; [| reflexivity].
  rewrite String.eqb_refl.
  destruct (k =? ALL)%string eqn:E; [reflexivity |].
  destruct (lookup k m) as [ts|] eqn:Lk; [| reflexivity].
  destruct (ts <=? a) eqn:C; [| reflexivity].
  apply Z.leb_le in C.
  destruct (t <=? a) eqn:Ta; simpl; [reflexivity |].
  apply Z.leb_gt in Ta. symmetry. apply Z.leb_gt. lia.
Qed.

Lemma compact_removes_exactly : forall (m : rmap),
  wf m ->
  Permutation (fst (compact m) ++ snd (compact m)) m /\
  (forall e, In e (snd (compact m)) <->
             In e m /\ exists ats, lookup ALL m = Some ats /\ fst e <> ALL /\ snd e <= ats).
Proof.
  intros m _. unfold compact.
  destruct (lookup ALL m) as [a|] eqn:LA; simpl.
  - split; [apply filter_split_perm |].
    intros e. rewrite filter_In. unfold covered. split.
    + intros [Hin Hc]. apply andb_true_iff in Hc. destruct Hc as [Hc1 Hc2].
      apply negb_true_iff in Hc1. apply String.eqb_neq in Hc1. apply Z.leb_le in Hc2.
      split; [exact Hin |]. exists a. split; [reflexivity | split; assumption].
    + intros [Hin [a' [Ea [Hn Hl]]]]. inversion Ea. subst a'.
      split; [exact Hin |]. apply andb_true_iff. split.
      * apply negb_true_iff. apply String.eqb_neq. exact Hn.
      * apply Z.leb_le. exact Hl.
  - split; [rewrite app_nil_r; apply Permutation_refl |].
    intros e. split.
    + intros [].
    + intros [_ [a' [Ea _]]]. discriminate.
Qed.

Lemma order_independent : forall (m m' : rmap),
  wf m -> Permutation m m' ->
  (forall k, lookup k m = lookup k m') /\
  (forall k t, is_revoked m k t = is_revoked m' k t) /\
  Permutation (fst (compact m)) (fst (compact m')) /\
  Permutation (snd (compact m)) (snd (compact m')).
Proof.
  intros m m' Hwf HP.
  assert (HL : forall k, lookup k m = lookup k m') by (apply lookup_perm; assumption).
  split; [exact HL |]. split.
  - intros k t. unfold is_revoked, all_revoked. rewrite (HL ALL), (HL k). reflexivity.
  - unfold compact. rewrite <- (HL ALL).
    destruct (lookup ALL m) as [a|]; simpl.
    + split; apply filter_perm; exact HP.
    + split; [exact HP | constructor].
Qed.

Lemma fail_closed : forall (h : holder) (s : string) (t : Z),
  is_claim_revoked h None = true /\
  is_claim_revoked h (Some (s, 0)) = true /\
  is_claim_revoked h (Some (""%string, t)) = true /\
  (t <> 0 -> s <> ""%string -> is_claim_revoked h (Some (s, t)) = is_revoked (h_map h) s t).
Proof.
  intros h s t. split; [reflexivity |]. split; [reflexivity |]. split.
  - unfold is_claim_revoked. rewrite String.eqb_refl. rewrite orb_true_r. reflexivity.
  - intros Ht Hs. unfold is_claim_revoked.
    apply Z.eqb_neq in Ht. apply String.eqb_neq in Hs. rewrite Ht, Hs. reflexivity.
Qed.

Lemma codec_preserves : forall (h : holder) (k : string) (t : Z),
  lookup k (h_map (codec h)) = lookup k (h_map h) /\
  is_revoked (h_map (codec h)) k t = is_revoked (h_map h) k t.
Proof.
  intros h k t. destruct h as [m|]; [destruct m as [|e m']|]; split; reflexivity.
Qed.
