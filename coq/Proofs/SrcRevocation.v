(* Proofs/SrcRevocation.v — functions translated from the Go source on this run (Gen/SrcRevocation.v) are equal to the
   hand-written model functions the property theorems are about. *)
From JWT Require Import Base.GoSem Proofs.SrcBase Gen.SrcRevocation Model.Revocation Proofs.Revocation.
Open Scope string_scope.
Open Scope list_scope.

(* ---------- RevocationList ---------- *)
Lemma go_mlookup_lookup m k : go_mlookup m k = lookup k m.
Proof. induction m as [|[k' v] r IH]; [reflexivity|]. cbn. destruct (String.eqb k' k); [reflexivity|exact IH]. Qed.
Lemma go_mset_store m k v : go_mset m k v = store k v m.
Proof. induction m as [|[k' v'] r IH]; [reflexivity|]. cbn. destruct (String.eqb k' k); [reflexivity|]. now rewrite IH. Qed.
Lemma go_mdel_remove m k : go_mdel m k = remove k m.
Proof. induction m as [|[k' v'] r IH]; [reflexivity|]. cbn. destruct (String.eqb k' k); [exact IH|]. now rewrite IH. Qed.

Lemma src_revoke r k t : V2.RevocationList_Revoke r k t = revoke k t r.
Proof.
  unfold V2.RevocationList_Revoke, revoke, go_mget. cbv zeta. rewrite go_mlookup_lookup, go_mset_store.
  destruct (lookup k r) as [ts|]; cbn [andb]; [|reflexivity].
  rewrite Z.gtb_ltb. reflexivity.
Qed.
Lemma src_clear r k : V2.RevocationList_ClearRevocation r k = clear k r.
Proof. unfold V2.RevocationList_ClearRevocation, clear. cbv zeta. apply go_mdel_remove. Qed.
Lemma src_all_revoked r t : V2.RevocationList_allRevoked r t = all_revoked r t.
Proof.
  unfold V2.RevocationList_allRevoked, all_revoked, go_mget, ALL. rewrite go_mlookup_lookup.
  destruct (lookup "*" r) as [ts|]; cbn [andb]; [apply Z.geb_leb|reflexivity].
Qed.
Lemma src_is_revoked r k t : V2.RevocationList_IsRevoked r k t = is_revoked r k t.
Proof.
  unfold V2.RevocationList_IsRevoked, is_revoked. rewrite src_all_revoked.
  destruct (all_revoked r t); [reflexivity|]. cbn [orb]. unfold go_mget. rewrite go_mlookup_lookup.
  destruct (lookup k r) as [ts|]; cbn [andb]; [apply Z.geb_leb|reflexivity].
Qed.
Lemma src_v1_revoke r k t : V1.RevocationList_Revoke r k t = revoke k t r.
Proof. exact (src_revoke r k t). Qed.
Lemma src_v1_clear r k : V1.RevocationList_ClearRevocation r k = clear k r.
Proof. exact (src_clear r k). Qed.
Lemma src_v1_is_revoked r k t : V1.RevocationList_IsRevoked r k t = is_revoked r k t.
Proof.
  unfold V1.RevocationList_IsRevoked. change (V1.RevocationList_allRevoked r t) with (V2.RevocationList_allRevoked r t).
  exact (src_is_revoked r k t).
Qed.

(* MaybeCompact: the loop walks a snapshot of the map and deletes the visited entry from the map itself *)
Definition mcbody (ats : Z) (_ : Z) (e : string * Z) (st : list (string * Z) * list (string * Z))
  : ctl (list (string * Z) * list (string * Z)) (list (string * Z) * list (string * Z)) :=
  let '(k, ts) := e in let '(deleted, r) := st in
  let '(deleted, r) := (if (negb (k =? "*")%string && (ats >=? ts)%Z) then (deleted ++ [(k, ts)], go_mdel r k) else (deleted, r)) in
  Cont (deleted, r).

Lemma remove_notin k (m : rmap) : ~ In k (map fst m) -> remove k m = m.
Proof.
  induction m as [|[k' v] r IH]; intros Hn; [reflexivity|]. cbn in *.
  destruct (String.eqb k' k) eqn:E.
  - apply String.eqb_eq in E. exfalso. apply Hn. now left.
  - f_equal. apply IH. intros Hin. apply Hn. now right.
Qed.
Lemma remove_app k (a b : rmap) : remove k (a ++ b) = remove k a ++ remove k b.
Proof.
  induction a as [|[k' v] r IH]; [reflexivity|]. cbn. destruct (String.eqb k' k); [exact IH|]. cbn. now rewrite IH.
Qed.
Lemma covered_eq ats k ts : (negb (k =? "*")%string && (ats >=? ts)%Z) = covered ats (k, ts).
Proof. unfold covered, ALL. cbn [fst snd]. now rewrite Z.geb_leb. Qed.

Lemma mcloop ats : forall (rest pre : rmap) (i : Z),
  wf (pre ++ rest) ->
  go_range (mcbody ats) i rest (filter (covered ats) pre, filter (fun e => negb (covered ats e)) pre ++ rest) =
  inl (filter (covered ats) (pre ++ rest), filter (fun e => negb (covered ats e)) (pre ++ rest)).
Proof.
  induction rest as [|[k ts] rest IH]; intros pre i Hwf.
  - cbn [go_range]. now rewrite !app_nil_r.
  - cbn [go_range]. unfold mcbody at 1. cbv zeta. rewrite covered_eq.
    assert (Hwf' : wf ((pre ++ [(k, ts)]) ++ rest)) by (rewrite <- app_assoc; exact Hwf).
    specialize (IH (pre ++ [(k, ts)]) (i + 1)%Z Hwf').
    rewrite !filter_app in IH. cbn [filter] in IH. rewrite <- !app_assoc in IH.
    destruct (covered ats (k, ts)) eqn:Ec; cbn [negb app] in IH.
    + rewrite !filter_app. cbn [filter]. rewrite Ec. cbn [negb]. rewrite <- IH. f_equal. f_equal.
      rewrite go_mdel_remove, remove_app. cbn [remove]. rewrite String.eqb_refl.
      unfold wf in Hwf. rewrite map_app in Hwf. cbn [map fst] in Hwf.
      apply NoDup_remove_2 in Hwf.
      rewrite !remove_notin; [reflexivity| |].
      * intros Hin. apply Hwf. apply in_or_app. now right.
      * intros Hin. apply Hwf. apply in_or_app. left.
        clear - Hin. induction pre as [|e pre IHp]; [exact Hin|]. cbn in *.
        destruct (negb (covered ats e)); cbn in *; [destruct Hin as [H|H]; [now left|right; now apply IHp]|right; now apply IHp].
    + rewrite !filter_app. cbn [filter]. rewrite Ec. cbn [negb]. rewrite app_nil_r in IH. rewrite <- IH. reflexivity.
Qed.

Lemma src_compact r : wf r -> V2.RevocationList_MaybeCompact r = (fst (compact r), snd (compact r)).
Proof.
  intros Hwf. unfold V2.RevocationList_MaybeCompact, compact, go_mget, ALL. cbv zeta. rewrite go_mlookup_lookup.
  destruct (lookup "*" r) as [ats|]; [|reflexivity].
  change (go_range _ 0%Z r ([], r)) with (go_range (mcbody ats) 0%Z r (filter (covered ats) [], filter (fun e => negb (covered ats e)) [] ++ r)).
  rewrite (mcloop ats r [] 0%Z Hwf). reflexivity.
Qed.


(* ---------- the wrappers on AccountClaims and Export (a possibly-nil map reads as the empty one) ---------- *)
Definition claim_iat (c : option (string * Z)) : Z := match c with Some (_, iat) => iat | None => 0%Z end.
Definition claim_sub (c : option (string * Z)) : string := match c with Some (s, _) => s | None => "" end.
Definition claim_nil (c : option (string * Z)) : bool := match c with None => true | Some _ => false end.

Lemma src_acct_is_claim_revoked (h : holder) (c : option (string * Z)) :
  V2.AccountClaims_IsClaimRevoked (h_map h) (claim_iat c) (claim_sub c) (claim_nil c) = is_claim_revoked h c.
Proof.
  unfold V2.AccountClaims_IsClaimRevoked, V2.AccountClaims_isRevoked, is_claim_revoked, h_is_revoked.
  destruct c as [[sub iat]|]; cbn [claim_iat claim_sub claim_nil orb]; [|reflexivity].
  rewrite src_is_revoked. reflexivity.
Qed.
Lemma src_export_is_claim_revoked (h : holder) (c : option (string * Z)) :
  V2.Export_IsClaimRevoked (claim_iat c) (claim_sub c) (claim_nil c) (h_map h) = is_claim_revoked h c.
Proof.
  unfold V2.Export_IsClaimRevoked, V2.Export_isRevoked, is_claim_revoked, h_is_revoked.
  destruct c as [[sub iat]|]; cbn [claim_iat claim_sub claim_nil orb]; [|reflexivity].
  rewrite src_is_revoked. reflexivity.
Qed.

(* ---------- the wrappers that store: AccountClaims / Export RevokeAt, Revoke, ClearRevocation ----------
   The revocation map is a data field of the abstract receiver that the body stores into: it is carried as a variable
   that starts as the field's value on entry and is handed back.  [h] is the holder (None = a nil map). *)
Definition h_isnil (h : holder) : bool := match h with None => true | Some _ => false end.
Lemma src_acct_revoke_at (h : holder) (k : string) (t : Z) :
  Some (V2.AccountClaims_RevokeAt (h_map h) (h_isnil h) k t) = h_revoke_at k t h.
Proof. unfold V2.AccountClaims_RevokeAt, h_revoke_at. cbv zeta. rewrite src_revoke. destruct h; reflexivity. Qed.
Lemma src_export_revoke_at (h : holder) (k : string) (t : Z) :
  Some (V2.Export_RevokeAt (h_map h) (h_isnil h) k t) = h_revoke_at k t h.
Proof. unfold V2.Export_RevokeAt, h_revoke_at. cbv zeta. rewrite src_revoke. destruct h; reflexivity. Qed.
(* Revoke: RevokeAt at the time time.Now() reads - that and nothing else *)
Lemma src_acct_revoke (h : holder) (now : Z) (k : string) :
  Some (V2.AccountClaims_Revoke (h_map h) (h_isnil h) now k) = h_revoke_at k now h.
Proof. exact (src_acct_revoke_at h k now). Qed.
Lemma src_export_revoke (h : holder) (now : Z) (k : string) :
  Some (V2.Export_Revoke (h_map h) (h_isnil h) now k) = h_revoke_at k now h.
Proof. exact (src_export_revoke_at h k now). Qed.
(* ClearRevocation: the list's own, on the map as it is (a nil map stays without entries) *)
Lemma src_acct_clear (h : holder) (k : string) : V2.AccountClaims_ClearRevocation (h_map h) k = clear k (h_map h).
Proof. unfold V2.AccountClaims_ClearRevocation. apply src_clear. Qed.
Lemma src_export_clear (h : holder) (k : string) : V2.Export_ClearRevocation (h_map h) k = clear k (h_map h).
Proof. unfold V2.Export_ClearRevocation. apply src_clear. Qed.
