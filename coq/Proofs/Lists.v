From JWT Require Import Model.Lists.
Open Scope string_scope.

(* ====================== backing-array lemmas ====================== *)

Lemma set_nth_length : forall n v l, length (set_nth n v l) = length l.
Proof.
  induction n as [|n IH]; intros v l; destruct l as [|x r]; simpl; try reflexivity.
  now rewrite IH.
Qed.

Lemma firstn_set_nth : forall n v l, (n < length l)%nat ->
  firstn (S n) (set_nth n v l) = (firstn n l ++ [v])%list.
Proof.
  induction n as [|n IH]; intros v l Hlt; destruct l as [|x r]; simpl in Hlt; try lia.
  - reflexivity.
  - cbn [set_nth]. rewrite (firstn_cons (S n)), (firstn_cons n). simpl app.
    f_equal. apply IH. lia.
Qed.

Lemma firstn_app_exact : forall (A : Type) (a b : list A) n,
  length a = n -> firstn n (a ++ b) = a.
Proof.
  intros A a b n Hn. subst n. rewrite firstn_app, Nat.sub_diag, firstn_all.
  simpl. apply app_nil_r.
Qed.

Lemma view_length : forall s, (len s <= length (arr s))%nat -> length (view s) = len s.
Proof. intros s Hle. unfold view. now apply firstn_length_le. Qed.

Lemma view_append : forall s v, (len s <= length (arr s))%nat ->
  view (append s v) = (view s ++ [v])%list.
Proof.
  intros [a n] v Hle. unfold append, view. cbn [arr len] in *.
  destruct (n <? length a)%nat eqn:E; cbn [arr len].
  - apply Nat.ltb_lt in E. now apply firstn_set_nth.
  - apply Nat.ltb_ge in E. assert (Hn : n = length a) by lia. subst n.
    rewrite firstn_all. rewrite app_assoc. apply firstn_app_exact.
    rewrite app_length. simpl. lia.
Qed.

Lemma append_len_ok : forall s v, (len s <= length (arr s))%nat ->
  (len (append s v) <= length (arr (append s v)))%nat.
Proof.
  intros [a n] v Hle. unfold append, view. cbn [arr len] in *.
  destruct (n <? length a)%nat eqn:E; cbn [arr len].
  - apply Nat.ltb_lt in E. rewrite set_nth_length. lia.
  - rewrite !app_length, firstn_length_le by assumption. simpl. lia.
Qed.

Lemma view_remove_at : forall s i, (i < len s)%nat -> (len s <= length (arr s))%nat ->
  view (remove_at s i) = (firstn i (view s) ++ skipn (S i) (view s))%list.
Proof.
  intros [a n] i Hi Hle. unfold remove_at, view. cbn [arr len] in *.
  rewrite app_assoc. rewrite firstn_firstn. replace (Init.Nat.min i n) with i by lia.
  apply firstn_app_exact.
  rewrite app_length, skipn_length, !firstn_length_le by lia. lia.
Qed.

Lemma remove_at_len_ok : forall s i, (i < len s)%nat -> (len s <= length (arr s))%nat ->
  (len (remove_at s i) <= length (arr (remove_at s i)))%nat.
Proof.
  intros [a n] i Hi Hle. unfold remove_at, view. cbn [arr len] in *.
  rewrite !app_length, !skipn_length, !firstn_length_le by lia. lia.
Qed.

(* ====================== mem / index_of ====================== *)

Lemma mem_In : forall v l, mem v l = true <-> In v l.
Proof.
  intros v l. unfold mem. rewrite existsb_exists. split.
  - intros [t [Hin Heq]]. apply String.eqb_eq in Heq. now subst t.
  - intros Hin. exists v. split; [assumption|apply String.eqb_refl].
Qed.

Lemma mem_false_notin : forall v l, mem v l = false -> ~ In v l.
Proof.
  intros v l Hm Hin. apply mem_In in Hin. congruence.
Qed.

Lemma filter_notin : forall v l, ~ In v l ->
  filter (fun t => negb (t =? v)) l = l.
Proof.
  intros v l. induction l as [|t r IH]; intros Hn; [reflexivity|].
  simpl. destruct (t =? v) eqn:E.
  - apply String.eqb_eq in E. exfalso. apply Hn. now left.
  - simpl. f_equal. apply IH. intros Hin. apply Hn. now right.
Qed.

Lemma index_of_None : forall v l, index_of v l = None -> ~ In v l.
Proof.
  intros v l. induction l as [|t r IH]; intros Hi; [intros []|].
  simpl in Hi. destruct (t =? v) eqn:E; [discriminate|].
  destruct (index_of v r) as [j|] eqn:Ej; [discriminate|].
  intros [Heq|Hin].
  - subst t. rewrite String.eqb_refl in E. discriminate.
  - now apply IH.
Qed.

Lemma index_of_Some : forall v l i, NoDup l -> index_of v l = Some i ->
  (i < length l)%nat /\
  (firstn i l ++ skipn (S i) l)%list = filter (fun t => negb (t =? v)) l.
Proof.
  intros v l. induction l as [|t r IH]; intros i Hnd Hi; [discriminate|].
  inversion Hnd as [|? ? Hnotin Hnd']; subst.
  simpl in Hi. simpl filter. destruct (t =? v) eqn:E.
  - injection Hi as Hi. subst i. apply String.eqb_eq in E. subst t.
    split; [simpl; lia|]. simpl. symmetry. now apply filter_notin.
  - destruct (index_of v r) as [j|] eqn:Ej; [|discriminate].
    simpl in Hi. injection Hi as Hi. subst i.
    destruct (IH j Hnd' eq_refl) as [Hlt Heq].
    split; [simpl; lia|].
    cbn [negb]. rewrite firstn_cons. rewrite (skipn_cons (S j)).
    simpl app. f_equal. exact Heq.
Qed.

Lemma Forall_filter_keep : forall (A : Type) (P : A -> Prop) f (l : list A),
  Forall P l -> Forall P (filter f l).
Proof.
  intros A P f l HF. rewrite Forall_forall in *. intros x Hx.
  apply filter_In in Hx. apply HF. tauto.
Qed.

Lemma NoDup_snoc : forall (l : list string) a, NoDup l -> ~ In a l -> NoDup (l ++ [a])%list.
Proof.
  induction l as [|t r IH]; intros a Hnd Hn; simpl.
  - constructor; [intros []|constructor].
  - inversion Hnd as [|? ? Hnotin Hnd']; subst. constructor.
    + rewrite in_app_iff. simpl. intros [Hin|[Heq|[]]]; [now apply Hnotin|].
      subst t. apply Hn. now left.
    + apply IH; [assumption|]. intros Hin. apply Hn. now right.
Qed.

(* ====================== single steps ====================== *)

Section Steps.
  Variable norm : string -> string.
  Hypothesis norm_idem : forall x, norm (norm x) = norm x.

  Lemma add1_both : forall s x, inv norm s ->
    view (l_add1 norm s x) = spec_add1 norm (view s) x /\ inv norm (l_add1 norm s x).
  Proof.
    intros s x [Hle [Hnd HF]]. unfold l_add1, spec_add1, l_contains.
    rewrite norm_idem.
    destruct (mem (norm x) (view s)) eqn:Em; cbn [negb andb orb].
    - rewrite orb_true_r. split; [reflexivity|]. repeat split; assumption.
    - rewrite orb_false_r. destruct (norm x =? "") eqn:Ee; cbn [negb].
      + split; [reflexivity|]. repeat split; assumption.
      + split; [now apply view_append|].
        unfold inv. rewrite view_append by assumption.
        split; [now apply append_len_ok|]. split.
        * apply NoDup_snoc; [assumption|now apply mem_false_notin].
        * apply Forall_app. split; [assumption|].
          constructor; [|constructor]. split.
          -- intros Heq. rewrite Heq in Ee. discriminate.
          -- apply norm_idem.
  Qed.
End Steps.

Section Steps2.
  Variable norm : string -> string.
  Hypothesis norm_idem : forall x, norm (norm x) = norm x.

  Lemma remove1_both : forall s x, inv norm s ->
    view (l_remove1 norm s x) = spec_remove1 norm (view s) x /\ inv norm (l_remove1 norm s x).
  Proof.
    intros s x [Hle [Hnd HF]]. unfold l_remove1, spec_remove1.
    destruct (index_of (norm x) (view s)) as [i|] eqn:Ei.
    - destruct (index_of_Some _ _ _ Hnd Ei) as [Hlt Heq].
      rewrite view_length in Hlt by assumption.
      assert (Hv : view (remove_at s i) = filter (fun t => negb (t =? norm x)) (view s)).
      { rewrite view_remove_at by assumption. exact Heq. }
      split; [exact Hv|]. unfold inv. rewrite Hv.
      split; [now apply remove_at_len_ok|]. split.
      + now apply NoDup_filter.
      + now apply Forall_filter_keep.
    - apply index_of_None in Ei. rewrite filter_notin by assumption.
      split; [reflexivity|]. repeat split; assumption.
  Qed.

  Lemma add_both : forall ps s, inv norm s ->
    view (l_add norm s ps) = fold_left (spec_add1 norm) ps (view s) /\ inv norm (l_add norm s ps).
  Proof.
    unfold l_add. induction ps as [|p ps IH]; intros s Hinv; simpl.
    - split; [reflexivity|assumption].
    - destruct (add1_both norm norm_idem s p Hinv) as [Hv Hi].
      rewrite <- Hv. now apply IH.
  Qed.

  Lemma remove_both : forall ps s, inv norm s ->
    view (l_remove norm s ps) = fold_left (spec_remove1 norm) ps (view s) /\ inv norm (l_remove norm s ps).
  Proof.
    unfold l_remove. induction ps as [|p ps IH]; intros s Hinv; simpl.
    - split; [reflexivity|assumption].
    - destruct (remove1_both s p Hinv) as [Hv Hi].
      rewrite <- Hv. now apply IH.
  Qed.

  Lemma step_both : forall o s, inv norm s ->
    view (lstep norm s o) = spec_step norm (view s) o /\ inv norm (lstep norm s o).
  Proof.
    intros [ps|ps] s Hinv; simpl; [now apply add_both|now apply remove_both].
  Qed.
End Steps2.

Lemma inv_nil : forall norm, inv norm nil_slice.
Proof.
  intros norm. unfold inv, nil_slice, view. simpl.
  split; [lia|]. split; constructor.
Qed.

(* ====================== the C20 lemmas on lists ====================== *)

Lemma norm_id_idempotent : forall x, norm_id (norm_id x) = norm_id x.
Proof. intros x. reflexivity. Qed.

Lemma history_refines_spec : forall norm, (forall x, norm (norm x) = norm x) ->
  forall (ops : list lop) (s : slice),
  inv norm s -> view (lrun norm ops s) = spec_run norm ops (view s) /\ inv norm (lrun norm ops s).
Proof.
  intros norm Hidem. unfold lrun, spec_run.
  induction ops as [|o ops IH]; intros s Hinv; simpl.
  - split; [reflexivity|assumption].
  - destruct (step_both norm Hidem o s Hinv) as [Hv Hi].
    rewrite <- Hv. now apply IH.
Qed.

Lemma invariant_from_nil : forall norm, (forall x, norm (norm x) = norm x) ->
  forall ops, inv norm (lrun norm ops nil_slice).
Proof.
  intros norm Hidem ops.
  apply (history_refines_spec norm Hidem ops nil_slice (inv_nil norm)).
Qed.

Lemma add1_view : forall norm, (forall x, norm (norm x) = norm x) -> forall s x, inv norm s ->
  view (l_add1 norm s x) =
    if ((norm x =? "") || mem (norm x) (view s))%bool then view s else (view s ++ [norm x])%list.
Proof.
  intros norm Hidem s x Hinv.
  exact (proj1 (add1_both norm Hidem s x Hinv)).
Qed.

Lemma remove1_view : forall norm, (forall x, norm (norm x) = norm x) -> forall s x, inv norm s ->
  view (l_remove1 norm s x) = filter (fun t => negb (t =? norm x)) (view s).
Proof.
  intros norm Hidem s x Hinv.
  exact (proj1 (remove1_both norm s x Hinv)).
Qed.

Lemma contains_iff : forall norm s p,
  l_contains norm s p = true <-> In (norm p) (view s).
Proof. intros norm s p. unfold l_contains. apply mem_In. Qed.

(* ====================== strings: norm_tag ====================== *)

Lemma is_space_lower : forall c, is_space (lower_ascii c) = is_space c.
Proof.
  intros c. destruct c as [[] [] [] [] [] [] [] []]; vm_compute; reflexivity.
Qed.

Lemma srev_acc_smap : forall f s acc,
  srev_acc (smap f s) (smap f acc) = smap f (srev_acc s acc).
Proof.
  intros f s. induction s as [|c r IH]; intros acc; simpl; [reflexivity|].
  change (String (f c) (smap f acc)) with (smap f (String c acc)). apply IH.
Qed.

Lemma srev_smap : forall f s, srev (smap f s) = smap f (srev s).
Proof. intros f s. unfold srev. apply (srev_acc_smap f s EmptyString). Qed.

Lemma drop_while_smap : forall p f, (forall c, p (f c) = p c) ->
  forall s, drop_while p (smap f s) = smap f (drop_while p s).
Proof.
  intros p f Hpf s. induction s as [|c r IH]; simpl; [reflexivity|].
  rewrite Hpf. destruct (p c); [exact IH|reflexivity].
Qed.

Lemma trim_space_lower : forall s, trim_space (to_lower s) = to_lower (trim_space s).
Proof.
  intros s. unfold trim_space, to_lower.
  rewrite (drop_while_smap _ _ is_space_lower), srev_smap,
          (drop_while_smap _ _ is_space_lower), srev_smap.
  reflexivity.
Qed.

Definition no_lead (s : string) : Prop :=
  match s with EmptyString => True | String c _ => is_space c = false end.

Lemma drop_while_no_lead : forall s, no_lead (drop_while is_space s).
Proof.
  induction s as [|c r IH]; simpl; [exact I|].
  destruct (is_space c) eqn:E; [exact IH|exact E].
Qed.

Lemma no_lead_drop_id : forall s, no_lead s -> drop_while is_space s = s.
Proof.
  intros [|c r] Hn; simpl in *; [reflexivity|]. now rewrite Hn.
Qed.

Lemma drop_while_suffix : forall s, exists w, s = w ++ drop_while is_space s.
Proof.
  induction s as [|c r [w Hw]]; simpl.
  - exists EmptyString. reflexivity.
  - destruct (is_space c).
    + exists (String c w). simpl. now rewrite <- Hw.
    + exists EmptyString. reflexivity.
Qed.

Lemma no_lead_app_l : forall a b, no_lead (a ++ b) -> no_lead a.
Proof. intros [|c a] b Hn; simpl in *; [exact I|exact Hn]. Qed.

Lemma trim_space_idem : forall s, trim_space (trim_space s) = trim_space s.
Proof.
  intros s. unfold trim_space.
  set (t := drop_while is_space s).
  set (u := drop_while is_space (srev t)).
  assert (Hu : drop_while is_space (srev u) = srev u).
  { apply no_lead_drop_id.
    destruct (drop_while_suffix (srev t)) as [w Hw]. fold u in Hw.
    assert (Ht : t = srev u ++ srev w).
    { rewrite <- (srev_involutive t), Hw. apply srev_app. }
    apply no_lead_app_l with (b := srev w). rewrite <- Ht.
    apply drop_while_no_lead. }
  rewrite Hu, srev_involutive.
  rewrite (no_lead_drop_id u) by apply drop_while_no_lead. reflexivity.
Qed.

Lemma norm_tag_idempotent : forall x, norm_tag (norm_tag x) = norm_tag x.
Proof.
  intros x. unfold norm_tag.
  rewrite trim_space_lower, to_lower_idem, trim_space_idem. reflexivity.
Qed.

(* ====================== CIDR forms ====================== *)

Lemma norm_tag_fix_trim : forall e, norm_tag e = e -> trim_space e = e.
Proof.
  intros e He. rewrite <- He at 1. unfold norm_tag.
  rewrite trim_space_lower, trim_space_idem. exact He.
Qed.

Lemma norm_tag_fix_lower : forall e, norm_tag e = e -> to_lower e = e.
Proof.
  intros e He. rewrite <- He at 1. unfold norm_tag.
  rewrite to_lower_idem. exact He.
Qed.

Lemma smap_app : forall f a b, smap f (a ++ b) = smap f a ++ smap f b.
Proof. intros f a b. induction a as [|c r IH]; simpl; [reflexivity|]. now rewrite IH. Qed.

Lemma to_lower_join : forall es, Forall (fun e => to_lower e = e) es ->
  to_lower (join comma es) = join comma es.
Proof.
  induction es as [|x r IH]; intros HF; [reflexivity|].
  inversion HF as [|? ? Hx Hr]; subst.
  destruct r as [|y r'].
  - simpl. exact Hx.
  - change (join comma (x :: y :: r')) with (x ++ String comma (join comma (y :: r'))).
    unfold to_lower in *. rewrite smap_app, Hx. f_equal.
    change (smap lower_ascii (String comma (join comma (y :: r'))))
      with (String (lower_ascii comma) (smap lower_ascii (join comma (y :: r')))).
    rewrite (IH Hr). reflexivity.
Qed.

Lemma spec_add_fresh : forall es acc,
  NoDup (acc ++ es)%list ->
  Forall (fun e => e <> "" /\ norm_tag e = e) es ->
  fold_left (spec_add1 norm_tag) es acc = (acc ++ es)%list.
Proof.
  induction es as [|e es IH]; intros acc Hnd HF; simpl.
  - now rewrite app_nil_r.
  - inversion HF as [|? ? [Hne Hfix] HF']; subst.
    unfold spec_add1 at 2. rewrite Hfix.
    destruct (e =? "") eqn:Ee; [apply String.eqb_eq in Ee; contradiction|].
    destruct (mem e acc) eqn:Em.
    + exfalso. apply mem_In in Em. apply NoDup_remove_2 in Hnd.
      apply Hnd. apply in_or_app. now left.
    + simpl. rewrite IH; [now rewrite <- app_assoc| |assumption].
      rewrite <- app_assoc. exact Hnd.
Qed.

Lemma cidr_forms_agree : forall es : list string,
  NoDup es ->
  Forall (fun e => e <> "" /\ norm_tag e = e /\ sep_free comma e = true) es ->
  cidr_unmarshal (CStr (join comma es)) = es /\ cidr_unmarshal (CArr es) = es.
Proof.
  intros es Hnd HF. split; [|reflexivity].
  destruct es as [|e0 es0]; [reflexivity|].
  set (es := e0 :: es0) in *.
  unfold cidr_unmarshal, cidr_set.
  rewrite to_lower_join.
  2:{ eapply Forall_impl; [|exact HF]. intros a [_ [Ha _]]. now apply norm_tag_fix_lower. }
  rewrite split_join.
  2:{ unfold es. discriminate. }
  2:{ eapply Forall_impl; [|exact HF]. intros a [_ [_ Ha]]. exact Ha. }
  rewrite (proj1 (add_both norm_tag norm_tag_idempotent es nil_slice (inv_nil norm_tag))).
  change (view nil_slice) with (@nil string).
  rewrite spec_add_fresh; [reflexivity|exact Hnd|].
  eapply Forall_impl; [|exact HF]. intros a [Ha [Hb _]]. split; assumption.
Qed.
