(* Proofs/SrcDecodeV1.v — the bundled version-1 library's Decode(token, target), parseHeaders and parseClaims as
   translated from v2/v1compat on this run (Gen/SrcDecodeV1.v) decide exactly as the model's [v1_decode].  The target is
   an abstract value: after json.Unmarshal has filled it, the code observes its Verify, ExpectedPrefixes and
   Claims().Issuer; here those are instantiated, for a target of kind k, by the model's oracles. *)
From JWT Require Import Base.GoSem Proofs.SrcBase Gen.SrcDecodeV1 Model.V1.
Open Scope string_scope.
Open Scope list_scope.

Inductive gv1 := G1Nil | G1Header (typ alg : string).
Definition role_code1 (r : role) : Z :=
  match r with RAccount => 0 | ROperator => 112 | RUser => 160 | RServer => 104 | RCluster => 16 | RCurve => 184 | RNone => 255 end.

Section Oracles.
  Variable b64dec : string -> option string.
  Variable parse_header : string -> option (string * string).
  Variable unmarshal_ok : v1kind -> string -> bool.
  Variable issuer_of : string -> string.
  Variable verify : string -> string -> string -> bool.
  Variable role_of : string -> role.

  Definition e1 : option string := Some "e".
  Definition o_decodeString (s : string) : string * option string :=
    match b64dec s with Some d => (d, None) | None => ("", e1) end.
  Definition o_unm_header (h : string) : gv1 * option string :=
    match parse_header h with Some (typ, alg) => (G1Header typ alg, None) | None => (G1Nil, e1) end.
  Definition o_hdr_alg (v : gv1) : string := match v with G1Header _ a => a | _ => "" end.
  Definition o_hdr_typ (v : gv1) : string := match v with G1Header t _ => t | _ => "" end.
  Definition o_is (r : role) (s : string) : bool := role_eqb (role_of s) r.
  Definition o_prefixes (k : v1kind) : list Z :=
    match v1_expected_prefixes k with Some ps => map role_code1 ps | None => [] end.

  (* the target of kind k, as it is after the payload segment c1 (decoding to [data]) was unmarshalled into it *)
  Definition src_v1_decode (k : v1kind) (data : string) (tok : string) : option string :=
    V1.Decode gv1 G1Nil o_decodeString o_unm_header
      (o_is RAccount) (o_is RCluster) (o_is ROperator) (o_is RServer) (o_is RUser) o_hdr_alg o_hdr_typ
      (issuer_of data) (o_prefixes k) (fun text sig => verify (issuer_of data) text sig)
      (fun d => if unmarshal_ok k d then None else e1) tok.

  Lemma v1_header_valid_src typ alg : V1.Header_Valid alg typ = None <-> v1_header_valid typ alg = true.
  Proof.
    unfold V1.Header_Valid, v1_header_valid, Gen.Tables.v1_token_type_jwt, Gen.Tables.v1_alg. cbv zeta.
    destruct ("jwt" =? to_lower typ); cbn [negb andb]; [|split; discriminate].
    destruct (to_lower alg =? "ed25519"); cbn [negb]; [split; reflexivity|].
    destruct (to_lower alg =? "ed25519-nkey"); split; discriminate.
  Qed.

  Lemma err_some_not_nil (e : option string) : e <> None -> go_err_isnil e = false.
  Proof. destruct e; [reflexivity|congruence]. Qed.

  (* what the target was filled from: the text the payload segment decodes to *)
  Definition payload_of (tok : string) : string :=
    match split dot tok with
    | [_; c1; _] => match b64dec c1 with Some d => d | None => "" end
    | _ => ""
    end.

  Theorem src_v1_decode_spec (k : v1kind) (tok : string) :
    src_v1_decode k (payload_of tok) tok = None <->
    v1_decode b64dec parse_header unmarshal_ok issuer_of verify role_of k tok <> None.
  Proof.
    unfold src_v1_decode, V1.Decode, v1_decode, payload_of. cbv zeta. rewrite go_split_dot.
    destruct (split dot tok) as [|c0 [|c1 [|c2 [|c3 r]]]]; try (cbn; split; [discriminate|congruence]).
    2:{ assert (H : (go_llen (c0 :: c1 :: c2 :: c3 :: r) =? 3)%Z = false) by (apply Z.eqb_neq; unfold go_llen; cbn [length]; lia).
        rewrite H. cbn. split; [discriminate|congruence]. }
    change (go_llen [c0; c1; c2] =? 3)%Z with true. cbn [negb].
    change (go_idx [c0; c1; c2] 0%Z) with c0. change (go_idx [c0; c1; c2] 1%Z) with c1. change (go_idx [c0; c1; c2] 2%Z) with c2.
    unfold V1.parseHeaders, V1.parseClaims, o_decodeString, o_unm_header.
    destruct (b64dec c0) as [hj|]; cbn [go_err_isnil negb]; [|split; [discriminate|congruence]].
    destruct (parse_header hj) as [[typ alg]|]; cbn [go_err_isnil negb o_hdr_alg o_hdr_typ]; [|split; [discriminate|congruence]].
    destruct (V1.Header_Valid alg typ) as [e|] eqn:E; cbn [go_err_isnil negb].
    { destruct (v1_header_valid typ alg) eqn:H; [apply v1_header_valid_src in H; congruence|]. cbn. split; [discriminate|congruence]. }
    apply v1_header_valid_src in E. rewrite E. cbn [negb].
    destruct (b64dec c1) as [data|]; cbn [go_err_isnil negb]; [|split; [discriminate|congruence]].
    destruct (unmarshal_ok k data); cbn [go_err_isnil negb]; [|split; [discriminate|congruence]].
    destruct (b64dec c2) as [sig|]; cbn [go_err_isnil negb]; [|split; [discriminate|congruence]].
    destruct (verify (issuer_of data) c1 sig); cbn [negb]; [|split; [discriminate|congruence]].
    unfold o_prefixes, v1_role_ok.
    destruct k; cbn; unfold o_is; destruct (role_of (issuer_of data)); cbn; split; congruence.
  Qed.
End Oracles.

Print Assumptions src_v1_decode_spec.

(* ---------- the version-1 DecodeGeneric: Decode into generic claims of its own, nothing before and nothing after -
   it refuses exactly when that Decode refuses, with its error (whatever the observations of the claims are) ---------- *)
Lemma src_v1_decode_generic (V : Type) (vnil : V) ds uh isA isC isO isS isU
    (iss : V -> string) (pre : V -> list Z) (ver : V -> string -> string -> bool) (unm : V -> string -> option string) halg htyp (tok : string) :
  V1.DecodeGeneric V vnil ds uh isA isC isO isS isU iss pre ver unm halg htyp tok
  = (vnil, V1.Decode V vnil ds uh isA isC isO isS isU halg htyp (iss vnil) (pre vnil) (ver vnil) (unm vnil) tok).
Proof.
  unfold V1.DecodeGeneric. cbv zeta.
  destruct (V1.Decode V vnil ds uh isA isC isO isS isU halg htyp (iss vnil) (pre vnil) (ver vnil) (unm vnil) tok); reflexivity.
Qed.
