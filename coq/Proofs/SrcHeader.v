(* Proofs/SrcHeader.v — functions translated from the Go source on this run (Gen/SrcHeader.v) are equal to the
   hand-written model functions the property theorems are about. *)
From JWT Require Import Base.GoSem Proofs.SrcBase Gen.SrcHeader Model.Decode.
Open Scope string_scope.
Open Scope list_scope.

(* ---------- Header.Valid ---------- *)
Lemma src_header_valid typ alg : V2.Header_Valid alg typ = None <-> header_valid typ alg = true.
Proof.
  unfold V2.Header_Valid, header_valid, Gen.Tables.token_type_jwt, Gen.Tables.alg_old, Gen.Tables.alg_new. cbv zeta.
  destruct ("JWT" =? to_upper typ); cbn [negb andb]; [|split; discriminate].
  destruct (has_prefix "ed25519" (to_lower alg)); cbn [negb andb]; [|split; discriminate].
  destruct ("ed25519" =? to_lower alg); destruct ("ed25519-nkey" =? to_lower alg); cbn; split; congruence.
Qed.

(* ---------- identifier.Kind / identifier.Version ---------- *)
Lemma src_id_kind i : V2.identifier_Kind (id_nats_type i) (id_top_type i) = id_kind i.
Proof. reflexivity. Qed.
Lemma src_id_version i : V2.identifier_Version (id_nats_version i) (id_top_type i) = id_version i.
Proof. reflexivity. Qed.

