(* Proofs/SrcLists.v — functions translated from the Go source on this run (Gen/SrcLists.v) are equal to the
   hand-written model functions the property theorems are about. *)
From JWT Require Import Base.GoSem Proofs.SrcBase Gen.SrcLists Model.Lists Proofs.Lists.
Open Scope string_scope.
Open Scope list_scope.

(* ---------- StringList / TagList: Contains, Add, Remove (at the level of the visible elements) ---------- *)
Definition cobody (p : string) (_ : Z) (t : string) (_ : unit) : ctl unit bool :=
  if (t =? p)%string then Ret true else Cont tt.
Lemma coloop p : forall (u : list string) (i : Z),
  match go_range (cobody p) i u tt with inr r => r | inl _ => false end = mem p u.
Proof.
  induction u as [|t u IH]; intros i; [reflexivity|].
  cbn [go_range]. unfold cobody at 1. unfold mem. cbn [existsb]. destruct (t =? p); [reflexivity|]. apply IH.
Qed.
Lemma src_string_contains u p : V2.StringList_Contains u p = mem p u.
Proof. exact (coloop p u 0%Z). Qed.
Lemma src_tag_contains u p : V2.TagList_Contains u p = mem (norm_tag p) u.
Proof. exact (coloop (norm_tag p) u 0%Z). Qed.
Lemma src_v1_string_contains u p : V1.StringList_Contains u p = mem p u.
Proof. exact (coloop p u 0%Z). Qed.

Section ListLoops.
  Variable norm : string -> string.
  Variable contains : list string -> string -> bool.
  Hypothesis contains_spec : forall u v, contains u v = mem (norm v) u.
  Hypothesis norm_idem : forall x, norm (norm x) = norm x.

  Definition addbody (_ : Z) (v0 : string) (u : list string) : ctl (list string) (list string) :=
    let v := norm v0 in
    Cont (if (negb (contains u v) && negb (v =? "")%string) then u ++ [v] else u).
  Lemma addloop : forall (ps : list string) (i : Z) (u : list string),
    go_range addbody i ps u = inl (fold_left (spec_add1 norm) ps u).
  Proof.
    induction ps as [|x ps IH]; intros i u; [reflexivity|].
    cbn [go_range fold_left]. unfold addbody at 1. cbv zeta. rewrite contains_spec, norm_idem.
    unfold spec_add1 at 2.
    destruct (mem (norm x) u); destruct (norm x =? ""); cbn [negb andb orb]; apply IH.
  Qed.

  Definition rmbody (v : string) (i : Z) (t : string) (u : list string) : ctl (list string) (list string) :=
    if (t =? v)%string
    then Brk (go_slice u 0%Z i ++ go_slice u (i + 1)%Z (go_llen u))
    else Cont u.
  (* the inner loop over a snapshot [pre ++ rest] of u, from position [length pre] *)
  Lemma rminner v : forall (rest pre : list string) (u : list string),
    u = pre ++ rest ->
    go_range (R:=list string) (rmbody v) (Z.of_nat (length pre)) rest u =
    inl (match index_of v rest with
         | Some j => firstn (length pre + j) u ++ skipn (S (length pre + j)) u
         | None => u end).
  Proof.
    induction rest as [|t rest IH]; intros pre u Hu; [reflexivity|].
    cbn [go_range index_of]. unfold rmbody at 1. destruct (t =? v).
    - rewrite Nat.add_0_r. f_equal. rewrite go_slice_prefix, go_slice_suffix, Nat2Z.id.
      replace (Z.to_nat (Z.of_nat (length pre) + 1)) with (S (length pre)) by lia. reflexivity.
    - replace (Z.of_nat (length pre) + 1)%Z with (Z.of_nat (length (pre ++ [t]))) by (rewrite app_length; cbn [length]; lia).
      rewrite (IH (pre ++ [t]) u) by (rewrite <- app_assoc; exact Hu).
      rewrite app_length. cbn [length]. destruct (index_of v rest) as [j|]; cbn [option_map]; [|reflexivity].
      replace (length pre + 1 + j)%nat with (length pre + S j)%nat by lia. reflexivity.
  Qed.

  Definition rmouter (_ : Z) (v0 : string) (u : list string) : ctl (list string) (list string) :=
    let v := norm v0 in
    match go_range (R:=list string) (rmbody v) 0%Z u u with
    | inr r => Ret r
    | inl u' => Cont u'
    end.
  Lemma rmloop : forall (ps : list string) (i : Z) (u : list string), NoDup u ->
    go_range rmouter i ps u = inl (fold_left (spec_remove1 norm) ps u).
  Proof.
    induction ps as [|x ps IH]; intros i u Hnd; [reflexivity|].
    cbn [go_range fold_left]. unfold rmouter at 1. cbv zeta.
    pose proof (rminner (norm x) u [] u eq_refl) as Hin. cbn [length Z.of_nat Nat.add] in Hin. rewrite Hin.
    assert (Hstep : match index_of (norm x) u with
                    | Some j => firstn j u ++ skipn (S j) u | None => u end = spec_remove1 norm u x).
    { unfold spec_remove1. destruct (index_of (norm x) u) as [j|] eqn:Ej.
      - exact (proj2 (index_of_Some _ _ _ Hnd Ej)).
      - symmetry. apply filter_notin. now apply index_of_None. }
    rewrite Hstep. apply IH. unfold spec_remove1. now apply NoDup_filter.
  Qed.
End ListLoops.

Lemma mem_norm_id u v : V2.StringList_Contains u v = mem (norm_id v) u.
Proof. exact (src_string_contains u v). Qed.
Lemma norm_id_idem x : norm_id (norm_id x) = norm_id x.
Proof. reflexivity. Qed.

Lemma src_tag_add u ps : V2.TagList_Add u ps = fold_left (spec_add1 norm_tag) ps u.
Proof.
  transitivity (match go_range (addbody norm_tag V2.TagList_Contains) 0%Z ps u with inr r => r | inl st => st end); [reflexivity|].
  rewrite (addloop norm_tag V2.TagList_Contains src_tag_contains norm_tag_idempotent). reflexivity.
Qed.
Lemma src_string_add u ps : V2.StringList_Add u ps = fold_left (spec_add1 norm_id) ps u.
Proof.
  transitivity (match go_range (addbody norm_id V2.StringList_Contains) 0%Z ps u with inr r => r | inl st => st end); [reflexivity|].
  rewrite (addloop norm_id V2.StringList_Contains mem_norm_id norm_id_idem). reflexivity.
Qed.
Lemma src_tag_remove u ps : NoDup u -> V2.TagList_Remove u ps = fold_left (spec_remove1 norm_tag) ps u.
Proof.
  intros Hnd.
  transitivity (match go_range (rmouter norm_tag) 0%Z ps u with inr r => r | inl st => st end); [reflexivity|].
  rewrite (rmloop norm_tag ps 0%Z u Hnd). reflexivity.
Qed.
Lemma src_string_remove u ps : NoDup u -> V2.StringList_Remove u ps = fold_left (spec_remove1 norm_id) ps u.
Proof.
  intros Hnd.
  transitivity (match go_range (rmouter norm_id) 0%Z ps u with inr r => r | inl st => st end); [reflexivity|].
  rewrite (rmloop norm_id ps 0%Z u Hnd). reflexivity.
Qed.


(* ---------- CIDRList (v2): Contains / Add / Remove are the tag list's under another name (the receiver converted to a pointer to a
   TagList: the same list seen through the tag list's methods); Set empties the list and adds the lower-cased text split on commas ---------- *)
Lemma src_cidr_contains u p : V2.CIDRList_Contains u p = mem (norm_tag p) u.
Proof. exact (src_tag_contains u p). Qed.
Lemma src_cidr_add u ps : V2.CIDRList_Add u ps = fold_left (spec_add1 norm_tag) ps u.
Proof. exact (src_tag_add u ps). Qed.
Lemma src_cidr_remove u ps : NoDup u -> V2.CIDRList_Remove u ps = fold_left (spec_remove1 norm_tag) ps u.
Proof. exact (src_tag_remove u ps). Qed.
Lemma src_cidr_set (c : list string) (values : string) : V2.CIDRList_Set c values = view (cidr_set values).
Proof.
  unfold V2.CIDRList_Set, cidr_set. cbv zeta. rewrite src_cidr_add.
  change (go_split (to_lower values) ",") with (split comma (to_lower values)).
  destruct (add_both norm_tag norm_tag_idempotent (split comma (to_lower values)) nil_slice (inv_nil norm_tag)) as [Hv _].
  rewrite Hv. reflexivity.
Qed.

(* ---------- CIDRList.UnmarshalJSON: a JSON array of texts is taken as it is; else a JSON text goes through Set; else the
   error of the second attempt, the list untouched.  json.Unmarshal into a list of texts / into a text are unknown
   functions of the body: here what the body is ([cidr_json], or neither). ---------- *)
Definition as_list_of (j : option cidr_json) (_ : string) : list string * option string :=
  match j with Some (CArr es) => (es, None) | _ => ([], Some "cannot unmarshal into a list of strings") end.
Definition as_string_of (j : option cidr_json) (_ : string) : string * option string :=
  match j with Some (CStr s) => (s, None) | _ => (""%string, Some "cannot unmarshal into a string") end.
Lemma src_cidr_unmarshal (j : option cidr_json) (c : list string) (body : string) :
  V2.CIDRList_UnmarshalJSON (as_list_of j) (as_string_of j) c body
  = match j with
    | Some jj => (cidr_unmarshal jj, None)
    | None => (c, Some "cannot unmarshal into a string")
    end.
Proof.
  unfold V2.CIDRList_UnmarshalJSON. cbv zeta. destruct j as [[es|s]|]; cbn [as_list_of as_string_of go_err_isnil cidr_unmarshal]; try reflexivity.
  rewrite src_cidr_set. reflexivity.
Qed.
