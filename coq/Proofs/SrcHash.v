(* Proofs/SrcHash.v — functions translated from the Go source on this run (Gen/SrcHash.v) are equal to the
   hand-written model functions the property theorems are about. *)
From JWT Require Import Base.GoSem Proofs.SrcBase Gen.SrcHash Model.Subject Model.HashID.
Open Scope string_scope.
Open Scope list_scope.

(* ---------- cleanSubject ---------- *)
Section Clean.
  Variable sp : list string.
  Definition clbody (i : Z) (tok : string) (cleaned : string) : ctl string string :=
    if ((tok =? "*")%string || (tok =? ">")%string)
    then if (i =? 0)%Z then Brk "_" else Brk (go_join (go_slice sp 0%Z i) ".")
    else Cont cleaned.

  Lemma clloop : forall (rest : list string) (n : nat) (c : string),
    go_range (R:=string) clbody (Z.of_nat n) rest c =
    inl match find_wc rest n with
        | None => c
        | Some O => "_"
        | Some i => join dot (firstn i sp)
        end.
  Proof.
    induction rest as [|tok rest IH]; intros n c; [reflexivity|].
    cbn [go_range find_wc]. unfold clbody at 1.
    destruct ((tok =? "*") || (tok =? ">")).
    - destruct n as [|n].
      + reflexivity.
      + replace (Z.of_nat (S n) =? 0)%Z with false by (symmetry; apply Z.eqb_neq; lia).
        rewrite go_slice_prefix, go_join_dot, Nat2Z.id. reflexivity.
    - replace (Z.of_nat n + 1)%Z with (Z.of_nat (S n)) by lia. apply IH.
  Qed.
End Clean.

Lemma src_clean_body subject :
  (let v_split := go_split subject "." in
   match go_range (R:=string) (clbody v_split) 0%Z v_split "" with
   | inr r => r
   | inl cleaned => if (cleaned =? "")%string then subject else cleaned
   end) = clean_subject subject.
Proof.
  cbv zeta. rewrite go_split_dot.
  pose proof (clloop (split dot subject) (split dot subject) 0 "") as H. cbn [Z.of_nat] in H. rewrite H.
  unfold clean_subject. reflexivity.
Qed.

Lemma src_clean_subject subject : V2.cleanSubject subject = clean_subject subject.
Proof. rewrite <- src_clean_body. reflexivity. Qed.
Lemma src_v1_clean_subject subject : V1.cleanSubject subject = clean_subject subject.
Proof. rewrite <- src_clean_body. reflexivity. Qed.

