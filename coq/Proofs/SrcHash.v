(* Proofs/SrcHash.v — functions translated from the Go source on this run (Gen/SrcHash.v) are equal to the
   hand-written model functions the property theorems are about. *)
From JWT Require Import Base.GoSem Proofs.SrcBase Gen.SrcHash Model.Subject Model.HashID.
Open Scope string_scope.
Open Scope list_scope.

(* ---------- cleanSubject ---------- *)
Section Clean.
  Variable sp : list string.
  Definition clbody (i : Z) (tok : string) (cleaned : string) : ctl string string :=
    if ((tok =? "*")%string || (tok =? ">")%string)
    then if (i =? 0)%Z then Brk "_" else Brk (go_join (go_slice sp 0%Z i) ".")
    else Cont cleaned.

  Lemma clloop : forall (rest : list string) (n : nat) (c : string),
    go_range (R:=string) clbody (Z.of_nat n) rest c =
    inl match find_wc rest n with
        | None => c
        | Some O => "_"
        | Some i => join dot (firstn i sp)
        end.
  Proof.
    induction rest as [|tok rest IH]; intros n c; [reflexivity|].
    cbn [go_range find_wc]. unfold clbody at 1.
    destruct ((tok =? "*") || (tok =? ">")).
    - destruct n as [|n].
      + reflexivity.
      + replace (Z.of_nat (S n) =? 0)%Z with false by (symmetry; apply Z.eqb_neq; lia).
        rewrite go_slice_prefix, go_join_dot, Nat2Z.id. reflexivity.
    - replace (Z.of_nat n + 1)%Z with (Z.of_nat (S n)) by lia. apply IH.
  Qed.
End Clean.

Lemma src_clean_body subject :
  (let v_split := go_split subject "." in
   match go_range (R:=string) (clbody v_split) 0%Z v_split "" with
   | inr r => r
   | inl cleaned => if (cleaned =? "")%string then subject else cleaned
   end) = clean_subject subject.
Proof.
  cbv zeta. rewrite go_split_dot.
  pose proof (clloop (split dot subject) (split dot subject) 0 "") as H. cbn [Z.of_nat] in H. rewrite H.
  unfold clean_subject. reflexivity.
Qed.

Lemma src_clean_subject subject : V2.cleanSubject subject = clean_subject subject.
Proof. rewrite <- src_clean_body. reflexivity. Qed.
Lemma src_v1_clean_subject subject : V1.cleanSubject subject = clean_subject subject.
Proof. rewrite <- src_clean_body. reflexivity. Qed.


(* ---------- ActivationClaims.HashID (both libraries): refused when issuer, subject or granted subject is missing;
   otherwise base32 of the digest of a fresh hash object that was written exactly the text issuer.subject.cleaned -
   whatever the hash object is (an opaque value: its making, the one write and the final Sum are unknown functions) *)
Lemma str_app_empty_r (s : string) : (s ++ "")%string = s.
Proof. induction s as [|c s IH]; [reflexivity|]. cbn. now rewrite IH. Qed.
Lemma str_app_assoc (a b c : string) : ((a ++ b) ++ c)%string = (a ++ b ++ c)%string.
Proof. induction a as [|x a IH]; [reflexivity|]. cbn. now rewrite IH. Qed.
Section HashID.
  Context {V : Type} (vnil : V) (b32 : string -> string) (hnew : V) (hsum : V -> string -> string) (hwrite : V -> string -> V).
  Definition hash_of (text : string) : string := b32 (hsum (hwrite hnew text) "").
  Definition hash_result (o : option string) : string * option string :=
    match o with Some h => (h, None) | None => ("", Some "not enough data in the activaion claims to create a hash") end.
  Lemma src_hash_id (iss sub imp : string) :
    V2.ActivationClaims_HashID V vnil imp iss sub b32 hnew hsum hwrite = hash_result (hash_id hash_of iss sub imp).
  Proof.
    unfold V2.ActivationClaims_HashID, hash_id, hash_of, preimage. cbv zeta. rewrite src_clean_subject.
    destruct ((iss =? "") || (sub =? "") || (imp =? "")); [reflexivity|].
    cbn [hash_result]. cbn [String.append]. rewrite ?str_app_assoc, ?str_app_empty_r. reflexivity.
  Qed.
  Lemma src_v1_hash_id (iss sub imp : string) :
    V1.ActivationClaims_HashID V vnil imp iss sub b32 hnew hsum hwrite = hash_result (hash_id hash_of iss sub imp).
  Proof.
    unfold V1.ActivationClaims_HashID, hash_id, hash_of, preimage. cbv zeta. rewrite src_v1_clean_subject.
    destruct ((iss =? "") || (sub =? "") || (imp =? "")); [reflexivity|].
    cbn [hash_result]. cbn [String.append]. rewrite ?str_app_assoc, ?str_app_empty_r. reflexivity.
  Qed.
End HashID.
