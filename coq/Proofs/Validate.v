(* Proofs/Validate.v — proofs of the statements of Properties/C06.v, C07.v and
   C10.v about Model/Validate.v (catalogue predicates: Model/Catalogue.v). *)
From JWT Require Import Model.Validate.
From JWT Require Import Model.Catalogue.
From Coq Require Import Btauto.
Open Scope string_scope.
Open Scope Z_scope.

(* ====================================================================== *)
(* 1. Generic facts about booleans and lists                               *)
(* ====================================================================== *)

Lemma bool_eq_iff (a b : bool) : (a = true <-> b = true) -> a = b.
Proof. destruct a, b; intros [H1 H2]; try reflexivity; [symmetry; now apply H1|now apply H2]. Qed.

Lemma existsb_ext' {A} (f g : A -> bool) l :
  (forall x, In x l -> f x = g x) -> existsb f l = existsb g l.
Proof.
  induction l as [|x r IH]; intros H; [reflexivity|]. simpl.
  rewrite (H x (or_introl eq_refl)), IH; [reflexivity|]. intros y Hy. apply H. now right.
Qed.

Lemma existsb_map' {A B} (f : B -> bool) (g : A -> B) l :
  existsb f (map g l) = existsb (fun x => f (g x)) l.
Proof. induction l as [|x r IH]; [reflexivity|]. simpl. now rewrite IH. Qed.

Lemma existsb_orb {A} (f g : A -> bool) l :
  existsb (fun x => f x || g x) l = existsb f l || existsb g l.
Proof.
  induction l as [|x r IH]; [reflexivity|]. simpl. rewrite IH.
  destruct (f x), (g x), (existsb f r), (existsb g r); reflexivity.
Qed.

Lemma existsb_false {A} (l : list A) : existsb (fun _ => false) l = false.
Proof. induction l as [|x r IH]; [reflexivity|exact IH]. Qed.

Lemma existsb_swap {A B} (f : A -> B -> bool) l1 l2 :
  existsb (fun x => existsb (fun y => f x y) l2) l1 = existsb (fun y => existsb (fun x => f x y) l1) l2.
Proof.
  apply bool_eq_iff. rewrite !existsb_exists. split.
  - intros [x [Hx H]]. apply existsb_exists in H. destruct H as [y [Hy H]].
    exists y. split; [exact Hy|]. apply existsb_exists. now exists x.
  - intros [y [Hy H]]. apply existsb_exists in H. destruct H as [x [Hx H]].
    exists x. split; [exact Hx|]. apply existsb_exists. now exists y.
Qed.

Lemma negb_forallb {A} (f : A -> bool) l : negb (forallb f l) = existsb (fun x => negb (f x)) l.
Proof. induction l as [|x r IH]; [reflexivity|]. simpl. rewrite negb_andb, IH. reflexivity. Qed.

Lemma existsb_filter_nil {A} (f : A -> bool) l : negb (is_nil (filter f l)) = existsb f l.
Proof. induction l as [|x r IH]; [reflexivity|]. simpl. destruct (f x); [reflexivity|exact IH]. Qed.

Lemma existsb_mem_ext {A} (f : A -> bool) l1 l2 :
  (forall x, In x l1 <-> In x l2) -> existsb f l1 = existsb f l2.
Proof.
  intros H. apply bool_eq_iff. rewrite !existsb_exists.
  split; intros [x [Hx Hf]]; exists x; (split; [now apply H|exact Hf]).
Qed.

Lemma map_nth_seq {A} (l : list A) d : map (fun i => nth i l d) (seq 0 (List.length l)) = l.
Proof.
  induction l as [|x r IH]; [reflexivity|].
  simpl. rewrite <- seq_shift, map_map. simpl. now rewrite IH.
Qed.

Lemma combine_map_l {A B C} (f : A -> C) (s : list A) (l : list B) :
  combine (map f s) l = map (fun p => (f (fst p), snd p)) (combine s l).
Proof.
  revert l. induction s as [|a s IH]; intros l; [reflexivity|].
  destruct l as [|y l]; [reflexivity|]. simpl. now rewrite IH.
Qed.

Lemma combine_seq_nth {A} (l : list A) d :
  combine (seq 0 (List.length l)) l = map (fun i => (i, nth i l d)) (seq 0 (List.length l)).
Proof.
  induction l as [|x r IH]; [reflexivity|].
  simpl. f_equal. rewrite <- seq_shift, map_map, combine_map_l, IH, map_map. reflexivity.
Qed.

Lemma fold_left_right_sum {A} (f : A -> Z) l a :
  fold_left (fun acc w => acc + f w) l a = a + fold_right (fun w acc => f w + acc) 0 l.
Proof.
  revert a. induction l as [|x r IH]; intros a; simpl; [lia|]. rewrite IH. lia.
Qed.

(* ====================================================================== *)
(* 2. Algebra of is_blocking and time_issues                               *)
(* ====================================================================== *)

Local Notation blk := (is_blocking false).

Lemma blk_app b l1 l2 : is_blocking b (l1 ++ l2) = is_blocking b l1 || is_blocking b l2.
Proof. apply existsb_app. Qed.

Lemma blk_flat_map {A} b (f : A -> list issue) l :
  is_blocking b (flat_map f l) = existsb (fun x => is_blocking b (f x)) l.
Proof. induction l as [|x r IH]; [reflexivity|]. simpl. now rewrite blk_app, IH. Qed.

Lemma blk_nil b : is_blocking b [] = false.
Proof. reflexivity. Qed.
Lemma blk_one b : is_blocking b [Blocking] = true.
Proof. reflexivity. Qed.
Lemma blk_cons_B b l : is_blocking b (Blocking :: l) = true.
Proof. reflexivity. Qed.
Lemma blk_when_B b c : is_blocking b (when c Blocking) = c.
Proof. destruct c; reflexivity. Qed.
Lemma blk_when_W b c : is_blocking b (when c Warning) = false.
Proof. destruct c; reflexivity. Qed.
Lemma blk_when_T c : blk (when c TimeCheck) = false.
Proof. destruct c; reflexivity. Qed.
Lemma blk_if b (c : bool) l1 l2 :
  is_blocking b (if c then l1 else l2) = if c then is_blocking b l1 else is_blocking b l2.
Proof. destruct c; reflexivity. Qed.
Lemma blk_map_B {A} b (l : list A) : is_blocking b (map (fun _ => Blocking) l) = negb (is_nil l).
Proof. destruct l; reflexivity. Qed.

Global Hint Rewrite blk_app @blk_flat_map blk_nil blk_one blk_cons_B blk_when_B blk_when_W blk_when_T blk_if @blk_map_B : blk.

Lemma ti_app l1 l2 : time_issues (l1 ++ l2) = (time_issues l1 + time_issues l2)%nat.
Proof. unfold time_issues. now rewrite filter_app, app_length. Qed.

Definition no_time (l : list issue) : Prop := time_issues l = 0%nat.

Lemma nt_app l1 l2 : no_time l1 -> no_time l2 -> no_time (l1 ++ l2).
Proof. unfold no_time. intros H1 H2. now rewrite ti_app, H1, H2. Qed.
Lemma nt_nil : no_time [].
Proof. reflexivity. Qed.
Lemma nt_one_B : no_time [Blocking].
Proof. reflexivity. Qed.
Lemma nt_cons_B l : no_time l -> no_time (Blocking :: l).
Proof. intros H; exact H. Qed.
Lemma nt_when_B c : no_time (when c Blocking).
Proof. destruct c; reflexivity. Qed.
Lemma nt_when_W c : no_time (when c Warning).
Proof. destruct c; reflexivity. Qed.
Lemma nt_flat_map {A} (f : A -> list issue) l : (forall x, no_time (f x)) -> no_time (flat_map f l).
Proof.
  intros H. induction l as [|x r IH]; [reflexivity|]. simpl. apply nt_app; [apply H|exact IH].
Qed.
Lemma nt_map_B {A} (l : list A) : no_time (map (fun _ => Blocking) l).
Proof. induction l as [|x r IH]; [reflexivity|exact IH]. Qed.
Lemma nt_if (c : bool) l1 l2 : no_time l1 -> no_time l2 -> no_time (if c then l1 else l2).
Proof. destruct c; auto. Qed.

Global Hint Resolve nt_app nt_nil nt_one_B nt_cons_B nt_when_B nt_when_W nt_map_B nt_if : nt.

(* no time issue: the two readings of IsBlocking agree *)
Lemma blocking_with_time : forall l : list issue,
  is_blocking true l = is_blocking false l || Nat.ltb 0 (time_issues l).
Proof.
  induction l as [|i r IH]; [reflexivity|].
  change (is_blocking true (i :: r)) with (issue_blocks true i || is_blocking true r).
  change (is_blocking false (i :: r)) with (issue_blocks false i || is_blocking false r).
  rewrite IH. unfold time_issues. simpl.
  destruct i; simpl; try reflexivity.
  now rewrite orb_true_r.
Qed.

Lemma time_alone_never_blocks : forall l : list issue,
  is_blocking false l = is_blocking false (filter (fun i => match i with TimeCheck => false | _ => true end) l).
Proof.
  induction l as [|i r IH]; [reflexivity|]. destruct i; simpl; [reflexivity|exact IH|exact IH].
Qed.

Lemma nt_blocking_same l : no_time l -> is_blocking true l = is_blocking false l.
Proof. intros H. rewrite blocking_with_time, H. simpl. apply orb_false_r. Qed.

(* ====================================================================== *)
(* 3. One lemma per Validate method: blocking = catalogue; no time issue   *)
(* ====================================================================== *)

Lemma string_eqb_sym (a b : string) : (a =? b)%string = (b =? a)%string.
Proof. apply String.eqb_sym. Qed.

(* same body as Properties/C07.v's definition (convertible) *)
Definition expected_time_issues (now exp nbf : Z) : nat :=
  ((if ((0 <? exp) && (exp <? now))%Z then 1 else 0) + (if ((0 <? nbf) && (now <? nbf))%Z then 1 else 0))%nat.

Section VProofs.
  Variable now : Z.
  Variable role_of : string -> role.
  Variable url_of : string -> url_view.
  Variable cidr_ok : string -> bool.
  Variable hhmmss_ok : string -> bool.
  Variable tz_ok : string -> bool.
  Variable act_of : string -> option act_view.

  (* ---------- subject, info ---------- *)
  Lemma blk_subject s : blk (v_subject s) = subject_bad s.
  Proof.
    unfold v_subject, subject_bad. autorewrite with blk.
    destruct (s =? "")%string; [reflexivity|]. simpl. btauto.
  Qed.
  Lemma nt_subject s : no_time (v_subject s).
  Proof. unfold v_subject. auto 10 with nt. Qed.

  Lemma nonnil_subject s : negb (is_nil (v_subject s)) = subject_bad s.
  Proof.
    unfold v_subject, subject_bad.
    destruct (s =? "")%string; [reflexivity|]. simpl.
    destruct (contains " " s); [reflexivity|].
    destruct (is_dot (str_first s)); [reflexivity|].
    destruct (is_dot (str_last s)); [reflexivity|].
    destruct (contains ".." s); reflexivity.
  Qed.

  Lemma blk_info d u : blk (v_info url_of d u) = info_bad url_of d u.
  Proof.
    unfold v_info, info_bad. autorewrite with blk.
    destruct (u =? "")%string; simpl; btauto.
  Qed.
  Lemma nt_info d u : no_time (v_info url_of d u).
  Proof. unfold v_info. auto 10 with nt. Qed.

  (* ---------- exports ---------- *)
  Lemma blk_latency l :
    blk (v_latency l) =
    (negb (lat_sampling l =? 0) && ((lat_sampling l <? 1) || (100 <? lat_sampling l)))
    || subject_bad (lat_results l) || has_wildcards (lat_results l).
  Proof. unfold v_latency. autorewrite with blk. rewrite blk_subject. btauto. Qed.
  Lemma nt_latency l : no_time (v_latency l).
  Proof. unfold v_latency. auto 10 using nt_subject with nt. Qed.

  Lemma blk_export oe : blk (v_export url_of oe) = export_bad url_of oe.
  Proof.
    destruct oe as [e|]; [|reflexivity].
    unfold v_export, export_bad, service, stream, is_service, is_stream.
    cbv zeta. autorewrite with blk.
    rewrite blk_subject, blk_info.
    assert (HL : blk match ex_latency e with
                     | Some l => (when (negb (ex_type e =? 2)) Blocking ++ v_latency l)%list
                     | None => []
                     end
                 = match ex_latency e with
                   | Some l => negb (ex_type e =? 2)
                               || (negb (lat_sampling l =? 0) && ((lat_sampling l <? 1) || (100 <? lat_sampling l)))
                               || subject_bad (lat_results l) || has_wildcards (lat_results l)
                   | None => false
                   end).
    { destruct (ex_latency e) as [l|]; [|reflexivity].
      autorewrite with blk. rewrite blk_latency. btauto. }
    rewrite HL. clear HL.
    generalize (match ex_latency e with
                | Some l => negb (ex_type e =? 2)
                            || (negb (lat_sampling l =? 0) && ((lat_sampling l <? 1) || (100 <? lat_sampling l)))
                            || subject_bad (lat_results l) || has_wildcards (lat_results l)
                | None => false
                end) as LAT. intros LAT.
    cbn [existsb].
    rewrite (string_eqb_sym "" (ex_response_type e)), (string_eqb_sym "Singleton" (ex_response_type e)),
            (string_eqb_sym "Stream" (ex_response_type e)), (string_eqb_sym "Chunked" (ex_response_type e)).
    btauto.
  Qed.
  Lemma nt_export oe : no_time (v_export url_of oe).
  Proof.
    destruct oe as [e|]; [|reflexivity]. unfold v_export. cbv zeta.
    repeat (apply nt_app || apply nt_if); auto using nt_subject, nt_info with nt.
    destruct (ex_latency e); auto using nt_latency with nt.
  Qed.

  Lemma dedup_is_nil l : is_nil (dedup l) = is_nil l.
  Proof.
    induction l as [|x r IH]; [reflexivity|]. simpl.
    destruct (existsb (fun y => (y =? x)%string) r) eqn:E; [|reflexivity].
    rewrite IH. destruct r; [discriminate E|reflexivity].
  Qed.
  Lemma is_nil_map {A B} (f : A -> B) l : is_nil (map f l) = is_nil l.
  Proof. destruct l; reflexivity. Qed.

  Lemma blk_overlaps l : blk (v_overlaps l) = overlap l.
  Proof.
    unfold v_overlaps. rewrite blk_map_B. unfold containers.
    rewrite dedup_is_nil, is_nil_map, existsb_filter_nil.
    unfold indexed. rewrite (combine_seq_nth l ""), existsb_map'.
    unfold overlap.
    rewrite (existsb_swap (fun i j => negb (Nat.eqb i j) && is_contained_in (nth i l "") (nth j l ""))).
    apply existsb_ext'. intros j _. rewrite existsb_map'. reflexivity.
  Qed.
  Lemma nt_overlaps l : no_time (v_overlaps l).
  Proof. apply nt_map_B. Qed.

  Lemma blk_exports l : blk (v_exports url_of l) = exports_bad url_of l.
  Proof.
    unfold v_exports, exports_bad. autorewrite with blk. rewrite !blk_overlaps.
    rewrite (existsb_ext' _ (export_bad url_of) l (fun x _ => blk_export x)).
    assert (H1 : class_subjects true l =
                 flat_map (fun oe => match oe with
                                     | Some e => if is_service (ex_type e) then [ex_subject e] else []
                                     | None => [] end) l).
    { unfold class_subjects. apply flat_map_ext. intros [e|]; [|reflexivity].
      unfold service, is_service. destruct (ex_type e =? 2); reflexivity. }
    assert (H2 : class_subjects false l =
                 flat_map (fun oe => match oe with
                                     | Some e => if is_service (ex_type e) then [] else [ex_subject e]
                                     | None => [] end) l).
    { unfold class_subjects. apply flat_map_ext. intros [e|]; [|reflexivity].
      unfold service, is_service. destruct (ex_type e =? 2); reflexivity. }
    rewrite H1, H2. btauto.
  Qed.
  Lemma nt_exports l : no_time (v_exports url_of l).
  Proof.
    unfold v_exports. repeat apply nt_app; auto using nt_overlaps.
    apply nt_flat_map, nt_export.
  Qed.

  (* ---------- renaming subjects ---------- *)
  Definition refs_of (toks : list string) : list Z :=
    flat_map (fun tk => match ref_token tk with Some n => [n] | None => [] end) toks.
  Lemma refs_of_cons tk r :
    refs_of (tk :: r) = match ref_token tk with Some n => n :: refs_of r | None => refs_of r end.
  Proof. unfold refs_of. cbn [flat_map]. destruct (ref_token tk); reflexivity. Qed.
  Lemma v_refs_cons tk r fc rc :
    v_refs (tk :: r) fc rc =
    let rc1 := if (tk =? "*")%string then rc + 1 else rc in
    match ref_token tk with
    | Some idx => if fc <? idx
                  then let '(is, c) := v_refs r fc rc1 in (Blocking :: is, c)
                  else v_refs r fc (rc1 + 1)
    | None => v_refs r fc rc1
    end.
  Proof. reflexivity. Qed.
  Lemma ref_token_star : ref_token "*" = None.
  Proof. reflexivity. Qed.

  Lemma v_refs_spec toks fc : forall rc,
    blk (fst (v_refs toks fc rc)) = existsb (fun n => fc <? n) (refs_of toks) /\
    snd (v_refs toks fc rc) =
      rc + Z.of_nat (List.length (filter (fun t => (t =? "*")%string) toks))
         + Z.of_nat (List.length (filter (fun n => n <=? fc) (refs_of toks))).
  Proof.
    induction toks as [|tk r IH]; intros rc.
    - simpl. split; [reflexivity|lia].
    - rewrite v_refs_cons, refs_of_cons. cbv zeta. cbn [filter].
      destruct (tk =? "*")%string eqn:E.
      + apply String.eqb_eq in E. subst tk. rewrite ref_token_star.
        destruct (IH (rc + 1)) as [H1 H2]. split; [exact H1|]. rewrite H2. cbn [List.length]. lia.
      + destruct (ref_token tk) as [idx|].
        * cbn [existsb filter]. rewrite (Z.leb_antisym fc idx).
          destruct (fc <? idx) eqn:F.
          -- destruct (IH rc) as [H1 H2]. destruct (v_refs r fc rc) as [is c].
             cbn [fst snd negb] in *. split; [reflexivity|exact H2].
          -- destruct (IH (rc + 1)) as [H1 H2]. cbn [negb orb]. split; [exact H1|].
             rewrite H2. cbn [List.length]. lia.
        * exact (IH rc).
  Qed.

  Lemma cwt_eq v : count_wild_tokens v = Z.of_nat (List.length (filter (fun t => (t =? "*")%string) (split dot v))).
  Proof.
    unfold count_wild_tokens. destruct (v =? "*")%string eqn:E; [|reflexivity].
    apply String.eqb_eq in E. subst v. reflexivity.
  Qed.

  Lemma blk_renaming v from : blk (v_renaming v from) = local_bad v from.
  Proof.
    unfold v_renaming. cbv zeta.
    destruct (v_refs_spec (split dot v) (count_wild_tokens from) 0) as [H1 H2].
    destruct (v_refs (split dot v) (count_wild_tokens from) 0) as [is rc].
    cbn [fst snd] in H1, H2.
    autorewrite with blk. rewrite blk_subject, H1, H2.
    unfold local_bad, gt_suffix, ends_gt, stars, refs. fold (refs_of (split dot v)).
    rewrite (cwt_eq v), Z.add_0_l. btauto.
  Qed.
  Lemma nt_refs toks fc : forall rc, no_time (fst (v_refs toks fc rc)).
  Proof.
    induction toks as [|tk r IH]; intros rc; [reflexivity|].
    rewrite v_refs_cons. cbv zeta.
    destruct (ref_token tk) as [idx|]; [|apply IH].
    destruct (fc <? idx); [|apply IH].
    specialize (IH (if (tk =? "*")%string then rc + 1 else rc)).
    destruct (v_refs r fc (if (tk =? "*")%string then rc + 1 else rc)) as [is c]. exact IH.
  Qed.
  Lemma nt_renaming v from : no_time (v_renaming v from).
  Proof.
    unfold v_renaming. cbv zeta.
    pose proof (nt_refs (split dot v) (count_wild_tokens from) 0) as H.
    destruct (v_refs (split dot v) (count_wild_tokens from) 0) as [is rc]. cbn [fst] in H.
    auto 10 using nt_subject with nt.
  Qed.

  (* ---------- activation, import token, import ---------- *)
  Lemma blk_activation a : blk (v_activation role_of a) = activation_bad role_of a.
  Proof.
    unfold v_activation, activation_bad, service, stream, is_service, is_stream, is_role.
    autorewrite with blk. rewrite blk_subject. btauto.
  Qed.
  Lemma nt_activation a : no_time (v_activation role_of a).
  Proof. unfold v_activation. auto 10 using nt_subject with nt. Qed.

  Lemma blk_import_token ap i : blk (v_import_token role_of act_of ap i) = token_bad role_of act_of ap i.
  Proof.
    unfold v_import_token, token_bad, service, is_service.
    destruct (im_token i =? "")%string; [reflexivity|]. cbn [negb andb].
    destruct (act_of (im_token i)) as [av|]; [|reflexivity]. cbv zeta.
    autorewrite with blk. rewrite blk_activation. btauto.
  Qed.
  Lemma nt_import_token ap i : no_time (v_import_token role_of act_of ap i).
  Proof.
    unfold v_import_token. destruct (im_token i =? "")%string; [reflexivity|].
    destruct (act_of (im_token i)) as [av|]; [|reflexivity]. cbv zeta.
    auto 10 using nt_activation with nt.
  Qed.

  Lemma blk_import ap oi : blk (v_import role_of act_of ap oi) = import_bad role_of act_of ap oi.
  Proof.
    destruct oi as [i|]; [|reflexivity].
    unfold v_import, import_bad, service, stream, is_service, is_stream. cbv zeta.
    autorewrite with blk. rewrite blk_subject, blk_renaming, blk_import_token.
    destruct (im_local i =? "")%string; cbn [negb andb]; btauto.
  Qed.
  Lemma nt_import ap oi : no_time (v_import role_of act_of ap oi).
  Proof.
    destruct oi as [i|]; [|reflexivity]. unfold v_import. cbv zeta.
    auto 12 using nt_subject, nt_renaming, nt_import_token with nt.
  Qed.

  (* ---------- imports: the duplicate / overlap loop ---------- *)
  Lemma contained_loop_refl l : contained_loop l l = true.
  Proof.
    induction l as [|a r IH]; [reflexivity|]. cbn [contained_loop].
    destruct (is_nil r && (a =? ">")%string); [reflexivity|].
    rewrite string_eqb_refl. cbn [negb andb]. exact IH.
  Qed.
  Lemma icin_refl s : is_contained_in s s = true.
  Proof.
    unfold is_contained_in, contained_toks. rewrite Nat.ltb_irrefl. cbn [andb].
    apply contained_loop_refl.
  Qed.

  Definition ov (a b : string) : bool := is_contained_in a b || is_contained_in b a.
  Definition clash (S : list string) (sub : string) : bool := existsb (fun k => ov sub k) S.
  Fixpoint G (S ks : list string) : bool :=
    match ks with [] => false | sub :: r => clash S sub || G (S ++ [sub]) r end.
  Fixpoint pairs (ks : list string) : bool :=
    match ks with [] => false | k :: r => existsb (fun sub => ov sub k) r || pairs r end.

  Lemma G_cons S sub r : G S (sub :: r) = clash S sub || G (S ++ [sub]) r.
  Proof. reflexivity. Qed.
  Lemma pairs_cons k r : pairs (k :: r) = existsb (fun sub => ov sub k) r || pairs r.
  Proof. reflexivity. Qed.

  Lemma service_keys_cons_some i r :
    service_keys (Some i :: r) = if is_service (im_type i) then service_key i :: service_keys r else service_keys r.
  Proof.
    unfold service_keys, service, is_service. cbn [flat_map].
    destruct (im_type i =? 2); reflexivity.
  Qed.
  Lemma service_keys_cons_none r : service_keys (None :: r) = service_keys r.
  Proof. reflexivity. Qed.

  Lemma loop_spec ap l : forall S S',
    (forall k, In k S <-> In k S') ->
    blk (v_imports_loop role_of act_of ap l S)
    = existsb (import_bad role_of act_of ap) l || G S' (service_keys l).
  Proof.
    induction l as [|[i|] r IH]; intros S S' HS.
    - reflexivity.
    - cbn [v_imports_loop existsb]. rewrite service_keys_cons_some.
      destruct (is_service (im_type i)) eqn:Esvc.
      + autorewrite with blk. rewrite blk_import.
        rewrite (existsb_ext' _ (fun k => ov (service_key i) k) S)
          by (intros k _; apply blk_when_B).
        fold (clash S (service_key i)).
        rewrite G_cons. unfold clash at 2.
        rewrite (existsb_mem_ext _ S' S) by (intros k; symmetry; apply HS).
        fold (clash S (service_key i)).
        rewrite (IH _ (S' ++ [service_key i])%list).
        * destruct (existsb (fun k => (k =? service_key i)%string) S) eqn:Edup; [|btauto].
          assert (Hc : clash S (service_key i) = true).
          { apply existsb_exists in Edup. destruct Edup as [k [Hk Ek]].
            apply String.eqb_eq in Ek. subst k.
            unfold clash. apply existsb_exists. exists (service_key i). split; [exact Hk|].
            unfold ov. now rewrite icin_refl. }
          rewrite Hc. btauto.
        * intros k. rewrite in_app_iff.
          destruct (existsb (fun k0 => (k0 =? service_key i)%string) S) eqn:Edup.
          -- apply existsb_exists in Edup. destruct Edup as [k0 [Hk0 Ek0]].
             apply String.eqb_eq in Ek0. subst k0. split.
             ++ intros H. left. now apply HS.
             ++ intros [H|[H|[]]]; [now apply HS|now subst k].
          -- rewrite in_app_iff, (HS k). reflexivity.
      + autorewrite with blk. rewrite blk_import, (IH S S' HS). btauto.
    - reflexivity.
  Qed.

  Lemma G_spec ks : forall S, G S ks = existsb (clash S) ks || pairs ks.
  Proof.
    induction ks as [|sub r IH]; intros S; [reflexivity|].
    rewrite G_cons, pairs_cons. cbn [existsb]. rewrite IH.
    rewrite (existsb_ext' (clash (S ++ [sub])) (fun x => clash S x || ov x sub) r).
    - rewrite existsb_orb. btauto.
    - intros x _. unfold clash. rewrite existsb_app. cbn [existsb]. now rewrite orb_false_r.
  Qed.

  Lemma keys_overlap_iff ks :
    keys_overlap ks = true <->
    exists i j, (i < j)%nat /\ (j < List.length ks)%nat /\ ov (nth j ks "") (nth i ks "") = true.
  Proof.
    unfold keys_overlap. rewrite existsb_exists. split.
    - intros [i [Hi H]]. apply existsb_exists in H. destruct H as [j [Hj H]].
      apply andb_true_iff in H. destruct H as [Hlt H]. apply Nat.ltb_lt in Hlt.
      apply in_seq in Hj. exists i, j. split; [exact Hlt|]. split; [lia|exact H].
    - intros [i [j [Hij [Hj H]]]]. exists i. split; [apply in_seq; lia|].
      apply existsb_exists. exists j. split; [apply in_seq; lia|].
      apply andb_true_iff. split; [apply Nat.ltb_lt; exact Hij|exact H].
  Qed.

  Lemma pairs_of_idx ks : forall i j,
    (i < j)%nat -> (j < List.length ks)%nat -> ov (nth j ks "") (nth i ks "") = true -> pairs ks = true.
  Proof.
    induction ks as [|k r IH]; intros i j Hij Hj H; cbn [List.length] in Hj; [lia|].
    destruct j as [|j]; [lia|]. rewrite pairs_cons. apply orb_true_iff.
    destruct i as [|i]; cbn [nth] in H.
    - left. apply existsb_exists. exists (nth j r ""). split; [apply nth_In; lia|exact H].
    - right. apply (IH i j); [lia|lia|exact H].
  Qed.
  Lemma idx_of_pairs ks :
    pairs ks = true ->
    exists i j, (i < j)%nat /\ (j < List.length ks)%nat /\ ov (nth j ks "") (nth i ks "") = true.
  Proof.
    induction ks as [|k r IH]; intros H; [discriminate H|].
    rewrite pairs_cons in H. apply orb_true_iff in H. destruct H as [H|H].
    - apply existsb_exists in H. destruct H as [sub [Hin H]].
      destruct (In_nth r sub "" Hin) as [n [Hn En]].
      exists 0%nat, (S n). cbn [nth List.length]. rewrite En. split; [lia|]. split; [lia|exact H].
    - destruct (IH H) as [i [j [Hij [Hj Ho]]]].
      exists (S i), (S j). cbn [nth List.length]. split; [lia|]. split; [lia|exact Ho].
  Qed.
  Lemma pairs_keys_overlap ks : pairs ks = keys_overlap ks.
  Proof.
    apply bool_eq_iff. rewrite keys_overlap_iff. split.
    - apply idx_of_pairs.
    - intros [i [j [Hij [Hj H]]]]. exact (pairs_of_idx ks i j Hij Hj H).
  Qed.

  Lemma blk_imports ap l : blk (v_imports role_of act_of ap l) = imports_bad role_of act_of ap l.
  Proof.
    unfold v_imports, imports_bad. rewrite (loop_spec ap l [] []) by reflexivity.
    rewrite G_spec, pairs_keys_overlap.
    change (existsb (clash []) (service_keys l)) with (existsb (fun _ : string => false) (service_keys l)).
    rewrite existsb_false. reflexivity.
  Qed.
  Lemma nt_imports_loop ap l : forall S, no_time (v_imports_loop role_of act_of ap l S).
  Proof.
    induction l as [|[i|] r IH]; intros S; cbn [v_imports_loop]; [reflexivity| |apply nt_cons_B, IH].
    destruct (is_service (im_type i)).
    - apply nt_app; [apply nt_flat_map; intros k; apply nt_when_B|].
      apply nt_app; [apply nt_when_B|]. apply nt_app; [apply nt_import|apply IH].
    - apply nt_app; [apply nt_import|apply IH].
  Qed.
  Lemma nt_imports ap l : no_time (v_imports role_of act_of ap l).
  Proof. apply nt_imports_loop. Qed.

  (* ---------- limits, permissions, mappings, external authorization, signing keys ---------- *)
  Lemma js_zero_nonzero j : negb (js_zero j) = js_nonzero j.
  Proof.
    unfold js_zero, js_nonzero. rewrite negb_andb, negb_forallb, negb_involutive. reflexivity.
  Qed.
  Lemma blk_op_limits o : blk (v_op_limits o) = limits_bad o.
  Proof.
    unfold v_op_limits, limits_bad. rewrite <- js_zero_nonzero.
    destruct (is_nil (ol_tiers o)); [reflexivity|]. autorewrite with blk. reflexivity.
  Qed.
  Lemma nt_op_limits o : no_time (v_op_limits o).
  Proof. unfold v_op_limits. auto 10 with nt. Qed.

  Lemma blk_check_permission s q : blk (v_check_permission s q) = permission_entry_bad q s.
  Proof.
    unfold v_check_permission, permission_entry_bad.
    destruct (split space s) as [|a [|b [|c r]]]; try reflexivity.
    - apply blk_subject.
    - autorewrite with blk. rewrite !blk_subject. btauto.
  Qed.
  Lemma nt_check_permission s q : no_time (v_check_permission s q).
  Proof.
    unfold v_check_permission.
    destruct (split space s) as [|a [|b [|c r]]]; auto 10 using nt_subject with nt.
  Qed.
  Lemma blk_permission p q :
    blk (v_permission p q) = existsb (permission_entry_bad q) (p_allow p ++ p_deny p)%list.
  Proof.
    unfold v_permission. autorewrite with blk. rewrite existsb_app.
    f_equal; apply existsb_ext'; intros s _; apply blk_check_permission.
  Qed.
  Lemma blk_permissions p : blk (v_permissions p) = permissions_bad p.
  Proof. unfold v_permissions, permissions_bad. now rewrite blk_app, !blk_permission. Qed.
  Lemma nt_permissions p : no_time (v_permissions p).
  Proof.
    unfold v_permissions, v_permission.
    repeat apply nt_app; apply nt_flat_map; intros s; apply nt_check_permission.
  Qed.

  Lemma blk_mappings m : blk (v_mappings m) = mappings_bad m.
  Proof.
    unfold v_mappings, mappings_bad. rewrite blk_flat_map.
    apply existsb_ext'. intros e _. autorewrite with blk. rewrite blk_subject.
    rewrite (existsb_ext' _ (fun w => subject_bad (wm_subject w)) (snd e)) by (intros w _; apply blk_subject).
    rewrite (fold_left_right_sum eff_weight), Z.add_0_l.
    unfold weight_sum, eff_weight. btauto.
  Qed.
  Lemma nt_mappings m : no_time (v_mappings m).
  Proof.
    unfold v_mappings. apply nt_flat_map. intros e.
    apply nt_app; [apply nt_subject|]. apply nt_app; [|apply nt_when_B].
    apply nt_flat_map. intros w. apply nt_subject.
  Qed.

  Lemma blk_ext_auth a : blk (v_ext_auth role_of a) = ext_auth_bad role_of a.
  Proof.
    unfold v_ext_auth, ext_auth_bad, is_role. autorewrite with blk.
    rewrite (existsb_ext' _ (fun u => negb (role_eqb (role_of u) RUser)) (ea_users a))
      by (intros u _; apply blk_when_B).
    rewrite (existsb_ext' _ (fun x => if (x =? "*")%string then Nat.ltb 1 (List.length (ea_accounts a))
                                      else negb (role_eqb (role_of x) RAccount)) (ea_accounts a))
      by (intros x _; destruct (x =? "*")%string; apply blk_when_B).
    btauto.
  Qed.
  Lemma nt_ext_auth a : no_time (v_ext_auth role_of a).
  Proof.
    unfold v_ext_auth. apply nt_app; [apply nt_when_B|].
    apply nt_app; [apply nt_flat_map; intros u; apply nt_when_B|].
    apply nt_app; [|apply nt_when_B].
    apply nt_flat_map. intros x. destruct (x =? "*")%string; apply nt_when_B.
  Qed.

  Lemma blk_signing_keys l : blk (v_signing_keys role_of l) = signing_keys_bad role_of l.
  Proof.
    unfold v_signing_keys, signing_keys_bad, is_role. rewrite blk_flat_map.
    apply existsb_ext'. intros e _. destruct (snd e); apply blk_when_B.
  Qed.
  Lemma nt_signing_keys l : no_time (v_signing_keys role_of l).
  Proof.
    unfold v_signing_keys. apply nt_flat_map. intros e. destruct (snd e); apply nt_when_B.
  Qed.

  (* ---------- account ---------- *)
  Lemma import_count_absorb (le : bool) (imp n : Z) (x : bool) :
    (negb le && (0 <=? imp) && (imp <? n)) || ((negb (imp =? -1) && (imp <? n)) || x)
    = (negb (imp =? -1) && (imp <? n)) || x.
  Proof.
    destruct (imp <? n); [|now rewrite !andb_false_r].
    destruct (Z.eqb_spec imp (-1)) as [E|E]; [|now rewrite orb_true_l, orb_true_r].
    destruct (Z.leb_spec 0 imp) as [L|L]; [lia|]. now rewrite andb_false_r.
  Qed.

  Lemma blk_account ap a :
    blk (v_account role_of url_of act_of ap a) = account_bad role_of url_of act_of ap a.
  Proof.
    unfold v_account, account_bad, counts_bad, trace_bad. cbv zeta.
    autorewrite with blk.
    rewrite blk_imports, blk_exports, blk_op_limits, blk_permissions, blk_mappings, blk_ext_auth,
            blk_signing_keys, blk_info, import_count_absorb.
    rewrite (existsb_ext' (fun x => blk match x with
                                        | Some e => when (has_wildcards (ex_subject e)) Blocking
                                        | None => []
                                        end)
                          (fun oe => match oe with Some e => has_wildcards (ex_subject e) | None => false end)
                          (ac_exports a))
      by (intros [e|] _; [apply blk_when_B|reflexivity]).
    destruct (ac_trace a) as [t|].
    - autorewrite with blk. rewrite nonnil_subject.
      destruct (ol_exports (ac_limits a) =? -1); cbn [negb andb];
        destruct (ol_wildcards (ac_limits a)); cbn [negb andb]; btauto.
    - autorewrite with blk.
      destruct (ol_exports (ac_limits a) =? -1); cbn [negb andb];
        destruct (ol_wildcards (ac_limits a)); cbn [negb andb]; btauto.
  Qed.
  Lemma nt_account ap a : no_time (v_account role_of url_of act_of ap a).
  Proof.
    unfold v_account. cbv zeta.
    apply nt_app; [apply nt_imports|]. apply nt_app; [apply nt_exports|].
    apply nt_app; [apply nt_op_limits|]. apply nt_app; [apply nt_permissions|].
    apply nt_app; [apply nt_mappings|]. apply nt_app; [apply nt_ext_auth|].
    apply nt_app; [destruct (ac_trace a); auto 10 with nt|].
    apply nt_app; [|apply nt_app; [apply nt_signing_keys|apply nt_info]].
    apply nt_app; [apply nt_when_B|]. apply nt_app; [apply nt_when_B|].
    apply nt_if; [|apply nt_nil]. apply nt_app; [apply nt_when_B|].
    apply nt_if; [|apply nt_nil]. apply nt_flat_map. intros [e|]; [apply nt_when_B|apply nt_nil].
  Qed.

  (* ---------- operator ---------- *)
  Lemma service_url_ok_bad v : negb (service_url_ok url_of v) = service_url_bad url_of v.
  Proof.
    unfold service_url_ok, service_url_bad. cbv zeta. cbn [existsb].
    destruct (v =? "")%string; [reflexivity|]. cbn [negb andb].
    destruct (u_err (url_of v)); [reflexivity|].
    destruct (u_user (url_of v)); [reflexivity|].
    destruct (u_path (url_of v) =? "")%string; [|reflexivity]. cbn [negb orb].
    rewrite (string_eqb_sym "nats"), (string_eqb_sym "tls"), (string_eqb_sym "ws"), (string_eqb_sym "wss").
    now rewrite orb_false_r, <- !orb_assoc.
  Qed.
  Lemma version_ok_bad s : negb (version_ok s) = version_bad s.
  Proof.
    unfold version_ok, version_bad.
    destruct (s =? "")%string; [reflexivity|]. cbn [negb andb].
    destruct (split dot s) as [|a [|b [|c [|d r]]]]; try reflexivity.
    destruct (atoi a) as [x|]; [|reflexivity].
    destruct (atoi b) as [y|]; [|reflexivity].
    destruct (atoi c) as [z|]; [|reflexivity].
    rewrite !negb_andb, !(Z.ltb_antisym). reflexivity.
  Qed.

  Lemma blk_claims_data cd : blk (v_claims_data now cd) = false.
  Proof. unfold v_claims_data. now rewrite blk_app, !blk_when_T. Qed.

  Lemma ti_claims_data cd :
    time_issues (v_claims_data now cd) = expected_time_issues now (cd_exp cd) (cd_nbf cd).
  Proof.
    unfold v_claims_data, expected_time_issues. rewrite ti_app.
    destruct ((0 <? cd_exp cd) && (cd_exp cd <? now)), ((0 <? cd_nbf cd) && (now <? cd_nbf cd)); reflexivity.
  Qed.
  Lemma ti_cd_then cd l :
    no_time l -> time_issues (v_claims_data now cd ++ l) = expected_time_issues now (cd_exp cd) (cd_nbf cd).
  Proof. intros H. rewrite ti_app, ti_claims_data, H. apply Nat.add_0_r. Qed.
  Lemma ti_then_cd cd l :
    no_time l -> time_issues (l ++ v_claims_data now cd) = expected_time_issues now (cd_exp cd) (cd_nbf cd).
  Proof. intros H. rewrite ti_app, ti_claims_data, H. reflexivity. Qed.

  (* ====================================================================== *)
  (* 4. C06: blocking = some catalogued rule fires                           *)
  (* ====================================================================== *)

  Lemma account_blocking_iff : forall cd a,
    is_blocking false (v_account_claims now role_of url_of act_of cd a)
    = account_bad role_of url_of act_of (cd_sub cd) a.
  Proof.
    intros cd a. unfold v_account_claims.
    rewrite !blk_app, blk_claims_data, blk_account, blk_when_W. now rewrite orb_false_r.
  Qed.

  Lemma operator_blocking_iff : forall cd o,
    is_blocking false (v_operator_claims now role_of url_of cd o) = operator_bad role_of url_of o.
  Proof.
    intros cd o. unfold v_operator_claims, operator_bad, is_role.
    autorewrite with blk. rewrite blk_claims_data, version_ok_bad.
    rewrite (existsb_ext' _ (service_url_bad url_of) (op_service_urls o))
      by (intros v _; rewrite blk_when_B; apply service_url_ok_bad).
    rewrite (existsb_ext' _ (fun k => negb (role_eqb (role_of k) ROperator)) (op_signing_keys o))
      by (intros k _; apply blk_when_B).
    btauto.
  Qed.

  Lemma blk_time_range t : blk (v_time_range hhmmss_ok t) = time_range_bad hhmmss_ok t.
  Proof.
    unfold v_time_range, time_range_bad. autorewrite with blk.
    destruct (tr_start t =? "")%string, (tr_end t =? "")%string; btauto.
  Qed.
  Lemma blk_user_limits l :
    blk (v_user_limits cidr_ok hhmmss_ok tz_ok l)
    = existsb (fun c => negb (cidr_ok c)) (ul_src l)
      || existsb (time_range_bad hhmmss_ok) (ul_times l)
      || (negb (ul_locale l =? "")%string && negb (tz_ok (ul_locale l))).
  Proof.
    unfold v_user_limits. autorewrite with blk.
    rewrite (existsb_ext' _ (fun c => negb (cidr_ok c)) (ul_src l)) by (intros c _; apply blk_when_B).
    rewrite (existsb_ext' _ (time_range_bad hhmmss_ok) (ul_times l)) by (intros t _; apply blk_time_range).
    btauto.
  Qed.
  Lemma nt_user_limits l : no_time (v_user_limits cidr_ok hhmmss_ok tz_ok l).
  Proof.
    unfold v_user_limits.
    apply nt_app; [apply nt_flat_map; intros c; apply nt_when_B|].
    apply nt_app; [|apply nt_when_B].
    apply nt_flat_map. intros t. unfold v_time_range. auto 10 with nt.
  Qed.

  Lemma user_blocking_iff : forall cd u,
    is_blocking false (v_user_claims now role_of cidr_ok hhmmss_ok tz_ok cd u)
    = user_bad role_of cidr_ok hhmmss_ok tz_ok u.
  Proof.
    intros cd u. unfold v_user_claims, user_bad, is_role.
    rewrite !blk_app, blk_claims_data, blk_permissions, blk_user_limits, blk_when_B. btauto.
  Qed.

  Lemma activation_blocking_iff : forall tc cd a,
    is_blocking false (v_activation_claims now role_of tc cd a) = activation_bad role_of a.
  Proof.
    intros tc cd a. unfold v_activation_claims. rewrite blk_app, blk_activation.
    destruct tc; [now rewrite blk_claims_data|reflexivity].
  Qed.

  Lemma auth_request_blocking_iff : forall cd k,
    is_blocking false (v_auth_request now role_of cd k) = auth_request_bad role_of k.
  Proof.
    intros cd k. unfold v_auth_request, auth_request_bad, is_role.
    rewrite blk_app, blk_claims_data, orb_false_r.
    destruct (k =? "")%string; [reflexivity|apply blk_when_B].
  Qed.

  Lemma auth_response_blocking_iff : forall cd r,
    is_blocking false (v_auth_response now role_of cd r) = auth_response_bad role_of cd r.
  Proof.
    intros cd r. unfold v_auth_response, auth_response_bad, is_role.
    rewrite !blk_app, blk_claims_data, !blk_when_B. btauto.
  Qed.

  Lemma generic_blocking_iff : forall cd, is_blocking false (v_generic now cd) = false.
  Proof. intros cd. apply blk_claims_data. Qed.

  (* ====================================================================== *)
  (* 5. C07: exactly the expected time-check issues                          *)
  (* ====================================================================== *)

  Lemma time_account : forall cd a,
    time_issues (v_account_claims now role_of url_of act_of cd a) = expected_time_issues now (cd_exp cd) (cd_nbf cd).
  Proof.
    intros cd a. unfold v_account_claims. apply ti_cd_then.
    apply nt_app; [apply nt_account|apply nt_when_W].
  Qed.
  Lemma time_operator : forall cd o,
    time_issues (v_operator_claims now role_of url_of cd o) = expected_time_issues now (cd_exp cd) (cd_nbf cd).
  Proof.
    intros cd o. unfold v_operator_claims. apply ti_cd_then.
    apply nt_app; [apply nt_when_B|].
    apply nt_app; [apply nt_flat_map; intros v; apply nt_when_B|].
    apply nt_app; [apply nt_flat_map; intros v; apply nt_when_B|].
    apply nt_app; apply nt_when_B.
  Qed.
  Lemma time_user : forall cd u,
    time_issues (v_user_claims now role_of cidr_ok hhmmss_ok tz_ok cd u) = expected_time_issues now (cd_exp cd) (cd_nbf cd).
  Proof.
    intros cd u. unfold v_user_claims. apply ti_cd_then.
    apply nt_app; [apply nt_permissions|]. apply nt_app; [apply nt_user_limits|apply nt_when_B].
  Qed.
  Lemma time_activation : forall cd a,
    time_issues (v_activation_claims now role_of true cd a) = expected_time_issues now (cd_exp cd) (cd_nbf cd).
  Proof. intros cd a. unfold v_activation_claims. apply ti_cd_then, nt_activation. Qed.
  Lemma time_auth_request : forall cd k,
    time_issues (v_auth_request now role_of cd k) = expected_time_issues now (cd_exp cd) (cd_nbf cd).
  Proof.
    intros cd k. unfold v_auth_request. apply ti_then_cd.
    destruct (k =? "")%string; [apply nt_one_B|apply nt_when_B].
  Qed.
  Lemma time_auth_response : forall cd r,
    time_issues (v_auth_response now role_of cd r) = expected_time_issues now (cd_exp cd) (cd_nbf cd).
  Proof.
    intros cd r. unfold v_auth_response.
    rewrite !app_assoc. apply ti_then_cd.
    repeat apply nt_app; apply nt_when_B.
  Qed.
  Lemma time_generic : forall cd,
    time_issues (v_generic now cd) = expected_time_issues now (cd_exp cd) (cd_nbf cd).
  Proof. intros cd. apply ti_claims_data. Qed.

  (* ====================================================================== *)
  (* 6. C10: the activation token of an import                               *)
  (* ====================================================================== *)

  (* Properties/C10.v's [binding_ok], spelled out *)
  Local Notation bound act_pub i av :=
    ((cd_iss (av_cd av) = im_account i \/ at_issuer_account (av_act av) = im_account i) /\
     cd_sub (av_cd av) = act_pub /\
     at_type (av_act av) = im_type i /\
     is_blocking false (v_activation role_of (av_act av)) = false /\
     is_contained_in (if (im_type i =? 2) && negb (String.eqb (im_to i) "") then im_to i else im_subject i)
                     (at_subject (av_act av)) = true).

  Lemma token_blocking_iff : forall act_pub i,
    im_token i <> "" ->
    (is_blocking false (v_import_token role_of act_of act_pub i) = false <->
     exists av, act_of (im_token i) = Some av /\ bound act_pub i av).
  Proof.
    intros act_pub i Htok. unfold v_import_token, is_service.
    destruct (im_token i =? "")%string eqn:E; [apply String.eqb_eq in E; contradiction|].
    destruct (act_of (im_token i)) as [av|].
    - cbv zeta. rewrite !blk_app, !blk_when_B.
      rewrite !orb_false_iff, !negb_false_iff, orb_true_iff, !String.eqb_eq, Z.eqb_eq.
      split.
      + intros H. exists av. split; [reflexivity|exact H].
      + intros [av' [Eav H]]. injection Eav as <-. exact H.
    - split; [discriminate|]. intros [av [Eav _]]. discriminate Eav.
  Qed.

  Lemma no_token : forall act_pub i, im_token i = "" -> v_import_token role_of act_of act_pub i = [].
  Proof. intros act_pub i H. unfold v_import_token. rewrite H. reflexivity. Qed.

  Lemma expiry_ignored : forall act_pub i,
    time_issues (v_import_token role_of act_of act_pub i) = 0%nat /\
    is_blocking true (v_import_token role_of act_of act_pub i) = is_blocking false (v_import_token role_of act_of act_pub i).
  Proof.
    intros act_pub i. split; [apply nt_import_token|apply nt_blocking_same, nt_import_token].
  Qed.

  Lemma import_nonblocking : forall act_pub i,
    is_blocking false (v_import role_of act_of act_pub (Some i)) = false ->
    im_token i = "" \/ exists av, act_of (im_token i) = Some av /\ bound act_pub i av.
  Proof.
    intros act_pub i H. rewrite blk_import in H. unfold import_bad in H.
    apply orb_false_iff in H. destruct H as [_ H]. rewrite <- blk_import_token in H.
    destruct (String.eqb_spec (im_token i) "") as [E|E]; [left; exact E|right].
    apply (token_blocking_iff act_pub i E). exact H.
  Qed.

  Lemma existsb_false_in {A} (f : A -> bool) l x : existsb f l = false -> In x l -> f x = false.
  Proof.
    intros H Hin. destruct (f x) eqn:E; [|reflexivity].
    rewrite <- H. symmetry. apply existsb_exists. now exists x.
  Qed.

  Lemma account_nonblocking : forall cd a i,
    In (Some i) (ac_imports a) ->
    is_blocking false (v_account_claims now role_of url_of act_of cd a) = false ->
    im_token i = "" \/ exists av, act_of (im_token i) = Some av /\ bound (cd_sub cd) i av.
  Proof.
    intros cd a i Hin H. unfold v_account_claims in H.
    rewrite !blk_app in H. apply orb_false_iff in H. destruct H as [_ H].
    apply orb_false_iff in H. destruct H as [H _].
    unfold v_account in H. rewrite blk_app in H. apply orb_false_iff in H. destruct H as [H _].
    rewrite blk_imports in H. unfold imports_bad in H. apply orb_false_iff in H. destruct H as [H _].
    apply import_nonblocking. rewrite blk_import.
    exact (existsb_false_in _ _ _ H Hin).
  Qed.
End VProofs.

