(* Proofs/Concurrency.v — proofs for Properties/C17.v *)
From JWT Require Import Model.Concurrency Gen.Globals.
Open Scope string_scope.

(* ---- the generated tables ---- *)
(* identical copy of the definition in Properties/C17.v *)
Definition allowed_escapes : list string :=
  ["(*regexp.Regexp).FindAllSubmatch"; "(*regexp.Regexp).FindAllStringSubmatch"; "(*regexp.Regexp).String"].
(* ... or methods of standard-library values documented as immutable / safe for concurrent use: a compiled regular
   expression (except its one configuration method) and the base32 / base64 encodings *)
Definition safe_receiver_prefixes : list string :=
  ["(*regexp.Regexp)."; "(*encoding/base32.Encoding)."; "(*encoding/base64.Encoding)."; "(encoding/base32.Encoding)."; "(encoding/base64.Encoding)."].
Definition escape_allowed (e : string) : bool :=
  existsb (fun a => a =? e) allowed_escapes ||
  (existsb (fun p => JWT.Base.Strings.has_prefix p e) safe_receiver_prefixes && negb (e =? "(*regexp.Regexp).Longest")).

Lemma jwt_no_shared_writes :
  forallb (fun g => match g_writes g with [] => true | _ => false end) globals = true /\
  forallb (fun g => forallb escape_allowed (g_escapes g)) globals = true /\
  foreign_global_writes = [].
Proof. split; [|split]; vm_compute; reflexivity. Qed.

Lemma readonly_queries_pure : forallb (fun q => negb (snd q)) query_stores = true.
Proof. vm_compute; reflexivity. Qed.

Open Scope list_scope.

(* ---- list lemmas on update ---- *)
Lemma update_length : forall A (l : list A) n x, List.length (update n x l) = List.length l.
Proof.
  intros A l; induction l as [|y r IH]; intros n x; destruct n; simpl; auto.
Qed.

Lemma nth_error_update_eq : forall A (l : list A) n x y,
  nth_error l n = Some y -> nth_error (update n x l) n = Some x.
Proof.
  intros A l; induction l as [|z r IH]; intros n x y Hn; destruct n; simpl in *; try discriminate; auto.
  eapply IH; eauto.
Qed.

Lemma nth_error_update_neq : forall A (l : list A) n m x,
  n <> m -> nth_error (update n x l) m = nth_error l m.
Proof.
  intros A l; induction l as [|z r IH]; intros n m x Hnm; destruct n; destruct m; simpl; auto.
  all: try congruence.
  all: apply IH; congruence.
Qed.

Section Interleave.
  Variables Sh L Op R : Type.
  Variable step : Sh -> L -> Op -> Sh * L * R.
  Hypothesis Hstep : forall s l o, fst (fst (step s l o)) = s.

  Notation run_seq' := (run_seq Sh L Op R step).
  Notation sched_step' := (sched_step Sh L Op R step).
  Notation run_sched' := (run_sched Sh L Op R step).
  Notation thread' := (thread L Op R).

  Lemma run_seq_cons : forall s l o r,
    run_seq' s l (o :: r) =
    (fst (fst (run_seq' s (snd (fst (step s l o))) r)),
     snd (fst (run_seq' s (snd (fst (step s l o))) r)),
     snd (step s l o) :: snd (run_seq' s (snd (fst (step s l o))) r)).
  Proof.
    intros s l o r. simpl.
    pose proof (Hstep s l o) as Hs.
    destruct (step s l o) as [[s1 l1] x]. simpl in *. subst s1.
    destruct (run_seq' s l1 r) as [[s2 l2] xs]. reflexivity.
  Qed.

  Lemma start_nth : forall (objs : list L) (progs : list (list Op)) i l p,
    nth_error objs i = Some l -> nth_error progs i = Some p ->
    nth_error (start L Op R objs progs) i = Some {| t_obj := l; t_prog := p; t_res := [] |}.
  Proof.
    intros objs; induction objs as [|a objs IH]; intros progs i l p Ho Hp.
    - destruct i; discriminate.
    - destruct progs as [|q progs]; [destruct i; discriminate|].
      destruct i as [|i]; simpl in *.
      + inversion Ho; inversion Hp; subst; reflexivity.
      + apply IH; assumption.
  Qed.

  (* the invariant on one thread record relative to its whole program *)
  Definition tinv (s0 : Sh) (l : L) (p : list Op) (t : thread') : Prop :=
    snd (run_seq' s0 l p) = t_res L Op R t ++ snd (run_seq' s0 (t_obj L Op R t) (t_prog L Op R t)) /\
    snd (fst (run_seq' s0 l p)) = snd (fst (run_seq' s0 (t_obj L Op R t) (t_prog L Op R t))).

  Definition inv (s0 : Sh) (objs : list L) (progs : list (list Op)) (st : Sh * list thread') : Prop :=
    fst st = s0 /\
    forall i l p, nth_error objs i = Some l -> nth_error progs i = Some p ->
      exists t, nth_error (snd st) i = Some t /\ tinv s0 l p t.

  Lemma inv_step : forall s0 objs progs st i,
    inv s0 objs progs st -> inv s0 objs progs (sched_step' st i).
  Proof.
    intros s0 objs progs [s ts] i [Hs Hts]. simpl in Hs. subst s.
    unfold sched_step.
    destruct (nth_error ts i) as [t|] eqn:Hnth; [|split; [reflexivity|exact Hts]].
    destruct (t_prog L Op R t) as [|o rest] eqn:Hprog; [split; [reflexivity|exact Hts]|].
    split.
    { pose proof (Hstep s0 (t_obj L Op R t) o) as Hst.
      destruct (step s0 (t_obj L Op R t) o) as [[s' l'] x]. exact Hst. }
    intros j l p Ho Hp.
    destruct (Hts j l p Ho Hp) as [tj [Hj [Hres Hobj]]]. simpl in Hj.
    destruct (Nat.eq_dec i j) as [Heq|Hneq].
    - subst j. rewrite Hj in Hnth. inversion Hnth; subst tj.
      rewrite Hprog in Hres, Hobj. rewrite run_seq_cons in Hres, Hobj.
      destruct (step s0 (t_obj L Op R t) o) as [[s' l'] x].
      cbn [fst snd] in Hres, Hobj |- *.
      eexists. split; [eapply nth_error_update_eq; exact Hj|].
      split; cbn [t_obj t_prog t_res].
      + rewrite Hres. rewrite <- app_assoc. reflexivity.
      + exact Hobj.
    - exists tj. split; [|split; assumption].
      destruct (step s0 (t_obj L Op R t) o) as [[s' l'] x]. cbn [snd].
      rewrite nth_error_update_neq by assumption. exact Hj.
  Qed.

  Lemma inv_run : forall s0 objs progs sched st,
    inv s0 objs progs st -> inv s0 objs progs (run_sched' sched st).
  Proof.
    intros s0 objs progs sched; induction sched as [|i sched IH]; intros st Hinv.
    - exact Hinv.
    - unfold run_sched. simpl. apply IH. apply inv_step. exact Hinv.
  Qed.

  Lemma inv_start : forall s0 objs progs,
    inv s0 objs progs (s0, start L Op R objs progs).
  Proof.
    intros s0 objs progs. split; [reflexivity|].
    intros i l p Ho Hp. eexists. split; [simpl; apply start_nth; eassumption|].
    split; reflexivity.
  Qed.

  Theorem interleaving_equiv_sec :
    forall (sched : list nat) (s0 : Sh) (objs : list L) (progs : list (list Op)),
    List.length objs = List.length progs ->
    complete Sh L Op R step sched s0 (start L Op R objs progs) ->
    fst (run_sched' sched (s0, start L Op R objs progs)) = s0 /\
    forall i l p, nth_error objs i = Some l -> nth_error progs i = Some p ->
      exists t, nth_error (snd (run_sched' sched (s0, start L Op R objs progs))) i = Some t /\
                t_res L Op R t = snd (run_seq' s0 l p) /\
                t_obj L Op R t = snd (fst (run_seq' s0 l p)).
  Proof.
    intros sched s0 objs progs _ Hcomplete.
    destruct (inv_run s0 objs progs sched _ (inv_start s0 objs progs)) as [Hs Hts].
    split; [exact Hs|].
    intros i l p Ho Hp.
    destruct (Hts i l p Ho Hp) as [t [Hnth [Hres Hobj]]].
    exists t. split; [exact Hnth|].
    unfold complete in Hcomplete. rewrite Forall_forall in Hcomplete.
    assert (Hdone : t_prog L Op R t = []).
    { apply Hcomplete. eapply nth_error_In. exact Hnth. }
    rewrite Hdone in Hres, Hobj. simpl in Hres, Hobj.
    rewrite app_nil_r in Hres. split; symmetry; assumption.
  Qed.
End Interleave.

Theorem interleaving_equiv :
  forall (Sh L Op R : Type) (step : Sh -> L -> Op -> Sh * L * R),
  (forall s l o, fst (fst (step s l o)) = s) ->
  forall (sched : list nat) (s0 : Sh) (objs : list L) (progs : list (list Op)),
  List.length objs = List.length progs ->
  complete Sh L Op R step sched s0 (start L Op R objs progs) ->
  fst (run_sched Sh L Op R step sched (s0, start L Op R objs progs)) = s0 /\
  forall i l p, nth_error objs i = Some l -> nth_error progs i = Some p ->
    exists t, nth_error (snd (run_sched Sh L Op R step sched (s0, start L Op R objs progs))) i = Some t /\
              t_res L Op R t = snd (run_seq Sh L Op R step s0 l p) /\
              t_obj L Op R t = snd (fst (run_seq Sh L Op R step s0 l p)).
Proof. exact interleaving_equiv_sec. Qed.

Lemma no_conflict : forall i j : nat, i <> j -> conflict i j = false.
Proof.
  intros i j Hij. unfold conflict; simpl.
  assert (H1 : Nat.eqb i j = false) by (apply Nat.eqb_neq; exact Hij).
  assert (H2 : Nat.eqb j i = false) by (apply Nat.eqb_neq; congruence).
  rewrite H1, H2. reflexivity.
Qed.

Print Assumptions jwt_no_shared_writes.
Print Assumptions readonly_queries_pure.
Print Assumptions interleaving_equiv.
Print Assumptions no_conflict.
