(* Proofs/ScopeCodec.v — the codec meta-theorem (Proofs/Codec.v) instantiated on the
   type of Account.SigningKeys as generated from the code (for C14). *)
From JWT Require Import Base.Codec Model.Claims Model.Scope Proofs.Codec.
Open Scope string_scope.
Open Scope Z_scope.

(* same text as in Properties/C14.v (equal by conversion) *)
Definition keyset_ty : ty :=
  match getp_ty sch_account ["nats"; "signing_keys"] with Some t => t | None => TBad "" end.

Lemma keyset_ty_shape : exists st p ki, keyset_ty = TKeySet st p ki.
Proof. vm_compute. do 3 eexists. reflexivity. Qed.

Lemma keyset_ty_wf' : wf_ty' keyset_ty = true.
Proof. vm_compute; reflexivity. Qed.

(* loadAccount pre-makes an empty map: a compatible preset for any key set *)
Lemma keyset_preset_ok v : omit_ok keyset_ty v (VMap (Some [])) = true.
Proof.
  destruct keyset_ty_shape as (st & p & ki & E). rewrite E.
  destruct v; reflexivity.
Qed.

Theorem signing_keys_roundtrip : forall (v : val) (j : json),
  has_type keyset_ty v = true -> scopes_ok keyset_ty v = true -> enc keyset_ty v = Some j ->
  exists v', dec keyset_ty j (VMap (Some [])) = Some v' /\ canon v' = canon v.
Proof.
  intros v j Ht Hs He.
  exact (codec_roundtrip keyset_ty v (VMap (Some [])) j keyset_ty_wf' Ht Hs (keyset_preset_ok v) He).
Qed.

Print Assumptions signing_keys_roundtrip.
