(* Proofs/SrcScope.v — UserScope.ValidateScopedSigner and UserClaims.HasEmptyPermissions (v2/signingkeys.go,
   v2/user_claims.go) as translated on this run (Gen/SrcDidSign.v).  The claim is an abstract value: whether it holds a
   *UserClaims, that user's issuer, and what reflect.DeepEqual says of its permissions and limits against the zero
   value are the observations; the theorem instantiates them by the model (kind, issuer, [has_empty_permissions]). *)
From JWT Require Import Base.GoSem Proofs.SrcBase Gen.SrcDidSign Model.Scope.
Open Scope string_scope.

Lemma src_has_empty_permissions {V : Type} (vnil : V) (deep_equal_zero : V -> bool) :
  V2.UserClaims_HasEmptyPermissions V vnil deep_equal_zero = deep_equal_zero vnil.
Proof. reflexivity. Qed.

Lemma src_validate_scoped_signer {V : Type} (vnil : V) (scope_key : string) (k : ckind) (iss : string) (upl : val) :
  go_err_isnil (V2.UserScope_ValidateScopedSigner V vnil iss (ckind_eqb k KUser) (fun _ => has_empty_permissions upl) scope_key)
  = validate_scoped_signer scope_key k iss upl.
Proof.
  unfold V2.UserScope_ValidateScopedSigner, V2.UserClaims_HasEmptyPermissions, validate_scoped_signer. cbv zeta.
  destruct (ckind_eqb k KUser); cbn [negb andb]; [|reflexivity].
  destruct (iss =? scope_key); cbn [negb andb]; [|reflexivity].
  destruct (has_empty_permissions upl); reflexivity.
Qed.

(* ---------- IssueUserJWT (v2/creds_utils.go) ----------
   The user claims it builds are a value of its own (made by NewUserClaims, an untranslated function): every store into
   them and SetScoped rebind that value through an unknown function, and Encode is an unknown function of the final
   value.  So, whatever those functions are: the roles of account id and user key are tested first, in that order; then
   the claims are made for the user key, scoped, given the expiry "clock plus duration" exactly when the duration is not
   zero, the account as issuer account, the name (the user key when none is given), the user key as subject, the tags;
   and the result is what Encode makes of exactly these claims. *)
Section Issue.
  Context {V : Type} (vnil : V) (new_user : list go_event -> string -> V) (is_acct is_user : string -> bool) (now_add : Z -> Z)
    (enc : V -> list go_event -> string * option string) (set_scoped : V -> bool -> V) (set_exp : V -> Z -> V)
    (set_issuer_account set_name set_subject : V -> string -> V) (set_tags : V -> list string -> V).
  Definition issued_claims (account_id user_key name : string) (d : Z) (tags : list string) : V :=
    let c := set_scoped (new_user [] user_key) true in
    let c := if (d =? 0)%Z then c else set_exp c (now_add d) in
    let c := set_issuer_account c account_id in
    let c := set_name c (if (name =? "")%string then user_key else name) in
    let c := set_subject c user_key in
    set_tags c tags.
  Lemma src_issue_user_jwt (account_id user_key name : string) (d : Z) (tags : list string) :
    V2.IssueUserJWT V vnil new_user is_acct is_user now_add enc set_scoped set_exp set_issuer_account set_name set_subject set_tags
      account_id user_key name d tags
    = ([], if negb (is_acct account_id) then (""%string, Some "error"%string)
           else if negb (is_user user_key) then (""%string, Some "error"%string)
           else match snd (enc (issued_claims account_id user_key name d tags) []) with
                | None => (fst (enc (issued_claims account_id user_key name d tags) []), None)
                | Some _ => (""%string, Some "error"%string)
                end).
  Proof.
    unfold V2.IssueUserJWT, issued_claims. cbv zeta.
    destruct (is_acct account_id); cbn [negb]; [|reflexivity].
    destruct (is_user user_key); cbn [negb]; [|reflexivity].
    destruct (d =? 0)%Z; cbn [negb]; destruct (name =? ""); cbn [negb];
      match goal with |- context [enc ?c []] => destruct (enc c []) as [tok [e|]] end; reflexivity.
  Qed.
End Issue.
