(* Proofs/SrcScope.v — UserScope.ValidateScopedSigner and UserClaims.HasEmptyPermissions (v2/signingkeys.go,
   v2/user_claims.go) as translated on this run (Gen/SrcDidSign.v).  The claim is an abstract value: whether it holds a
   *UserClaims, that user's issuer, and what reflect.DeepEqual says of its permissions and limits against the zero
   value are the observations; the theorem instantiates them by the model (kind, issuer, [has_empty_permissions]). *)
From JWT Require Import Base.GoSem Proofs.SrcBase Gen.SrcDidSign Model.Scope.
Open Scope string_scope.

Lemma src_has_empty_permissions {V : Type} (vnil : V) (deep_equal_zero : V -> bool) :
  V2.UserClaims_HasEmptyPermissions V vnil deep_equal_zero = deep_equal_zero vnil.
Proof. reflexivity. Qed.

Lemma src_validate_scoped_signer {V : Type} (vnil : V) (scope_key : string) (k : ckind) (iss : string) (upl : val) :
  go_err_isnil (V2.UserScope_ValidateScopedSigner V vnil iss (ckind_eqb k KUser) (fun _ => has_empty_permissions upl) scope_key)
  = validate_scoped_signer scope_key k iss upl.
Proof.
  unfold V2.UserScope_ValidateScopedSigner, V2.UserClaims_HasEmptyPermissions, validate_scoped_signer. cbv zeta.
  destruct (ckind_eqb k KUser); cbn [negb andb]; [|reflexivity].
  destruct (iss =? scope_key); cbn [negb andb]; [|reflexivity].
  destruct (has_empty_permissions upl); reflexivity.
Qed.
