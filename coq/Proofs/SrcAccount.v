(* Proofs/SrcAccount.v — Info.Validate, SigningKeys.Validate, OperatorLimits.IsEmpty, Account.Validate and
   AccountClaims.Validate (v2/types.go, v2/signingkeys.go, v2/account_claims.go) as translated on this run
   (Gen/SrcValidateClaims.v).  Account.Validate reports into the results it is handed AND stores through a pointer
   (a Trace sampling of zero becomes 100): the translation returns the log of such stores with the results.  Proved:
   the results are exactly the model's [v_account] / [v_account_claims] appended to what was there, and the log is that
   one store, made exactly when the model says the default applies.
   The opaque values of the translation (imports, activations, exports, scopes, what url.Parse returns) are the shapes
   of [gvi]; what Exports.Validate reports is a parameter here - it is translated and proved in the Validate group
   (Proofs/SrcValidate.v, src_exports), and the theorem takes exactly that list. *)
From JWT Require Import Base.GoSem Proofs.SrcBase Gen.SrcSubject Proofs.SrcSubject Gen.SrcValidateClaims Model.Subject Model.Validate Proofs.SrcValidateClaims.
Open Scope string_scope.
Open Scope list_scope.

Section Account.
  Variable role_of : string -> role.
  Variable act_of : string -> option act_view.
  Variable url_of : string -> url_view.

  (* ---------- the opaque values ---------- *)
  Definition gv_exp (oe : option export) : gvi := match oe with Some e => IVexport e | None => IVnil end.
  Definition gv_scope (e : string * option string) : string * gvi :=
    (fst e, match snd e with Some k => IVscope k | None => IVnil end).
  Definition o_exp_nil (v : gvi) : bool := match v with IVexport _ => false | _ => true end.
  Definition o_exp_subject (v : gvi) : string := match v with IVexport e => ex_subject e | _ => "" end.
  Definition o_scope_nil (v : gvi) : bool := match v with IVscope _ => false | _ => true end.
  (* UserScope.Validate: the scope's own key is an account key *)
  Definition o_scope_validate (v : gvi) : list go_issue :=
    match v with IVscope k => map goi (when (negb (is_role role_of RAccount k)) Blocking) | _ => [] end.
  Definition o_url_parse (s : string) : gvi * option string :=
    (IVurl (url_of s), if u_err (url_of s) then Some "parse error" else None).
  Definition o_url_host (v : gvi) : string := match v with IVurl u => if u_host_empty u then "" else "host" | _ => "" end.
  Definition o_url_scheme (v : gvi) : string := match v with IVurl u => u_scheme u | _ => "" end.

  Lemma if_andb {A} (a b : bool) (x y : A) : (if a && b then x else y) = if a then (if b then x else y) else y.
  Proof. destruct a; reflexivity. Qed.
  Ltac fin := factor_reports; cbn [goi app]; rewrite ?app_nil_r; reflexivity.

  (* ---------- Info.Validate ---------- *)
  Lemma slen_gt (s : string) : (go_slen s >? 8192)%Z = (8192 <? Z.of_nat (String.length s))%Z.
  Proof. unfold go_slen. now rewrite Z.gtb_ltb. Qed.

  Lemma vc_info (desc url : string) (vr : list go_issue) :
    V2.Info_Validate gvi IVnil o_url_parse o_url_host o_url_scheme desc url vr = vr ++ map goi (v_info url_of desc url).
  Proof.
    unfold V2.Info_Validate, v_info, o_url_parse. cbv zeta. rewrite !slen_gt.
    destruct (url =? "") eqn:Eu; cbn [negb].
    - rewrite app_nil_r, map_when. fin.
    - cbn [o_url_host o_url_scheme]. rewrite !map_app, !map_when.
      destruct (u_err (url_of url)) eqn:Ee; cbn [go_err_isnil andb orb negb].
      + fin.
      + destruct (u_host_empty (url_of url)); cbn [String.eqb orb go_err_isnil negb].
        * fin.
        * replace ("host" =? "") with false by reflexivity. cbn [orb].
          destruct (u_scheme (url_of url) =? ""); cbn [go_err_isnil negb]; fin.
  Qed.

  (* ---------- SigningKeys.Validate (the map walked in whatever order it comes) ---------- *)
  Definition skbody (_ : Z) (e : string * gvi) (vr : list go_issue) : ctl (list go_issue) (list go_issue) :=
    let '(k, v) := e in
    Cont (if negb (o_scope_nil v) then vr ++ o_scope_validate v
          else if negb (is_acct role_of k) then vr ++ [GoError] else vr).
  Lemma skloop : forall (l : list (string * option string)) (i : Z) (vr : list go_issue),
    go_range (R:=list go_issue) skbody i (map gv_scope l) vr = inl (vr ++ map goi (v_signing_keys role_of l)).
  Proof.
    induction l as [|[k os] l IH]; intros i vr; [cbn; now rewrite app_nil_r|].
    cbn [map go_range]. unfold gv_scope at 1. cbn [fst snd]. unfold skbody at 1. cbv beta iota zeta. unfold v_signing_keys. cbn [flat_map fst snd].
    fold (v_signing_keys role_of l). rewrite map_app.
    destruct os as [sk|]; cbn [o_scope_nil negb o_scope_validate].
    - rewrite IH, <- app_assoc. reflexivity.
    - rewrite IH, map_when. unfold is_acct.
      destruct (negb (is_role role_of RAccount k)); cbn [goi app]; rewrite <- ?app_assoc; reflexivity.
  Qed.
  Lemma vc_signing_keys (l : list (string * option string)) (vr : list go_issue) :
    V2.SigningKeys_Validate gvi IVnil (is_acct role_of) o_scope_validate o_scope_nil (map gv_scope l) vr
    = vr ++ map goi (v_signing_keys role_of l).
  Proof.
    unfold V2.SigningKeys_Validate.
    change (go_range _ 0%Z (map gv_scope l) vr) with (go_range (R:=list go_issue) skbody 0%Z (map gv_scope l) vr).
    rewrite skloop. reflexivity.
  Qed.

  (* ---------- OperatorLimits.IsEmpty: the three flat parts equal to their zero values, no tiers ---------- *)
  Definition nats_zero (o : op_limits) : bool := forallb (fun z => (z =? 0)%Z) (ol_nats o).
  Definition acct_zero (o : op_limits) : bool :=
    (ol_imports o =? 0)%Z && (ol_exports o =? 0)%Z && negb (ol_wildcards o) && negb (ol_disallow_bearer o) &&
    (ol_conn o =? 0)%Z && (ol_leaf o =? 0)%Z.
  Lemma vc_limits_empty (o : op_limits) :
    V2.OperatorLimits_IsEmpty (acct_zero o) (js_zero (ol_js o)) (Z.of_nat (List.length (ol_tiers o))) (nats_zero o) = limits_empty o.
  Proof.
    unfold V2.OperatorLimits_IsEmpty, limits_empty, acct_zero, nats_zero.
    replace (Z.of_nat (List.length (ol_tiers o)) =? 0)%Z with (is_nil (ol_tiers o)) by (destruct (ol_tiers o); reflexivity).
    rewrite !andb_assoc. reflexivity.
  Qed.

  (* ---------- the wildcard-export scan ---------- *)
  Definition wcbody (_ : Z) (ex : gvi) (vr : list go_issue) : ctl (list go_issue) (list go_event * list go_issue) :=
    Cont (if negb (o_exp_nil ex) && V2.Subject_HasWildCards (o_exp_subject ex) then vr ++ [GoError] else vr).
  Definition wc_issues (l : list (option export)) : list issue :=
    flat_map (fun oe => match oe with Some e => when (has_wildcards (ex_subject e)) Blocking | None => [] end) l.
  Lemma wcloop : forall (l : list (option export)) (i : Z) (vr : list go_issue),
    go_range wcbody i (map gv_exp l) vr = inl (vr ++ map goi (wc_issues l)).
  Proof.
    induction l as [|oe l IH]; intros i vr; [cbn; now rewrite app_nil_r|].
    cbn [map go_range]. unfold wcbody at 1. unfold wc_issues. cbn [flat_map]. fold (wc_issues l). rewrite map_app.
    destruct oe as [e|]; cbn [gv_exp o_exp_nil o_exp_subject negb andb].
    - change (V2.Subject_HasWildCards (ex_subject e)) with (has_wildcards (ex_subject e)).
      rewrite IH, map_when. destruct (has_wildcards (ex_subject e)); cbn [goi app]; rewrite <- ?app_assoc; reflexivity.
    - rewrite IH. reflexivity.
  Qed.

  (* ---------- Account.Validate ---------- *)
  Definition wm_tuple (w : wmapping) : string * Z * string := (wm_subject w, wm_weight w, "").
  Definition mapping_tuples (m : list (string * list wmapping)) : list (string * list (string * Z * string)) :=
    map (fun e => (fst e, map wm_tuple (snd e))) m.
  Lemma mapping_of_tuples (m : list (string * list wmapping)) : mapping_of (mapping_tuples m) = m.
  Proof.
    unfold mapping_of, mapping_tuples.
    induction m as [|[k ws] m IH]; [reflexivity|]. cbn [map fst snd]. rewrite IH. f_equal. f_equal.
    clear. induction ws as [|[s w] ws IH]; [reflexivity|]. cbn [map]. rewrite IH. reflexivity.
  Qed.

  Definition trace_nil (a : account) : bool := match ac_trace a with Some _ => false | None => true end.
  Definition trace_dest (a : account) : string := match ac_trace a with Some t => tr_dest t | None => "" end.
  Definition trace_sampling (a : account) : Z := match ac_trace a with Some t => tr_sampling t | None => 0%Z end.
  (* what Validate stores: a sampling of zero (in range, then) becomes 100 *)
  Definition trace_log (a : account) : list go_event :=
    match ac_trace a with
    | Some t => if (tr_sampling t =? 0)%Z then [GoSetZ "a_Trace_Sampling" 100%Z] else []
    | None => []
    end.

  Definition src_account_validate now (resp_nil : bool) (exports_report : list go_issue) (act_pub : string) (a : account)
      (vr : list go_issue) : list go_event * list go_issue :=
    V2.Account_Validate gvi IVnil
      (ea_accounts (ac_auth a)) (ea_users (ac_auth a)) (ea_xkey (ac_auth a))
      (p_allow (perm_pub (ac_default_perms a))) (p_deny (perm_pub (ac_default_perms a))) resp_nil
      (p_allow (perm_sub (ac_default_perms a))) (p_deny (perm_sub (ac_default_perms a)))
      (map gv_exp (ac_exports a)) exports_report (map gv_of (ac_imports a))
      (ac_desc a) (ac_url a)
      (ol_exports (ac_limits a)) (ol_imports (ac_limits a)) (ol_wildcards (ac_limits a)) (acct_zero (ac_limits a))
      (js_zero (ol_js (ac_limits a))) (fun k => existsb (fun t => (fst t =? k)%string) (ol_tiers (ac_limits a)))
      (Z.of_nat (List.length (ol_tiers (ac_limits a)))) (nats_zero (ac_limits a))
      (mapping_tuples (ac_mappings a)) (map gv_scope (ac_signing_keys a))
      (trace_dest a) (trace_sampling a) (trace_nil a)
      act_pub (o_decode_act act_of) (is_acct role_of) (is_curve role_of) (is_user role_of) now o_url_parse
      (o_act (fun av => at_subject (av_act av)) "") (o_act (fun av => at_type (av_act av)) 0%Z)
      (o_act (fun av => at_issuer_account (av_act av)) "") (o_act (fun av => cd_exp (av_cd av)) 0%Z)
      (o_act (fun av => cd_iss (av_cd av)) "") (o_act (fun av => cd_nbf (av_cd av)) 0%Z)
      (o_act (fun av => cd_sub (av_cd av)) "") (o_act (fun _ => false) true)
      o_exp_subject o_exp_nil
      (o_imp im_account "") (o_imp im_allow_trace false) (o_imp im_local "") (o_imp (fun i => to_subject (im_local i)) "")
      (o_imp (fun i from => map goi (v_renaming (im_local i) from)) (fun _ => [])) (o_imp im_share false) (o_imp im_subject "")
      (o_imp im_to "") (o_imp im_token "") (o_imp im_type 0%Z) (o_imp (fun _ => false) true)
      o_scope_validate o_scope_nil o_url_host o_url_scheme vr.

  Lemma llen_map {A B} (f : A -> B) (l : list A) : go_llen (map f l) = Z.of_nat (List.length l).
  Proof. unfold go_llen. now rewrite map_length. Qed.

  Theorem src_account now (resp_nil : bool) (act_pub : string) (a : account) (vr : list go_issue) :
    src_account_validate now resp_nil (map goi (v_exports url_of (ac_exports a))) act_pub a vr
    = (trace_log a, vr ++ map goi (v_account role_of url_of act_of act_pub a)).
  Proof.
    unfold src_account_validate, V2.Account_Validate. cbv zeta.
    change (V2.Imports_Validate gvi IVnil _ _ _ _ _ _ _ _ _ _ _ _ _ _ _ _ _ _ _ _ _ _ (map gv_of (ac_imports a)) act_pub vr)
      with (src_imports_validate role_of act_of now act_pub (ac_imports a) vr).
    rewrite vc_imports, vc_op_limits, vc_permissions, vc_mappings, mapping_of_tuples, vc_ext_auth, vc_limits_empty.
    rewrite !llen_map.
    unfold v_account. cbv zeta. rewrite !map_app.
    set (VI := map goi (v_imports role_of act_of act_pub (ac_imports a))).
    set (VE := map goi (v_exports url_of (ac_exports a))).
    set (VL := map goi (v_op_limits (ac_limits a))).
    set (VP := map goi (v_permissions (ac_default_perms a))).
    set (VM := map goi (v_mappings (ac_mappings a))).
    set (VA := map goi (v_ext_auth role_of (ac_auth a))).
    set (lim := ac_limits a).
    set (NI := Z.of_nat (List.length (ac_imports a))). set (NE := Z.of_nat (List.length (ac_exports a))).
    (* the tail: signing keys and info *)
    assert (Htail : forall (lg : list go_event) (vr0 : list go_issue),
      (lg, V2.Info_Validate gvi IVnil o_url_parse o_url_host o_url_scheme (ac_desc a) (ac_url a)
         (V2.SigningKeys_Validate gvi IVnil (is_acct role_of) o_scope_validate o_scope_nil (map gv_scope (ac_signing_keys a)) vr0))
      = (lg, vr0 ++ map goi (v_signing_keys role_of (ac_signing_keys a)) ++ map goi (v_info url_of (ac_desc a) (ac_url a)))).
    { intros lg vr0. rewrite vc_signing_keys, vc_info, <- app_assoc. reflexivity. }
    set (VS := map goi (v_signing_keys role_of (ac_signing_keys a))) in *.
    set (VN := map goi (v_info url_of (ac_desc a) (ac_url a))) in *.
    fold (wc_issues (ac_exports a)).
    Ltac tail_tac Htail :=
      rewrite ?Z.gtb_ltb, ?Z.geb_leb;
      match goal with |- context [negb (ol_exports ?lim =? -1)%Z] => destruct (negb (ol_exports lim =? -1)%Z) end;
      [match goal with |- context [negb (ol_wildcards ?lim)] => destruct (negb (ol_wildcards lim)) end|]; cbv iota beta;
      [match goal with |- context [go_range _ 0%Z (map gv_exp ?l) ?v] => change (go_range _ 0%Z (map gv_exp l) v) with (go_range wcbody 0%Z (map gv_exp l) v) end;
       rewrite wcloop; cbv iota beta| |];
      rewrite Htail; f_equal; rewrite ?map_app, ?map_when; factor_reports; cbn [goi app]; rewrite ?app_nil_r, ?if_andb; reflexivity.
    unfold trace_nil, trace_dest, trace_sampling, trace_log in *.
    destruct (ac_trace a) as [t|]; cbn [negb]; cbv iota beta.
    - (* a trace is configured *)
      rewrite vc_subject. change (V2.Subject_HasWildCards (tr_dest t)) with (has_wildcards (tr_dest t)).
      replace (go_llen ([] ++ map goi (v_subject (tr_dest t))) =? 0)%Z with (is_nil (v_subject (tr_dest t)))
        by (cbn [app]; destruct (v_subject (tr_dest t)); reflexivity).
      rewrite (Z.gtb_ltb (tr_sampling t) 100).
      destruct ((tr_sampling t <? 0)%Z || (100 <? tr_sampling t)%Z) eqn:Er; cbv iota beta.
      + assert (Hz : (tr_sampling t =? 0)%Z = false)
          by (apply Z.eqb_neq; intro Hc; rewrite Hc in Er; discriminate Er).
        rewrite Hz. tail_tac Htail.
      + destruct (tr_sampling t =? 0)%Z; cbv iota beta; cbn [app]; tail_tac Htail.
    - tail_tac Htail.
  Qed.

  (* ---------- AccountClaims.Validate: the standard fields, the account, then the remark on operator limits in a
     self-signed account ---------- *)
  Definition src_account_claims_validate now (resp_nil : bool) (exports_report : list go_issue) (cd : claims_data) (a : account)
      (vr : list go_issue) : list go_event * list go_issue :=
    V2.AccountClaims_Validate gvi IVnil
      (ea_accounts (ac_auth a)) (ea_users (ac_auth a)) (ea_xkey (ac_auth a))
      (p_allow (perm_pub (ac_default_perms a))) (p_deny (perm_pub (ac_default_perms a))) resp_nil
      (p_allow (perm_sub (ac_default_perms a))) (p_deny (perm_sub (ac_default_perms a)))
      (map gv_exp (ac_exports a)) exports_report (map gv_of (ac_imports a))
      (ac_desc a) (ac_url a)
      (ol_exports (ac_limits a)) (ol_imports (ac_limits a)) (ol_wildcards (ac_limits a)) (acct_zero (ac_limits a))
      (js_zero (ol_js (ac_limits a))) (fun k => existsb (fun t => (fst t =? k)%string) (ol_tiers (ac_limits a)))
      (Z.of_nat (List.length (ol_tiers (ac_limits a)))) (nats_zero (ac_limits a))
      (mapping_tuples (ac_mappings a)) (map gv_scope (ac_signing_keys a))
      (trace_dest a) (trace_sampling a) (trace_nil a)
      (cd_exp cd) (cd_iss cd) (cd_nbf cd) (cd_sub cd)
      (o_decode_act act_of) (is_acct role_of) (is_curve role_of) (is_user role_of) now o_url_parse
      (o_act (fun av => at_subject (av_act av)) "") (o_act (fun av => at_type (av_act av)) 0%Z)
      (o_act (fun av => at_issuer_account (av_act av)) "") (o_act (fun av => cd_exp (av_cd av)) 0%Z)
      (o_act (fun av => cd_iss (av_cd av)) "") (o_act (fun av => cd_nbf (av_cd av)) 0%Z)
      (o_act (fun av => cd_sub (av_cd av)) "") (o_act (fun _ => false) true)
      o_exp_subject o_exp_nil
      (o_imp im_account "") (o_imp im_allow_trace false) (o_imp im_local "") (o_imp (fun i => to_subject (im_local i)) "")
      (o_imp (fun i from => map goi (v_renaming (im_local i) from)) (fun _ => [])) (o_imp im_share false) (o_imp im_subject "")
      (o_imp im_to "") (o_imp im_token "") (o_imp im_type 0%Z) (o_imp (fun _ => false) true)
      o_scope_validate o_scope_nil o_url_host o_url_scheme vr.

  Theorem src_account_claims now (resp_nil : bool) (cd : claims_data) (a : account) (vr : list go_issue) :
    src_account_claims_validate now resp_nil (map goi (v_exports url_of (ac_exports a))) cd a vr
    = (trace_log a, vr ++ map goi (v_account_claims now role_of url_of act_of cd a)).
  Proof.
    unfold src_account_claims_validate, V2.AccountClaims_Validate. cbv zeta.
    rewrite vc_claims_data.
    pose proof (src_account now resp_nil (cd_sub cd) a (vr ++ map goi (v_claims_data now cd))) as H.
    unfold src_account_validate in H. rewrite H. clear H. cbv iota beta. cbn [app].
    rewrite vc_limits_empty. f_equal.
    unfold v_account_claims, is_acct. rewrite !map_app, map_when.
    factor_reports. cbn [goi app]. rewrite ?app_nil_r, ?if_andb. reflexivity.
  Qed.
End Account.

(* ---------- Operator.Validate, OperatorClaims.Validate, ParseServerVersion, ValidateOperatorServiceURL
   (v2/operator_claims.go) ----------
   strconv.Atoi is an unknown function of its text in the translation: here the model's [atoi]; url.Parse the model's
   [url_of]. *)
Section Operator.
  Variable role_of : string -> role.
  Variable url_of : string -> url_view.
  Definition is_op (k : string) : bool := is_role role_of ROperator k.
  Definition o_atoi (s : string) : Z * option string :=
    match atoi s with Some z => (z, None) | None => (0%Z, Some "invalid syntax") end.
  Definition o_url_path (v : gvi) : string := match v with IVurl u => u_path u | _ => "" end.
  Definition o_url_nouser (v : gvi) : bool := match v with IVurl u => negb (u_user u) | _ => true end.

  Definition version_err (s : string) : option string :=
    let '(_, _, _, e) := V2.ParseServerVersion o_atoi s in e.
  Lemma vc_parse_version (s : string) : go_err_isnil (version_err s) = version_ok s.
  Proof.
    unfold version_err, V2.ParseServerVersion, version_ok. cbv zeta.
    destruct (s =? "") eqn:Es; [reflexivity|].
    change (go_split s ".") with (split dot s).
    destruct (split dot s) as [|a [|b [|c [|d r]]]]; try reflexivity.
    - replace (go_llen [a; b; c] =? 3)%Z with true by reflexivity. cbn [negb].
      change (go_idx [a; b; c] 0) with a. change (go_idx [a; b; c] 1) with b. change (go_idx [a; b; c] 2) with c.
      unfold o_atoi.
      destruct (atoi a) as [x|]; cbn [go_err_isnil negb]; [|reflexivity].
      destruct (atoi b) as [y|]; cbn [go_err_isnil negb]; [|reflexivity].
      destruct (atoi c) as [z|]; cbn [go_err_isnil negb]; [|reflexivity].
      rewrite !Z.leb_antisym.
      destruct (x <? 0)%Z; destruct (y <? 0)%Z; destruct (z <? 0)%Z; reflexivity.
    - assert (H : (go_llen (a :: b :: c :: d :: r) =? 3)%Z = false) by (apply Z.eqb_neq; unfold go_llen; cbn [length]; lia).
      rewrite H. reflexivity.
  Qed.

  Lemma vc_service_url (v : string) :
    go_err_isnil (V2.ValidateOperatorServiceURL gvi IVnil (o_url_parse url_of) o_url_path o_url_scheme o_url_nouser v) = service_url_ok url_of v.
  Proof.
    unfold V2.ValidateOperatorServiceURL, service_url_ok, o_url_parse. cbv zeta.
    destruct (v =? ""); [reflexivity|]. cbn [o_url_path o_url_scheme o_url_nouser].
    destruct (u_err (url_of v)); cbn [go_err_isnil negb]; [reflexivity|].
    destruct (u_user (url_of v)); cbn [negb]; [reflexivity|].
    destruct (negb (u_path (url_of v) =? "")); [reflexivity|].
    destruct (to_lower (u_scheme (url_of v)) =? "nats"); [reflexivity|].
    destruct (to_lower (u_scheme (url_of v)) =? "tls"); [reflexivity|].
    destruct (to_lower (u_scheme (url_of v)) =? "ws"); [reflexivity|].
    destruct (to_lower (u_scheme (url_of v)) =? "wss"); reflexivity.
  Qed.

  (* the errors of the service URLs, one per bad entry, in order *)
  Lemma vc_service_urls : forall (l : list string) (i : Z) (errs : list (option string)),
    exists es, Forall (fun e => go_err_isnil e = false) es /\ List.length es = List.length (flat_map (fun v => when (negb (service_url_ok url_of v)) Blocking) l) /\
    go_range (R:=list (option string))
      (fun (_ : Z) (v : string) (go_st : list (option string)) =>
         Cont (if negb (v =? "")
               then (if negb (go_err_isnil (V2.ValidateOperatorServiceURL gvi IVnil (o_url_parse url_of) o_url_path o_url_scheme o_url_nouser v))
                     then go_st ++ [V2.ValidateOperatorServiceURL gvi IVnil (o_url_parse url_of) o_url_path o_url_scheme o_url_nouser v] else go_st)
               else go_st)) i l errs = inl (errs ++ es).
  Proof.
    induction l as [|v l IH]; intros i errs.
    - exists []. cbn. rewrite app_nil_r. repeat split; constructor.
    - cbn [go_range flat_map]. rewrite vc_service_url.
      destruct (v =? "") eqn:Ev; cbn [negb].
      + destruct (IH (i + 1)%Z errs) as [es [Hf [Hl Hr]]]. exists es. rewrite Hr.
        assert (Hok : service_url_ok url_of v = true) by (unfold service_url_ok; rewrite Ev; reflexivity).
        rewrite Hok. cbn [negb when app]. auto.
      + destruct (service_url_ok url_of v) eqn:Eo; cbn [negb when app].
        * destruct (IH (i + 1)%Z errs) as [es [Hf [Hl Hr]]]. exists es. rewrite Hr. auto.
        * destruct (IH (i + 1)%Z (errs ++ [V2.ValidateOperatorServiceURL gvi IVnil (o_url_parse url_of) o_url_path o_url_scheme o_url_nouser v])) as [es [Hf [Hl Hr]]].
          exists (V2.ValidateOperatorServiceURL gvi IVnil (o_url_parse url_of) o_url_path o_url_scheme o_url_nouser v :: es).
          rewrite Hr, <- app_assoc. cbn [app length]. repeat split; [|now rewrite Hl].
          constructor; [|exact Hf]. rewrite vc_service_url. exact Eo.
  Qed.

  Lemma errs_loop : forall (es : list (option string)) (i : Z) (vr : list go_issue),
    Forall (fun e => go_err_isnil e = false) es ->
    go_range (R:=list go_issue)
      (fun (_ : Z) (v : option string) (go_st : list go_issue) => Cont (if negb (go_err_isnil v) then go_st ++ [GoError] else go_st)) i es vr
    = inl (vr ++ repeat GoError (List.length es)).
  Proof.
    induction es as [|e es IH]; intros i vr Hf; [cbn; now rewrite app_nil_r|].
    inversion Hf as [|? ? He Hf']; subst. cbn [go_range]. rewrite He. cbn [negb]. rewrite IH by exact Hf'.
    cbn [length repeat]. rewrite <- app_assoc. reflexivity.
  Qed.
  Lemma repeat_blocking (l : list issue) : Forall (fun i => i = Blocking) l -> map goi l = repeat GoError (List.length l).
  Proof. induction 1 as [|x l Hx _ IH]; [reflexivity|]. subst. cbn. now rewrite IH. Qed.
  Lemma flat_when_blocking {A} (f : A -> bool) (l : list A) : Forall (fun i => i = Blocking) (flat_map (fun v => when (f v) Blocking) l).
  Proof. induction l as [|v l IH]; [constructor|]. cbn [flat_map]. destruct (f v); cbn [when app]; [constructor; [reflexivity|exact IH]|exact IH]. Qed.

  Definition opkbody (_ : Z) (k : string) (vr : list go_issue) : ctl (list go_issue) (list go_issue) :=
    Cont (if negb (is_op k) then vr ++ [GoError] else vr).
  Lemma opkloop : forall (l : list string) (i : Z) (vr : list go_issue),
    go_range (R:=list go_issue) opkbody i l vr = inl (vr ++ map goi (flat_map (fun k => when (negb (is_role role_of ROperator k)) Blocking) l)).
  Proof.
    induction l as [|k l IH]; intros i vr; [cbn; now rewrite app_nil_r|].
    cbn [go_range flat_map]. unfold opkbody at 1. rewrite IH, map_app, map_when. unfold is_op.
    destruct (negb (is_role role_of ROperator k)); cbn [goi app]; rewrite <- ?app_assoc; reflexivity.
  Qed.

  Definition src_operator_claims_validate now (cd : claims_data) (o : operator) (vr : list go_issue) : list go_issue :=
    V2.OperatorClaims_Validate gvi IVnil (is_acct role_of) is_op now o_atoi (o_url_parse url_of) o_url_path o_url_scheme o_url_nouser
      (cd_exp cd) (cd_nbf cd) (op_account_server_url o) (op_assert_version o) (op_service_urls o) (op_signing_keys o) (op_system_account o) vr.

  Theorem src_operator_claims now (cd : claims_data) (o : operator) (vr : list go_issue) :
    src_operator_claims_validate now cd o vr = vr ++ map goi (v_operator_claims now role_of url_of cd o).
  Proof.
    unfold src_operator_claims_validate, V2.OperatorClaims_Validate, V2.Operator_Validate, V2.Operator_validateOperatorServiceURLs,
      V2.Operator_validateAccountServerURL, v_operator_claims. cbv zeta.
    rewrite vc_claims_data.
    destruct (vc_service_urls (op_service_urls o) 0%Z []) as [es [Hf [Hl Hr]]].
    match goal with |- context [go_range ?B 0%Z (op_service_urls o) []] =>
      change (go_range B 0%Z (op_service_urls o) []) with
        (go_range (R:=list (option string))
      (fun (_ : Z) (v : string) (go_st : list (option string)) =>
         Cont (if negb (v =? "")
               then (if negb (go_err_isnil (V2.ValidateOperatorServiceURL gvi IVnil (o_url_parse url_of) o_url_path o_url_scheme o_url_nouser v))
                     then go_st ++ [V2.ValidateOperatorServiceURL gvi IVnil (o_url_parse url_of) o_url_path o_url_scheme o_url_nouser v] else go_st)
               else go_st)) 0%Z (op_service_urls o) []) end.
    rewrite Hr. cbv iota beta. cbn [app].
    rewrite errs_loop by exact Hf. cbv iota beta.
    change (go_range _ 0%Z (op_signing_keys o) ?v) with (go_range (R:=list go_issue) opkbody 0%Z (op_signing_keys o) v).
    rewrite opkloop. cbv iota beta.
    pose proof (vc_parse_version (op_assert_version o)) as Hv. unfold version_err in Hv.
    destruct (V2.ParseServerVersion o_atoi (op_assert_version o)) as [[[vx vy] vz] ve]. rewrite Hv. clear Hv.
    rewrite Hl, <- (repeat_blocking _ (flat_when_blocking _ _)).
    rewrite !map_app, !map_when. unfold is_acct, o_url_parse. cbn [o_url_scheme].
    destruct (negb (op_account_server_url o =? "")); cbn [andb].
    - destruct (u_err (url_of (op_account_server_url o))); cbn [go_err_isnil negb orb].
      + factor_reports. cbn [goi app]. rewrite ?app_nil_r, ?if_andb. reflexivity.
      + destruct (u_scheme (url_of (op_account_server_url o)) =? ""); cbn [go_err_isnil negb];
          factor_reports; cbn [goi app]; rewrite ?app_nil_r, ?if_andb; reflexivity.
    - cbn [go_err_isnil negb]. factor_reports. cbn [goi app]. rewrite ?app_nil_r, ?if_andb. reflexivity.
  Qed.
End Operator.

(* ---------- RenamingSubject.Validate (v2/types.go): the local subject of an import against the subject it renames ----------
   strconv.Atoi is an unknown function of its text, here the model's [atoi] ([o_atoi]); the function literal of the body
   is a local function. *)
Section Renaming.
  Lemma ref_token_spec (tk : string) :
    ref_token tk = if (go_slen tk <? 2)%Z then None
                   else if (go_sbyte tk 0 =? 36)%Z then atoi (go_substr tk 1 (go_slen tk)) else None.
  Proof.
    unfold ref_token, go_slen. destruct tk as [|c r]; [reflexivity|]. destruct r as [|c2 r2]; [reflexivity|].
    replace (Nat.ltb (String.length (String c (String c2 r2))) 2) with false by reflexivity.
    replace (Z.of_nat (String.length (String c (String c2 r2))) <? 2)%Z with false
      by (symmetry; apply Z.ltb_ge; cbn [String.length]; lia).
    assert (Hsub : go_substr (String c (String c2 r2)) 1 (Z.of_nat (String.length (String c (String c2 r2)))) = String c2 r2).
    { unfold go_substr. rewrite Nat2Z.id. change (Z.to_nat 1) with 1%nat. cbn [String.length Nat.sub substring].
      f_equal. apply SrcSubject.substring_all. }
    rewrite Hsub. unfold go_sbyte. cbn [Z.to_nat go_sbyte_nat].
    destruct (Ascii.eqb_spec c "$"%char) as [->|Hne]; [reflexivity|].
    assert (Hz : (Z.of_nat (nat_of_ascii c) =? 36)%Z = false).
    { apply Z.eqb_neq. intros H. apply Hne. apply (f_equal Z.to_nat) in H. rewrite Nat2Z.id in H.
      change (Z.to_nat 36) with (nat_of_ascii "$"%char) in H.
      rewrite <- (ascii_nat_embedding c), <- (ascii_nat_embedding "$"%char). now f_equal. }
    rewrite Hz. destruct c as [[] [] [] [] [] [] [] []]; try reflexivity. exfalso; apply Hne; reflexivity.
  Qed.

  Definition rnbody (fromCnt : Z) (_ : Z) (tk : string) (st : Z * list go_issue) : ctl (Z * list go_issue) (list go_issue) :=
    let '(refCnt, vr) := st in
    let refCnt := if (tk =? "*")%string then (refCnt + 1)%Z else refCnt in
    if (go_slen tk <? 2)%Z then Cont (refCnt, vr)
    else let '(vr, refCnt) :=
           (if (go_sbyte tk 0 =? 36)%Z
            then let '(idx, err) := o_atoi (go_substr tk 1 (go_slen tk)) in
                 let '(vr, refCnt) :=
                   (if go_err_isnil err
                    then let '(vr, refCnt) := (if (idx >? fromCnt)%Z then (vr ++ [GoError], refCnt) else (vr, (refCnt + 1)%Z)) in (vr, refCnt)
                    else (vr, refCnt)) in
                 (vr, refCnt)
            else (vr, refCnt)) in
         Cont (refCnt, vr).
  Lemma rnloop (fromCnt : Z) : forall (l : list string) (i : Z) (refCnt : Z) (vr : list go_issue),
    go_range (R:=list go_issue) (rnbody fromCnt) i l (refCnt, vr)
    = inl (snd (v_refs l fromCnt refCnt), vr ++ map goi (fst (v_refs l fromCnt refCnt))).
  Proof.
    induction l as [|tk l IH]; intros i refCnt vr; [cbn; now rewrite app_nil_r|].
    cbn [go_range v_refs]. unfold rnbody at 1. cbv zeta. rewrite ref_token_spec.
    destruct (go_slen tk <? 2)%Z; [rewrite IH; reflexivity|].
    destruct (go_sbyte tk 0 =? 36)%Z; [|rewrite IH; reflexivity].
    unfold o_atoi. destruct (atoi (go_substr tk 1 (go_slen tk))) as [idx|]; cbn [go_err_isnil]; [|rewrite IH; reflexivity].
    rewrite Z.gtb_ltb. destruct (fromCnt <? idx)%Z.
    - rewrite IH. destruct (v_refs l fromCnt (if (tk =? "*")%string then (refCnt + 1)%Z else refCnt)) as [is c0].
      cbn [fst snd map goi]. rewrite <- app_assoc. reflexivity.
    - rewrite IH. reflexivity.
  Qed.

  Lemma vc_renaming (s from : string) (vr : list go_issue) :
    V2.RenamingSubject_Validate o_atoi s from vr = vr ++ map goi (v_renaming s from).
  Proof.
    unfold V2.RenamingSubject_Validate, v_renaming. cbv zeta. rewrite vc_subject.
    change (V2.Subject_countTokenWildcards from) with (SrcSubject.V2.Subject_countTokenWildcards from).
    rewrite SrcSubject.src_count_wild_tokens.
    rewrite go_split_dot.
    match goal with |- context [go_range ?B 0%Z (split dot s) (0%Z, ?v)] =>
      change (go_range B 0%Z (split dot s) (0%Z, v)) with (go_range (R:=list go_issue) (rnbody (count_wild_tokens from)) 0%Z (split dot s) (0%Z, v)) end.
    rewrite rnloop. cbv iota beta.
    destruct (v_refs (split dot s) (count_wild_tokens from) 0) as [is c0]. cbn [fst snd].
    unfold ends_gt. rewrite !map_app, !map_when. factor_reports. cbn [goi app]. rewrite ?app_nil_r. reflexivity.
  Qed.
End Renaming.
