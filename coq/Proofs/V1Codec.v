(* Proofs/V1Codec.v — the codec meta-theorem (Proofs/Codec.v) instantiated on the
   seven version-1 schemas generated from the code (for C19). *)
From JWT Require Import Base.Codec Model.V1 Gen.Schema Proofs.Codec.
Open Scope string_scope.

(* same text as in Properties/C19.v (equal by conversion) *)
Definition v1_schemas : list ty :=
  [sch1_operator; sch1_account; sch1_user; sch1_activation; sch1_cluster; sch1_server; sch1_generic].

(* well-formed, including the two side conditions of the meta-theorem *)
Lemma v1_schemas_wf : forallb wf_ty' v1_schemas = true.
Proof. vm_compute; reflexivity. Qed.
Lemma v1_schemas_wf_plain : forallb wf_ty v1_schemas = true.
Proof. vm_compute; reflexivity. Qed.

(* a schema without key sets puts no condition on scopes *)
Fixpoint no_keyset (t : ty) : bool :=
  match t with
  | TList t' | TMap t' | TPtr t' => no_keyset t'
  | TStruct fs =>
      (fix go (fs : list field) : bool :=
         match fs with [] => true | (_, _, ft) :: r => no_keyset ft && go r end) fs
  | TKeySet _ _ _ => false
  | _ => true
  end.
Fixpoint no_keyset_fields (fs : list field) : bool :=
  match fs with [] => true | (_, _, ft) :: r => no_keyset ft && no_keyset_fields r end.
Lemma no_keyset_struct fs : no_keyset (TStruct fs) = no_keyset_fields fs.
Proof. reflexivity. Qed.

Lemma no_keyset_scopes_ok : forall t, no_keyset t = true -> forall v, scopes_ok t v = true.
Proof.
  induction t as [| lo hi | | t IH | t IH | t IH | fs IH | | tbl | | | st p ki IH | w] using ty_ind';
    intros Hn v; try (destruct v; reflexivity).
  - (* TList *)
    destruct v as [| | | [l|] | | | |]; try reflexivity.
    simpl. apply forallb_forall. intros x _. apply IH. exact Hn.
  - (* TMap *)
    destruct v as [| | | | [m|] | | |]; try reflexivity.
    simpl. apply forallb_forall. intros x _. apply IH. exact Hn.
  - (* TPtr *)
    destruct v as [| | | | | [x|] | |]; try reflexivity.
    simpl. apply IH. exact Hn.
  - (* TStruct *)
    destruct v as [| | | | | | vs |]; try reflexivity.
    rewrite scopes_ok_struct. rewrite no_keyset_struct in Hn.
    revert vs. induction IH as [| [[n o] ft] fr Hf _ IHr]; intros [| fv vr]; try reflexivity.
    simpl in Hn. apply andb_true_iff in Hn as [Hn1 Hn2].
    simpl in Hf. simpl. rewrite (Hf Hn1 fv). simpl. apply IHr. exact Hn2.
  - (* TKeySet *)
    discriminate Hn.
Qed.

Lemma v1_no_keyset : forallb no_keyset v1_schemas = true.
Proof. vm_compute; reflexivity. Qed.

Theorem v1_roundtrip : forall t v j,
  In t v1_schemas -> has_type t v = true -> enc t v = Some j ->
  exists v', dec t j (zero_val t) = Some v' /\ canon v' = canon v.
Proof.
  intros t v j Hin Ht He.
  assert (Hw' : wf_ty' t = true) by (exact (proj1 (forallb_forall _ _) v1_schemas_wf t Hin)).
  assert (Hw : wf_ty t = true) by (exact (proj1 (forallb_forall _ _) v1_schemas_wf_plain t Hin)).
  assert (Hk : no_keyset t = true) by (exact (proj1 (forallb_forall _ _) v1_no_keyset t Hin)).
  apply (codec_roundtrip t v (zero_val t) j Hw' Ht).
  - apply no_keyset_scopes_ok. exact Hk.
  - apply zero_compatible; assumption.
  - exact He.
Qed.

Print Assumptions v1_schemas_wf.
Print Assumptions v1_roundtrip.
