(* Proofs/Pipeline.v — Encode followed by Decode inside the model: the proofs of
   the lemmas closed by Properties/C03_pipeline.v. *)
From JWT Require Import Base.Codec Base.B64 Model.Claims Model.Decode Model.Encode Model.Pipeline
                        Proofs.Codec Proofs.Claims Proofs.Decode Proofs.Encode.
Open Scope string_scope.
Open Scope Z_scope.

(* ====================================================================== *)
(* the envelope                                                            *)
(* ====================================================================== *)
Lemma b64enc_sep_free s : sep_free dot (b64enc s) = true.
Proof. unfold sep_free, dot. now rewrite (proj1 (b64enc_no_dot_no_pad s)). Qed.

Lemma token_of_text jprint sign payload :
  token_of jprint sign payload =
  b64enc (jprint header_json) ++
  String dot (b64enc (jprint payload) ++
              String dot (b64enc (sign (b64enc (jprint header_json) ++ "." ++ b64enc (jprint payload))))).
Proof. unfold token_of. cbv zeta. rewrite sapp_assoc. reflexivity. Qed.

Lemma token_of_split jprint sign payload :
  split dot (token_of jprint sign payload) =
  [b64enc (jprint header_json); b64enc (jprint payload);
   b64enc (sign (b64enc (jprint header_json) ++ "." ++ b64enc (jprint payload)))].
Proof.
  rewrite token_of_text.
  rewrite split_app_sep by apply b64enc_sep_free.
  rewrite split_app_sep by apply b64enc_sep_free.
  rewrite split_sep_free by apply b64enc_sep_free. reflexivity.
Qed.

Lemma encode_envelope : forall (jprint : json -> string) (sign : string -> string) (payload : json),
  let h := b64enc (jprint header_json) in
  let p := b64enc (jprint payload) in
  split dot (token_of jprint sign payload) = [h; p; b64enc (sign (h ++ "." ++ p))] /\
  Forall (fun seg => forallb_string is_b64url_char seg = true) (split dot (token_of jprint sign payload)) /\
  b64dec h = Some (jprint header_json) /\ b64dec p = Some (jprint payload) /\
  header_json = JObj [("typ", JStr "JWT"); ("alg", JStr "ed25519-nkey")].
Proof.
  intros jprint sign payload h p. subst h p.
  split; [apply token_of_split|].
  split; [rewrite token_of_split; repeat constructor; apply b64enc_alphabet|].
  split; [apply b64dec_enc|]. split; [apply b64dec_enc | reflexivity].
Qed.

(* ====================================================================== *)
(* setp / getp and typing                                                  *)
(* ====================================================================== *)
Lemma has_type_fields_set_nth fs : forall vs i n o ft y,
  has_type_fields fs vs = true -> nth_error fs i = Some (n, o, ft) -> has_type ft y = true ->
  has_type_fields fs (set_nth_val i y vs) = true.
Proof.
  induction fs as [| [[n0 o0] ft0] fr IH]; intros [| fv0 vr] [|i] n o ft y H Hf Hy;
    simpl in H, Hf; try discriminate.
  - injection Hf as -> -> ->. apply andb_true_iff in H as [_ H2]. simpl. now rewrite Hy, H2.
  - apply andb_true_iff in H as [H1 H2]. simpl. rewrite H1. simpl. eapply IH; eassumption.
Qed.

Lemma set_path_typed : forall fuel t path x v ft,
  has_type t v = true -> get_path_ty fuel t path = Some ft -> has_type ft x = true ->
  has_type t (set_path fuel t path x v) = true.
Proof.
  induction fuel as [| fuel IH]; intros t [| name rest] x v ft Hv Hp Hx; simpl in Hp.
  - injection Hp as <-. exact Hx.
  - discriminate Hp.
  - injection Hp as <-. exact Hx.
  - rewrite set_path_step. destruct t; try discriminate Hp.
    destruct v as [| | | | | | vs |]; try discriminate Hv. simpl as_struct. cbv iota.
    destruct (field_index_exact name fs 0) as [i|]; [|exact Hv].
    destruct (nth_error fs i) as [[[n o] ft']|] eqn:Ef; [|discriminate Hp].
    destruct (nth_error vs i) as [fv|] eqn:Ev; [|exact Hv].
    rewrite has_type_struct in Hv |- *.
    eapply has_type_fields_set_nth; [exact Hv | exact Ef |].
    eapply IH; [|exact Hp | exact Hx].
    eapply (proj2 (has_type_fields_nth fs vs Hv)); eassumption.
Qed.

Lemma get_path_typed : forall fuel t path v x ft,
  has_type t v = true -> get_path fuel t path v = Some x -> get_path_ty fuel t path = Some ft ->
  has_type ft x = true.
Proof.
  induction fuel as [| fuel IH]; intros t [| name rest] v x ft Hv Hg Hp; simpl in Hp.
  - injection Hp as <-. simpl in Hg. now injection Hg as <-.
  - discriminate Hp.
  - injection Hp as <-. simpl in Hg. now injection Hg as <-.
  - rewrite get_path_step in Hg. destruct t; try discriminate Hp.
    destruct v as [| | | | | | vs |]; try discriminate Hv. simpl as_struct in Hg. cbv iota in Hg.
    destruct (field_index_exact name fs 0) as [i|]; [|discriminate Hg].
    destruct (nth_error fs i) as [[[n o] ft']|] eqn:Ef; [|discriminate Hp].
    destruct (nth_error vs i) as [fv|] eqn:Ev; [|discriminate Hg].
    rewrite has_type_struct in Hv.
    eapply IH; [|exact Hg | exact Hp].
    eapply (proj2 (has_type_fields_nth fs vs Hv)); eassumption.
Qed.

Lemma setp_typed t path x v ft :
  has_type t v = true -> getp_ty t path = Some ft -> has_type ft x = true ->
  has_type t (setp t path x v) = true.
Proof. apply set_path_typed. Qed.

Lemma getp_typed t path v x ft :
  has_type t v = true -> getp t path v = Some x -> getp_ty t path = Some ft -> has_type ft x = true.
Proof. apply get_path_typed. Qed.

(* sorting a list of entries keeps its type *)
Lemma sort_entries_typed et t l :
  has_type (TList t) l = true -> has_type (TList t) (sort_entries et l) = true.
Proof.
  destruct l as [| | | [l|] | | | |]; intros Hl; try exact Hl.
  simpl in Hl |- *. apply forallb_forall. intros x Hx.
  rewrite forallb_forall in Hl. apply Hl.
  eapply Permutation_in; [apply Permutation_sym, (sort_entries_perm et l) | exact Hx].
Qed.

Lemma sort_field_typed k path v t :
  has_type (schema_of k) v = true -> getp_ty (schema_of k) path = Some (TList t) ->
  has_type (schema_of k) (sort_field k path v) = true.
Proof.
  intros Hv Hp. unfold sort_field.
  destruct (getp (schema_of k) path v) as [l|] eqn:Eg; [|exact Hv].
  eapply setp_typed; [exact Hv | exact Hp |].
  apply sort_entries_typed. eapply getp_typed; eassumption.
Qed.

Section StampTyped.
  Variable H : string -> string.
  Variable jprint : json -> string.

  Lemma pre_encode_typed k v :
    k <> KGeneric -> has_type (schema_of k) v = true -> has_type (schema_of k) (pre_encode k v) = true.
  Proof.
    intros Hk Hv. destruct k; try (now elim Hk); unfold pre_encode;
      try (eapply setp_typed; [exact Hv | vm_compute; reflexivity | reflexivity]).
    change sch_account with (schema_of KAccount).
    eapply setp_typed; [| vm_compute; reflexivity | reflexivity].
    eapply sort_field_typed; [| vm_compute; reflexivity].
    eapply sort_field_typed; [exact Hv | vm_compute; reflexivity].
  Qed.

  Lemma stamp_typed k issuer now v v' :
    k <> KGeneric -> has_type (schema_of k) v = true -> stamp H jprint k issuer now v = Some v' ->
    has_type (schema_of k) v' = true.
  Proof.
    intros Hk Hv Hs. unfold stamp in Hs.
    match type of Hs with context [enc sch_claims_data ?c] =>
      destruct (enc sch_claims_data c) as [jj|]; [|discriminate Hs] end.
    injection Hs as <-.
    pose proof (pre_encode_typed k v Hk Hv) as Hp.
    assert (T : forall p x ft w, has_type (schema_of k) w = true -> getp_ty (schema_of k) p = Some ft ->
                has_type ft x = true -> has_type (schema_of k) (setp (schema_of k) p x w) = true)
      by (intros; eapply setp_typed; eassumption).
    destruct k; try (now elim Hk); unfold update_version;
      (eapply T; [eapply T; [eapply T; [eapply T; [eapply T; [exact Hp|..]|..]|..]|..]|..];
       first [ vm_compute; reflexivity | reflexivity ]).
  Qed.
End StampTyped.
